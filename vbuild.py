#!/usr/bin/env python3
"""Content-hashed, incremental, locked builds of the awkward-1.0 C++ engine.

    python3 vbuild.py plain|asan [--repo /repo] [--no-bridge]

prints the directory holding libawkward-cpu-kernels.so, libawkward.so,
libakbridge.so and gen/ (generated kernels.h and _kernel_signatures.py).

Objects are cached by the hash of (flags, translation unit bytes, hash of the
headers that translation unit can see), so an edit to one .cpp recompiles one
file and an edit to a header recompiles its tier.  Nothing under /repo is ever
written.  Everything lives in /verif/.build (git-ignored).
"""
from __future__ import print_function

import fcntl
import glob
import hashlib
import os
import shutil
import subprocess
import sys
import time
from concurrent.futures import ThreadPoolExecutor

HERE = os.path.dirname(os.path.abspath(__file__))
BUILD = os.environ.get("VERIF_BUILD_DIR", os.path.join(HERE, ".build"))
SHIM = os.path.join(HERE, "shim", "rapidjson", "include")
BRIDGE = os.path.join(HERE, "bridge")
PY = "/venv/bin/python"
ASAN_RT = "/usr/lib/llvm-14/lib/clang/14.0.6/lib/linux/libclang_rt.asan-x86_64.so"

VARIANTS = {
    "plain": dict(
        cxx="g++",
        cflags=["-O1", "-g1"],
        ldflags=[],
    ),
    "asan": dict(
        cxx="clang++-14",
        cflags=[
            "-O1", "-gline-tables-only", "-fno-omit-frame-pointer",
            "-fsanitize=address",
            "-fsanitize=bounds,null,return,unreachable,vla-bound",
            "-fno-sanitize-recover=all",
        ],
        ldflags=["-fsanitize=address",
                 "-fsanitize=bounds,null,return,unreachable,vla-bound",
                 "-shared-libasan"],
    ),
}


def repo_dir():
    return os.environ.get("VERIF_REPO", "/repo")


def _sha(*chunks):
    h = hashlib.sha1()
    for c in chunks:
        if isinstance(c, str):
            c = c.encode()
        h.update(c)
        h.update(b"\0")
    return h.hexdigest()


def _read(path):
    with open(path, "rb") as f:
        return f.read()


def _hash_files(paths, root):
    h = hashlib.sha1()
    for p in sorted(paths):
        h.update(os.path.relpath(p, root).encode())
        h.update(b"\0")
        h.update(_read(p))
        h.update(b"\0")
    return h.hexdigest()


def _walk(d, exts):
    out = []
    for base, _dirs, files in os.walk(d):
        for f in files:
            if f.endswith(exts):
                out.append(os.path.join(base, f))
    return out


class BuildError(Exception):
    pass


def _run(cmd, **kw):
    p = subprocess.run(cmd, stdout=subprocess.PIPE, stderr=subprocess.STDOUT, **kw)
    if p.returncode != 0:
        raise BuildError("command failed: %s\n%s" % (" ".join(cmd), p.stdout.decode(errors="replace")[-4000:]))
    return p.stdout


def generate(repo, gendir):
    """Run the repository's own generator on a private copy of its inputs."""
    spec = os.path.join(repo, "kernel-specification.yml")
    gen = os.path.join(repo, "dev", "generate-kernel-signatures.py")
    key = _sha(_read(spec), _read(gen))
    stamp = os.path.join(gendir, "stamp")
    if os.path.exists(stamp) and open(stamp).read() == key:
        return key
    if os.path.isdir(gendir):
        shutil.rmtree(gendir)
    os.makedirs(os.path.join(gendir, "dev"))
    os.makedirs(os.path.join(gendir, "include", "awkward"))
    os.makedirs(os.path.join(gendir, "src", "awkward"))
    shutil.copy(spec, os.path.join(gendir, "kernel-specification.yml"))
    shutil.copy(gen, os.path.join(gendir, "dev", "generate-kernel-signatures.py"))
    _run([PY, os.path.join(gendir, "dev", "generate-kernel-signatures.py")], cwd=gendir)
    # the generator stamps the date into both outputs; strip it so hashes are stable
    for rel in ("include/awkward/kernels.h", "src/awkward/_kernel_signatures.py"):
        p = os.path.join(gendir, rel)
        lines = open(p).read().split("\n")
        lines = [l for l in lines if "AUTO GENERATED ON" not in l]
        open(p, "w").write("\n".join(lines))
    open(stamp, "w").write(key)
    return key


def ensure(variant="plain", repo=None, bridge=True, verbose=False):
    repo = repo or repo_dir()
    v = VARIANTS[variant]
    os.makedirs(BUILD, exist_ok=True)
    lock = open(os.path.join(BUILD, "lock.%s" % variant), "w")
    fcntl.flock(lock, fcntl.LOCK_EX)
    try:
        return _ensure_locked(variant, v, repo, bridge, verbose)
    finally:
        fcntl.flock(lock, fcntl.LOCK_UN)
        lock.close()


def _ensure_locked(variant, v, repo, bridge, verbose):
    t0 = time.time()
    version = open(os.path.join(repo, "VERSION_INFO")).read().strip()
    # 1. generated headers: keyed on generator + spec
    genkey = _sha(_read(os.path.join(repo, "kernel-specification.yml")),
                  _read(os.path.join(repo, "dev", "generate-kernel-signatures.py")))
    gendir = os.path.join(BUILD, "gen", genkey[:16])
    generate(repo, gendir)
    genh = _read(os.path.join(gendir, "include", "awkward", "kernels.h"))

    inc = os.path.join(repo, "include")
    hdrs_all = [p for p in _walk(inc, (".h",)) if not p.endswith("/awkward/kernels.h")]
    hdrs_top = [p for p in hdrs_all if os.path.dirname(p) == os.path.join(inc, "awkward")]
    h_kern = _sha(_hash_files(hdrs_top, inc), genh)
    h_lib = _sha(_hash_files(hdrs_all, inc), genh, _hash_files(_walk(SHIM, (".h",)), SHIM))
    base = ["-std=c++11", "-fPIC", "-DVERSION_INFO=\"%s\"" % version,
            "-DLIBAWKWARD_EXPORT_SYMBOL=EXPORT_SYMBOL",
            "-I" + os.path.join(gendir, "include"), "-I" + inc, "-I" + SHIM] + v["cflags"]

    ksrc = sorted(glob.glob(os.path.join(repo, "src", "cpu-kernels", "*.cpp")))
    lsrc = sorted(_walk(os.path.join(repo, "src", "libawkward"), (".cpp",)))
    bsrc = sorted(glob.glob(os.path.join(BRIDGE, "*.cpp"))) if bridge else []
    h_bridge = _sha(h_lib, _hash_files(glob.glob(os.path.join(BRIDGE, "*.h")), BRIDGE)) if bridge else ""

    objdir = os.path.join(BUILD, "obj", variant)
    os.makedirs(objdir, exist_ok=True)
    jobs = []

    def plan(srcs, hh, root):
        objs = []
        for s in srcs:
            key = _sha(v["cxx"], " ".join(base), hh, os.path.relpath(s, root), _read(s))
            o = os.path.join(objdir, key[:2], key + ".o")
            objs.append(o)
            if not os.path.exists(o):
                jobs.append((s, o))
        return objs

    kobjs = plan(ksrc, h_kern, repo)
    lobjs = plan(lsrc, h_lib, repo)
    bobjs = plan(bsrc, h_bridge, HERE)

    def compile_one(job):
        s, o = job
        os.makedirs(os.path.dirname(o), exist_ok=True)
        tmp = o + ".tmp%d" % os.getpid()
        _run([v["cxx"]] + base + ["-c", s, "-o", tmp])
        os.replace(tmp, o)

    if jobs:
        with ThreadPoolExecutor(max_workers=int(os.environ.get("VERIF_JOBS", "16"))) as ex:
            list(ex.map(compile_one, jobs))

    tree = _sha(*(kobjs + lobjs + bobjs))[:16]
    out = os.path.join(BUILD, variant, tree)
    done = os.path.join(out, "done")
    if not os.path.exists(done):
        if os.path.isdir(out):
            shutil.rmtree(out)
        os.makedirs(out)
        ld = [v["cxx"], "-shared"] + v["ldflags"]
        _run(ld + ["-o", os.path.join(out, "libawkward-cpu-kernels.so")] + kobjs)
        _run(ld + ["-o", os.path.join(out, "libawkward.so")] + lobjs + kobjs + ["-ldl"])
        if bridge and bobjs:
            _run(ld + ["-o", os.path.join(out, "libakbridge.so")] + bobjs +
                 ["-L" + out, "-lawkward", "-Wl,-rpath,$ORIGIN"])
        os.symlink(gendir, os.path.join(out, "gen"))
        open(done, "w").write("ok")
        _prune(os.path.join(BUILD, variant), keep=14)
    if verbose:
        print("vbuild %s: %d compiled, %.1fs -> %s" % (variant, len(jobs), time.time() - t0, out),
              file=sys.stderr)
    return out


def _prune(d, keep):
    subs = [os.path.join(d, x) for x in os.listdir(d)]
    subs = [s for s in subs if os.path.isdir(s)]
    subs.sort(key=lambda s: os.path.getmtime(s), reverse=True)
    for s in subs[keep:]:
        shutil.rmtree(s, ignore_errors=True)


def asan_env(extra=None, halt=True, log_path=None):
    env = dict(os.environ)
    env["LD_PRELOAD"] = ASAN_RT
    opts = ["detect_leaks=0", "redzone=64", "quarantine_size_mb=128",
            "allocator_may_return_null=1", "handle_segv=1", "handle_sigfpe=1",
            "detect_stack_use_after_return=0", "symbolize=1"]
    if halt:
        opts += ["halt_on_error=1", "abort_on_error=1"]
    else:
        opts += ["halt_on_error=0"]
    if log_path:
        opts.append("log_path=" + log_path)
    env["ASAN_OPTIONS"] = ":".join(opts)
    env["UBSAN_OPTIONS"] = "print_stacktrace=1:halt_on_error=1"
    env["ASAN_SYMBOLIZER_PATH"] = "/usr/bin/llvm-symbolizer-14"
    if extra:
        env.update(extra)
    return env


if __name__ == "__main__":
    args = [a for a in sys.argv[1:] if not a.startswith("--")]
    repo = None
    if "--repo" in sys.argv:
        repo = sys.argv[sys.argv.index("--repo") + 1]
        args = [a for a in args if a != repo]
    for var in (args or ["plain"]):
        try:
            print(ensure(var, repo=repo, bridge="--no-bridge" not in sys.argv, verbose=True))
        except BuildError as e:
            print(str(e), file=sys.stderr)
            sys.exit(2)
