#!/usr/bin/env python3
"""Developer helper (not used by any registered check): re-confirm the seeded defects under /verif/seeded.

    python3 tools_seeded.py [--seed N] [--no-demo] [id ...]

For every seeded/<id>/ :
  1. /repo must be clean; the demonstration (demo.cpp, written by the author of the change against the public C++
     API) is compiled against a plain build of the unchanged tree and must exit 0;
  2. `git -C /repo apply patch.diff`; the demonstration is rebuilt and must now exit non-zero;
  3. every check named in meta.json["caught_by"] (and ["also_run"]) runs its quick tier on the modified /repo;
  4. `git -C /repo checkout -- .` (always, also on errors);
results go to seeded/<id>/result.json and a table is printed.  Nothing is ever committed to /repo.
"""
import json
import os
import subprocess
import sys
import time

HERE = os.path.dirname(os.path.abspath(__file__))
sys.path.insert(0, HERE)
import vbuild  # noqa: E402

SEEDED = os.path.join(HERE, "seeded")


def sh(cmd, **kw):
    return subprocess.run(cmd, stdout=subprocess.PIPE, stderr=subprocess.STDOUT, **kw)


def repo_clean():
    return sh(["git", "-C", "/repo", "status", "--porcelain", "--untracked-files=no"]).stdout.strip() == b""


def build_demo(demo, tag):
    out = vbuild.ensure("plain", repo="/repo")
    exe = "/tmp/seeded_demo_%s_%d" % (tag, os.getpid())
    version = open("/repo/VERSION_INFO").read().strip()
    cmd = ["g++", "-std=c++11", "-O1", "-g1", "-w", '-DVERSION_INFO="%s"' % version,
           "-DLIBAWKWARD_EXPORT_SYMBOL=EXPORT_SYMBOL",
           "-I" + os.path.join(out, "gen", "include"), "-I/repo/include", "-I" + vbuild.SHIM,
           "-o", exe, demo, "-L" + out, "-lawkward", "-Wl,-rpath," + out]
    p = sh(cmd)
    if p.returncode:
        return None, p.stdout.decode(errors="replace")[-1500:]
    return exe, ""


def run_py_demo(demo):
    """a demonstration written against the Python API: run on lane P (the repository's package on the akext stand-in)"""
    code = ("import sys; sys.path.insert(0, %r); from vlib import lanep; lanep.load('plain'); "
            "import runpy; runpy.run_path(%r, run_name='__main__')" % (HERE, demo))
    try:
        p = sh(["/venv/bin/python", "-c", code], timeout=600, cwd="/tmp")
        return {"built": True, "exit": p.returncode, "tail": p.stdout.decode(errors="replace")[-800:]}
    except subprocess.TimeoutExpired:
        return {"built": True, "exit": "timeout", "tail": ""}


def run_demo(demo, tag):
    if demo.endswith(".py"):
        return run_py_demo(demo)
    exe, err = build_demo(demo, tag)
    if exe is None:
        return {"built": False, "error": err}
    try:
        p = sh([exe], timeout=120)
        rc, tail = p.returncode, p.stdout.decode(errors="replace")[-600:]
    except subprocess.TimeoutExpired:
        rc, tail = "timeout", ""
    os.unlink(exe)
    return {"built": True, "exit": rc, "tail": tail}


def run_check(cid, seed):
    t0 = time.time()
    log = "/tmp/seeded_check_%s_%d.out" % (cid, os.getpid())
    with open(log, "wb") as f:
        p = subprocess.run([os.path.join(HERE, "check"), cid, "--tier", "quick", "--seed", str(seed)],
                           stdout=f, stderr=subprocess.STDOUT, cwd=HERE, timeout=1500)
    text = open(log, errors="replace").read()
    os.unlink(log)
    vio = [l for l in text.split("\n") if l.startswith("VIOLATION")]
    return {"exit": p.returncode, "violation_lines": len(vio), "first": vio[0][:300] if vio else None,
            "wall_s": round(time.time() - t0, 1)}


def main():
    args = sys.argv[1:]
    seed = 0
    if "--seed" in args:
        i = args.index("--seed")
        seed = int(args[i + 1])
        del args[i:i + 2]
    demo = "--no-demo" not in args
    args = [a for a in args if not a.startswith("--")]
    ids = args or sorted(os.listdir(SEEDED))
    rows = []
    for sid in ids:
        d = os.path.join(SEEDED, sid)
        if not os.path.exists(os.path.join(d, "meta.json")):
            continue
        meta = json.load(open(os.path.join(d, "meta.json")))
        if not repo_clean():
            sys.exit("/repo has uncommitted changes: refusing to apply a seeded change")
        res = {"id": sid, "repo_head": sh(["git", "-C", "/repo", "rev-parse", "--short", "HEAD"]).stdout.decode().strip(),
               "seed": seed, "checks": {}}
        dem = os.path.join(d, meta.get("demo", "demo.cpp"))
        if demo:
            res["demo_unchanged_tree"] = run_demo(dem, "clean")
        try:
            p = sh(["git", "-C", "/repo", "apply", os.path.join(d, "patch.diff")])
            if p.returncode:
                res["error"] = "patch does not apply: " + p.stdout.decode(errors="replace")[-300:]
            else:
                if demo:
                    res["demo_with_change"] = run_demo(dem, "mut")
                for cid in meta.get("caught_by", []) + meta.get("also_run", []):
                    res["checks"][cid] = run_check(cid, seed)
        finally:
            sh(["git", "-C", "/repo", "checkout", "--", "."])
        assert repo_clean()
        json.dump(res, open(os.path.join(d, "result.json"), "w"), indent=1, sort_keys=True)
        caught = [c for c, r in res["checks"].items() if r["exit"] == 1 and r["violation_lines"]]
        missed = [c for c in meta.get("caught_by", []) if c not in caught]
        rows.append((sid, res.get("demo_unchanged_tree", {}).get("exit"), res.get("demo_with_change", {}).get("exit"),
                     caught, missed, res.get("error")))
        print("%-8s demo clean=%s changed=%s caught_by=%s MISSED=%s %s" % rows[-1], flush=True)
    bad = [r for r in rows if r[4] or r[5]]
    return 1 if bad else 0


if __name__ == "__main__":
    sys.exit(main())
