#!/usr/bin/env python3
"""Developer helper: regenerate the generated regions of DESIGN.md (findings table, seeded-defect kill matrix) from
known_findings.json and seeded/*/{meta,result}.json."""
import json, os, re
HERE = os.path.dirname(os.path.abspath(__file__))
kf = json.load(open(os.path.join(HERE, "known_findings.json")))["findings"]


def esc(s):
    return s.replace("|", "\\|").replace("\n", " ")


rows = ["| mechanism | properties | status | what fails |", "|---|---|---|---|"]
for f in kf:
    st = f["status"] + (" `" + f.get("commit", "") + "`" if f["status"] == "fixed" else "")
    rows.append("| %s | %s | %s | %s |" % (f["mechanism"], ",".join(f["properties"]), st, esc(f["description"])[:420]))
nfix = sum(1 for f in kf if f["status"] == "fixed")
findings = ("%d mechanisms: %d repaired by `fix:` commits in /repo, %d recorded as known findings "
            "(generated from known_findings.json by tools_design_tables.py).\n\n" % (len(kf), nfix, len(kf) - nfix)) + "\n".join(rows)

rows = ["| seeded change | property | needs to manifest | demo (clean/changed) | caught by (quick tier) | missed |", "|---|---|---|---|---|---|"]
sd = os.path.join(HERE, "seeded")
for sid in sorted(os.listdir(sd)):
    mp = os.path.join(sd, sid, "meta.json")
    if not os.path.exists(mp):
        continue
    m = json.load(open(mp))
    rp = os.path.join(sd, sid, "result.json")
    r = json.load(open(rp)) if os.path.exists(rp) else {}
    caught = [c for c, x in r.get("checks", {}).items() if x["exit"] == 1 and x["violation_lines"]]
    missed = [c for c in m.get("caught_by", []) + m.get("also_run", []) if c not in caught]
    demo = "%s/%s" % (r.get("demo_unchanged_tree", {}).get("exit"), r.get("demo_with_change", {}).get("exit"))
    rows.append("| %s | %s | %s | %s | %s | %s |" % (sid, m["property"], esc(m["needs_to_manifest"])[:260], demo,
                                                    ", ".join(caught) or "-", ", ".join(missed) or "-"))
kill = "\n".join(rows)

p = os.path.join(HERE, "DESIGN.md")
s = open(p).read()
for tag, body in (("FINDINGS", findings), ("KILLMATRIX", kill)):
    a, b = "<!-- %s:BEGIN -->" % tag, "<!-- %s:END -->" % tag
    if a in s:
        s = s[:s.index(a) + len(a)] + "\n" + body + "\n" + s[s.index(b):]
open(p, "w").write(s)
print("ok")
