#!/usr/bin/env python3
"""Developer helper: (re)generate MANIFEST.json from the table below."""
import json, os
HERE = os.path.dirname(os.path.abspath(__file__))
ids = [json.loads(l)["id"] for l in open(os.path.join(HERE, "properties.jsonl"))]

CHECKS = {
 "C02": ("exploration", "metamorphic runtime monitor: same (type, values) in two random physical encodings and the canonical one, same operation, outcomes compared; ASan build",
         "held on the generated (layout, re-encoding, operation) triples of one run; says nothing about encodings or operations the generators do not produce", "4 C02"),
 "C04": ("exploration", "reference-model monitor on the repository's own Python layer (src/awkward on the akext stand-in for the pybind11 module): NumPy ufuncs, Python operators and ak.broadcast_arrays on 1-3 arguments derived from one generated array (same skeleton, shallower cut, size-1 regular dimension, lower rank, scalar, one length broken), compact and physical encodings; oracle = NumPy for all-regular arguments, the statement's tree-left rule otherwise, errors required for incompatible structures", "held on the executions produced (lane P); the oracle abstains (counted) where the statement does not fix the result (a shallower array meeting a regular dimension, ufuncs on records, functions undefined on a leaf type)", "4 C04"),
 "C05": ("exploration", "reference-model monitor (nested-list definitions of num/flatten/localindex) over generated layouts; ASan build", "held on the executions produced", "4 C05"),
 "C06": ("exploration", "predicate monitor per group along the axis (permutation, order, NaN-first/None-last, stability) over generated layouts; ASan build", "held on the executions produced; outer axes and missing lists above the axis are recorded known findings", "4 C06"),
 "C07": ("exploration", "reference-model monitor (itertools) over generated layouts and (n, replacement, axis); ASan build", "held on the executions produced (lane L: Content::combinations)", "4 C07"),
 "C09": ("exploration", "reference-model monitor (pad/fill definitions, option-encoding round trips) over generated layouts; ASan build", "held on the executions produced (lane L)", "4 C09"),
 "C11": ("exploration", "runtime monitor: validityerror vs labelled valid / one-rule-broken layouts, and a closure monitor validating every result of 1-3 chained catalogue operations; ASan build", "held on the executions produced", "4 C11"),
 "C12": ("exploration", "AddressSanitizer+UBSan build under hostile small-size workloads, crash/hang watchdog with journal, operand-dump purity monitor, drop-inputs monitor", "held on the executions produced; ASan blind spots listed in the evidence assumptions", "4 C12"),
 "C01": ("exploration", "reference-model monitor: recursive nested-list slicer (cross-checked against NumPy on rectilinear inputs) vs Content::getitem over generated layouts and slice tuples; ASan build", "held on the executions produced; the oracle abstains (counted) on combinations whose placement rules the statement does not fix", "4 C01"),
 "C03": ("exploration", "reference-model monitor: grouped-leaf reducer over generated layouts x 10 reducers x axes x mask/keepdims; ASan build", "held on the executions produced; non-innermost axes on ragged data are a recorded known finding (F10/F10d)", "4 C03"),
 "C08": ("exploration", "reference-model monitor: concatenation law, numpy.concatenate promotion, numpy.astype casts, simplify value-preservation; ASan build", "held on the executions produced (lane L: mergemany/simplify/numbers_to_type)", "4 C08"),
 "C10": ("exploration", "metamorphic + reference monitor: field projection commuted through positional slices, getitem_field(s) vs Slice items, setitem_field read-back; ASan build", "held on the executions produced (lane L)", "4 C10"),
 "C14": ("exploration", "history monitor: generated well-/ill-nested ArrayBuilder command histories fed to the C++ API and to the extern-C entry points, value compared with the appended values after the documented unification; snapshot-immutability monitor re-reading structural dumps; forced buffer growth; ASan build", "held on the executions produced (lane L: ArrayBuilder; from_iter walk re-implemented in the harness; LayoutBuilder not yet driven)", "4 C14"),
 "C15": ("fault_enumeration", "runtime monitor with exhaustive fault injection: every truncation point and every single-position corruption of generated JSON texts classified by a strict RFC 8259 sequence reader (must-raise vs must-equal), writers' output re-parsed by an independent parser, reads/writes through files with buffer sizes that split tokens; ASan build", "for each base text every prefix and every listed corruption at every position is decided; base texts and layouts are sampled. RapidJSON is a stand-in here, so the repository-owned half (emission, SAX handler, multi-document/incomplete logic) is what is decided", "4 C15"),
 "C18": ("fault_enumeration", "runtime monitor with scripted doubles: ArrayGenerator/ArrayCache test doubles whose every call is journalled; lazy vs eager differential over generated layouts x wrapped node x cache policy (none/keep/forget/evict-with-probability/evict-at-nth-get/broken) x 1-4 operations; fault scripts (fail-then-ok, short, other form, ok-then-short) checked against the journal (no set after a failed generation, recovery); partitioned arrays vs Python list semantics for every index, a cube of range slices, repartitionings and tojson; ASan build", "held on the histories produced: cache-eviction points and fault scripts are enumerated per history in the thorough tier and sampled in the quick tier (lane L: C++ VirtualArray/IrregularlyPartitionedArray; the Python PartitionedArray and ak.virtual wrappers are lane P)", "4 C18"),
 "C16": ("exploration", "round-trip monitors on the repository's own Python layer (src/awkward on the akext stand-in): to_buffers/from_buffers (form_key/key_format choices, raw-bytes containers, partitioned input), pickle, to_numpy/from_numpy (n-d, strided, masked, structured, strings) and to_arrow/from_arrow with the Arrow options, results read through the bridge's structural dump and, for Arrow, through pyarrow's own to_pylist", "held on the executions produced (lane P); conversions of datetime leaves, strided leaf buffers, union types through Arrow and a few other corners are recorded known findings and run in a capped stream", "4 C16"),
 "C17": ("exploration", "runtime monitor: library type strings vs the layout model's own type derivation, Content vs Form queries, Form JSON round trips, element/range type consistency; ASan build", "held on the executions produced (lane L)", "4 C17"),
 "C13": ("exploration", "differential runtime monitor: every compiled kernel specialisation vs its YAML Python definition run on index-recording typed lists; malloc-exact extents under ASan, canaries on the plain build, cross-specialisation comparison", "held on the accepted argument tuples of one run (all 690 specialisations reached)", "4 C13"),
 "C19": ("exploration", "differential runtime monitor: generated AwkwardForth programs (whole documented vocabulary, valid and invalid sources) and input bytes run on ForthMachine32 and ForthMachine64 through the C-ABI bridge and on an independent reference interpreter of the documented semantics (vlib/forthref.py): stack, variables, input positions, outputs, error; segmentation monitor (run vs begin+step vs pause/resume at every token boundary vs call), configuration monitor (output growth, stack/recursion limits), decompile round trip, determinism; ASan build", "held on the programs and schedules produced; the reference abstains (counted) where the documentation does not fix the behaviour", "4 C19"),
 "C20": ("exploration", "differential runtime monitor on the repository's Numba extension (src/awkward/_connect/_numba on numba 0.67): access programs generated from the array's type (nested loops with early exits and a position-weighted checksum, len, integer/negative/out-of-range and chained indexing, range slices, field access, `in`, numpy.asarray, ArrayBuilder copies, pass-through) run compiled (numba.njit) and interpreted on the same ak.Array over every lowered node class; reference-count monitor (sys.getrefcount and the C++ owners' use_count) over 1/10/100 calls", "held on the executions produced (lane P); union-type elements, strings and complex/datetime leaves are not accessed inside compiled code (documented as unsupported there)", "4 C20"),
}
NOT_YET = "check not built yet (framework under construction; see DESIGN.md section 11 for order)"

m = {"version": 1,
     "setup_cmd": "cd /verif && python3 vbuild.py plain asan",
     "hooks": {"guard": "AWKWARD_1_0_VERIF",
               "enable": "no hooks in /repo: all monitors attach at existing boundaries (kernel C ABI, public C++ API); checks rebuild /repo's working tree with vbuild.py",
               "baseline_off_cmd": "cd /repo && /venv/bin/python -m pytest -ra -q -p no:cacheprovider --timeout=900 --continue-on-collection-errors",
               "source_commits": [], "add_only": True},
     "engines": [{"name": "vlib", "path": "vlib/", "serves_properties": sorted(CHECKS),
                  "kind_free_text": "runtime monitors over generated workloads on ASan/plain builds of libawkward reached through a C-ABI bridge"}],
     "checks": [], "not_applicable": [], "notes": "see DESIGN.md; known_findings.json lists recorded and repaired genuine defects"}
for i in ids:
    if i in CHECKS:
        level, tech, note, ref = CHECKS[i]
        m["checks"].append({"property_id": i, "quick_cmd": "./check %s --tier quick" % i,
                            "thorough_cmd": "./check %s --tier thorough" % i,
                            "evidence_file": "evidence/%s.json" % i,
                            "replay_cmd_template": "./check %s --replay {path}" % i,
                            "engine": "vlib",
                            "level_claimed": {"category": level, "text": note, "design_ref": "DESIGN.md section " + ref},
                            "level_note": "trusted: clang/gcc + ASan runtime, CPython/NumPy, the RapidJSON stand-in (shim/), the C-ABI bridge (bridge/), the layout model and reference semantics (vlib/model.py, vlib/oracles.py)",
                            "technique": tech})
    else:
        m["not_applicable"].append({"property_id": i, "reason": NOT_YET})
json.dump(m, open(os.path.join(HERE, "MANIFEST.json"), "w"), indent=1)
print(len(m["checks"]), "checks,", len(m["not_applicable"]), "not applicable")
