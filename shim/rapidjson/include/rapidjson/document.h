#ifndef VERIF_RAPIDJSON_SHIM_DOCUMENT_H_
#define VERIF_RAPIDJSON_SHIM_DOCUMENT_H_
#include "rapidjson.h"

namespace rapidjson {

enum Type {
  kNullType = 0, kFalseType = 1, kTrueType = 2, kObjectType = 3,
  kArrayType = 4, kStringType = 5, kNumberType = 6
};

class Value;

class Value {
public:
  Value() : type_(kNullType), isdouble_(false), neg_(false), u64_(0), d_(0) {}

  Type GetType() const { return type_; }
  bool IsNull() const { return type_ == kNullType; }
  bool IsFalse() const { return type_ == kFalseType; }
  bool IsTrue() const { return type_ == kTrueType; }
  bool IsBool() const { return type_ == kFalseType  ||  type_ == kTrueType; }
  bool IsObject() const { return type_ == kObjectType; }
  bool IsArray() const { return type_ == kArrayType; }
  bool IsString() const { return type_ == kStringType; }
  bool IsNumber() const { return type_ == kNumberType; }
  bool IsDouble() const { return type_ == kNumberType  &&  isdouble_; }
  bool IsInt() const {
    return type_ == kNumberType  &&  !isdouble_  &&
           (neg_ ? (u64_ <= static_cast<uint64_t>(INT32_MAX) + 1)
                 : (u64_ <= static_cast<uint64_t>(INT32_MAX)));
  }
  bool IsUint() const {
    return type_ == kNumberType  &&  !isdouble_  &&  !neg_  &&  u64_ <= UINT32_MAX;
  }
  bool IsInt64() const {
    return type_ == kNumberType  &&  !isdouble_  &&
           (neg_ ? (u64_ <= static_cast<uint64_t>(INT64_MAX) + 1)
                 : (u64_ <= static_cast<uint64_t>(INT64_MAX)));
  }
  bool IsUint64() const {
    return type_ == kNumberType  &&  !isdouble_  &&  !neg_;
  }

  bool GetBool() const { return type_ == kTrueType; }
  int GetInt() const { return static_cast<int>(GetInt64()); }
  unsigned GetUint() const { return static_cast<unsigned>(u64_); }
  int64_t GetInt64() const {
    return neg_ ? static_cast<int64_t>(~u64_ + 1) : static_cast<int64_t>(u64_);
  }
  uint64_t GetUint64() const { return u64_; }
  double GetDouble() const {
    if (isdouble_) return d_;
    return neg_ ? -static_cast<double>(u64_) : static_cast<double>(u64_);
  }
  const char* GetString() const { return s_.c_str(); }
  SizeType GetStringLength() const { return static_cast<SizeType>(s_.size()); }

  // arrays
  SizeType Size() const { return static_cast<SizeType>(elements_.size()); }
  bool Empty() const { return elements_.empty(); }
  Value& operator[](SizeType i) { return elements_[i]; }
  const Value& operator[](SizeType i) const { return elements_[i]; }
  Value& operator[](int i) { return elements_[static_cast<size_t>(i)]; }
  const Value& operator[](int i) const { return elements_[static_cast<size_t>(i)]; }
  typedef std::vector<Value>::iterator ValueIterator;
  typedef std::vector<Value>::const_iterator ConstValueIterator;
  ValueIterator Begin() { return elements_.begin(); }
  ValueIterator End() { return elements_.end(); }
  ConstValueIterator Begin() const { return elements_.begin(); }
  ConstValueIterator End() const { return elements_.end(); }

  struct ConstArray {
    const Value* v;
    ConstValueIterator begin() const { return v->elements_.begin(); }
    ConstValueIterator end() const { return v->elements_.end(); }
    SizeType Size() const { return v->Size(); }
    const Value& operator[](SizeType i) const { return v->elements_[i]; }
  };
  ConstArray GetArray() const { ConstArray a; a.v = this; return a; }

  // objects
  class ObjMember;
  typedef std::vector<ObjMember>::iterator MemberIterator;
  typedef std::vector<ObjMember>::const_iterator ConstMemberIterator;
  SizeType MemberCount() const;
  ConstMemberIterator MemberBegin() const;
  ConstMemberIterator MemberEnd() const;
  ConstMemberIterator FindMember(const char* name) const;
  bool HasMember(const char* name) const;
  bool HasMember(const std::string& name) const { return HasMember(name.c_str()); }
  const Value& operator[](const char* name) const;
  const Value& operator[](const std::string& name) const { return (*this)[name.c_str()]; }
  struct ConstObject {
    const Value* v;
    ConstMemberIterator begin() const;
    ConstMemberIterator end() const;
  };
  ConstObject GetObject() const { ConstObject o; o.v = this; return o; }

  bool operator==(const Value& rhs) const;
  bool operator!=(const Value& rhs) const { return !(*this == rhs); }

  template <typename Handler>
  bool Accept(Handler& handler) const;

protected:
  friend class DocumentBuilder;
  Type type_;
  bool isdouble_;
  bool neg_;
  uint64_t u64_;
  double d_;
  std::string s_;
  std::vector<Value> elements_;
  std::vector<ObjMember> members_;
};

class Value::ObjMember {
public:
  ObjMember() : name(), value() {}
  Value name;
  Value value;
};

inline SizeType Value::MemberCount() const { return static_cast<SizeType>(members_.size()); }
inline Value::ConstMemberIterator Value::MemberBegin() const { return members_.begin(); }
inline Value::ConstMemberIterator Value::MemberEnd() const { return members_.end(); }
inline Value::ConstMemberIterator Value::FindMember(const char* name) const {
  size_t n = std::strlen(name);
  for (ConstMemberIterator it = members_.begin();  it != members_.end();  ++it) {
    if (it->name.s_.size() == n  &&  std::memcmp(it->name.s_.data(), name, n) == 0) {
      return it;
    }
  }
  return members_.end();
}
inline bool Value::HasMember(const char* name) const { return FindMember(name) != members_.end(); }
inline const Value& Value::operator[](const char* name) const {
  ConstMemberIterator it = FindMember(name);
  if (it == members_.end()) {
    static const Value nullvalue;
    return nullvalue;
  }
  return it->value;
}
inline Value::ConstMemberIterator Value::ConstObject::begin() const { return v->members_.begin(); }
inline Value::ConstMemberIterator Value::ConstObject::end() const { return v->members_.end(); }

inline bool Value::operator==(const Value& rhs) const {
  if (type_ != rhs.type_) return false;
  switch (type_) {
    case kObjectType:
      if (members_.size() != rhs.members_.size()) return false;
      for (ConstMemberIterator it = members_.begin();  it != members_.end();  ++it) {
        bool found = false;
        for (ConstMemberIterator jt = rhs.members_.begin();  jt != rhs.members_.end();  ++jt) {
          if (jt->name.s_ == it->name.s_) {
            if (!(it->value == jt->value)) return false;
            found = true;
            break;
          }
        }
        if (!found) return false;
      }
      return true;
    case kArrayType:
      if (elements_.size() != rhs.elements_.size()) return false;
      for (size_t i = 0;  i < elements_.size();  i++) {
        if (!(elements_[i] == rhs.elements_[i])) return false;
      }
      return true;
    case kStringType:
      return s_ == rhs.s_;
    case kNumberType:
      if (isdouble_  ||  rhs.isdouble_) {
        double a = GetDouble();
        double b = rhs.GetDouble();
        return a >= b  &&  a <= b;
      }
      return neg_ == rhs.neg_  &&  u64_ == rhs.u64_;
    default:
      return true;
  }
}

template <typename Handler>
bool Value::Accept(Handler& handler) const {
  switch (type_) {
    case kNullType: return handler.Null();
    case kFalseType: return handler.Bool(false);
    case kTrueType: return handler.Bool(true);
    case kObjectType:
      if (!handler.StartObject()) return false;
      for (ConstMemberIterator it = members_.begin();  it != members_.end();  ++it) {
        if (!handler.Key(it->name.s_.c_str(), it->name.GetStringLength(), true)) return false;
        if (!it->value.Accept(handler)) return false;
      }
      return handler.EndObject(MemberCount());
    case kArrayType:
      if (!handler.StartArray()) return false;
      for (size_t i = 0;  i < elements_.size();  i++) {
        if (!elements_[i].Accept(handler)) return false;
      }
      return handler.EndArray(Size());
    case kStringType:
      return handler.String(s_.c_str(), GetStringLength(), true);
    default:
      if (isdouble_) return handler.Double(d_);
      if (IsInt()) return handler.Int(GetInt());
      if (IsUint()) return handler.Uint(GetUint());
      if (IsInt64()) return handler.Int64(GetInt64());
      return handler.Uint64(u64_);
  }
}

// SAX handler that builds a Value tree
class DocumentBuilder {
public:
  explicit DocumentBuilder(Value& root) : root_(&root) {}
  bool Null() { Value v; return Add(v); }
  bool Bool(bool b) { Value v; v.type_ = b ? kTrueType : kFalseType; return Add(v); }
  bool Int(int i) { return Int64(i); }
  bool Uint(unsigned u) { return Uint64(u); }
  bool Int64(int64_t i) {
    Value v; v.type_ = kNumberType;
    if (i < 0) { v.neg_ = true; v.u64_ = ~static_cast<uint64_t>(i) + 1; }
    else { v.u64_ = static_cast<uint64_t>(i); }
    return Add(v);
  }
  bool Uint64(uint64_t u) { Value v; v.type_ = kNumberType; v.u64_ = u; return Add(v); }
  bool Double(double d) { Value v; v.type_ = kNumberType; v.isdouble_ = true; v.d_ = d; return Add(v); }
  bool RawNumber(const char*, SizeType, bool) { return false; }
  bool String(const char* s, SizeType n, bool) {
    Value v; v.type_ = kStringType; v.s_.assign(s, n); return Add(v);
  }
  bool Key(const char* s, SizeType n, bool) {
    Value* top = stack_.back();
    top->members_.push_back(Value::ObjMember());
    top->members_.back().name.type_ = kStringType;
    top->members_.back().name.s_.assign(s, n);
    pendingkey_ = true;
    return true;
  }
  bool StartObject() { Value v; v.type_ = kObjectType; return Push(v); }
  bool EndObject(SizeType) { stack_.pop_back(); return true; }
  bool StartArray() { Value v; v.type_ = kArrayType; return Push(v); }
  bool EndArray(SizeType) { stack_.pop_back(); return true; }
private:
  Value* Place(const Value& v) {
    if (stack_.empty()) {
      *root_ = v;
      return root_;
    }
    Value* top = stack_.back();
    if (top->type_ == kArrayType) {
      top->elements_.push_back(v);
      return &top->elements_.back();
    }
    top->members_.back().value = v;
    pendingkey_ = false;
    return &top->members_.back().value;
  }
  bool Add(const Value& v) { Place(v); return true; }
  bool Push(const Value& v) {
    // NB: pointers into vectors stay valid because a container only grows
    // while it is on top of the stack, and then its own storage moves, not
    // the storage of the containers below it... except for the elements it
    // holds.  Children are always complete (popped) before a sibling is
    // appended, so no live pointer refers to a moved element.
    Value* placed = Place(v);
    stack_.push_back(placed);
    return true;
  }
  Value* root_;
  std::vector<Value*> stack_;
  bool pendingkey_ = false;
};

class Document : public Value {
public:
  Document() : Value(), result_() {}

  template <unsigned parseFlags>
  Document& Parse(const char* str) {
    StringStream is(str);
    Value fresh;
    static_cast<Value&>(*this) = fresh;
    DocumentBuilder builder(*this);
    GenericReader<UTF8<>, UTF8<> > reader;
    result_ = reader.template Parse<parseFlags>(is, builder);
    if (result_.IsError()) {
      static_cast<Value&>(*this) = fresh;
    }
    return *this;
  }
  Document& Parse(const char* str) { return Parse<kParseDefaultFlags>(str); }

  bool HasParseError() const { return result_.IsError(); }
  ParseErrorCode GetParseError() const { return result_.Code(); }
  size_t GetErrorOffset() const { return result_.Offset(); }

private:
  ParseResult result_;
};

}  // namespace rapidjson
#endif
