#include "rapidjson.h"
