// Minimal stand-in for the subset of the RapidJSON API that libawkward uses.
// The real RapidJSON is a git submodule of awkward-1.0 that is EMPTY in this
// sandbox (no network); this header set lets src/libawkward/*.cpp compile
// unmodified.  It is part of the verification harness' trusted base, not of
// the code under verification.
#ifndef VERIF_RAPIDJSON_SHIM_H_
#define VERIF_RAPIDJSON_SHIM_H_

#include <cstdint>
#include <cstdio>
#include <cstdlib>
#include <cstring>
#include <cmath>
#include <string>
#include <vector>
#include <utility>
#include <memory>

namespace rapidjson {

typedef unsigned SizeType;

enum ParseFlag {
  kParseNoFlags = 0,
  kParseInsituFlag = 1,
  kParseValidateEncodingFlag = 2,
  kParseIterativeFlag = 4,
  kParseStopWhenDoneFlag = 8,
  kParseFullPrecisionFlag = 16,
  kParseCommentsFlag = 32,
  kParseNumbersAsStringsFlag = 64,
  kParseTrailingCommasFlag = 128,
  kParseNanAndInfFlag = 256,
  kParseDefaultFlags = kParseNoFlags
};

enum ParseErrorCode {
  kParseErrorNone = 0,
  kParseErrorDocumentEmpty,
  kParseErrorDocumentRootNotSingular,
  kParseErrorValueInvalid,
  kParseErrorObjectMissName,
  kParseErrorObjectMissColon,
  kParseErrorObjectMissCommaOrCurlyBracket,
  kParseErrorArrayMissCommaOrSquareBracket,
  kParseErrorStringUnicodeEscapeInvalidHex,
  kParseErrorStringUnicodeSurrogateInvalid,
  kParseErrorStringEscapeInvalid,
  kParseErrorStringMissQuotationMark,
  kParseErrorStringInvalidEncoding,
  kParseErrorNumberTooBig,
  kParseErrorNumberMissFraction,
  kParseErrorNumberMissExponent,
  kParseErrorTermination,
  kParseErrorUnspecificSyntaxError
};

struct ParseResult {
  ParseResult() : code_(kParseErrorNone), offset_(0) {}
  ParseResult(ParseErrorCode code, size_t offset) : code_(code), offset_(offset) {}
  ParseErrorCode Code() const { return code_; }
  size_t Offset() const { return offset_; }
  operator bool() const { return code_ == kParseErrorNone; }
  bool IsError() const { return code_ != kParseErrorNone; }
  ParseErrorCode code_;
  size_t offset_;
};

template <typename CharType = char>
struct UTF8 {
  typedef CharType Ch;
};

template <typename Encoding = UTF8<>, typename Derived = void>
struct BaseReaderHandler {
  typedef typename Encoding::Ch Ch;
  bool Default() { return true; }
  bool Null() { return true; }
  bool Bool(bool) { return true; }
  bool Int(int) { return true; }
  bool Uint(unsigned) { return true; }
  bool Int64(int64_t) { return true; }
  bool Uint64(uint64_t) { return true; }
  bool Double(double) { return true; }
  bool RawNumber(const Ch*, SizeType, bool) { return true; }
  bool String(const Ch*, SizeType, bool) { return true; }
  bool StartObject() { return true; }
  bool Key(const Ch*, SizeType, bool) { return true; }
  bool EndObject(SizeType) { return true; }
  bool StartArray() { return true; }
  bool EndArray(SizeType) { return true; }
};

////////////////////////////////////////////////////////////////// streams

struct StringStream {
  typedef char Ch;
  StringStream(const char* src) : src_(src), head_(src) {}
  char Peek() const { return *src_; }
  char Take() { return *src_++; }
  size_t Tell() const { return static_cast<size_t>(src_ - head_); }
  const char* src_;
  const char* head_;
};

class FileReadStream {
public:
  typedef char Ch;
  FileReadStream(FILE* fp, char* buffer, size_t bufferSize)
      : fp_(fp), buffer_(buffer), bufferSize_(bufferSize), bufferLast_(0),
        current_(buffer), readCount_(0), count_(0), eof_(false) {
    Read();
  }
  char Peek() const { return *current_; }
  char Take() { char c = *current_; Read(); return c; }
  size_t Tell() const { return count_ + static_cast<size_t>(current_ - buffer_); }
private:
  void Read() {
    if (current_ < bufferLast_) {
      ++current_;
    }
    else if (!eof_) {
      count_ += readCount_;
      readCount_ = std::fread(buffer_, 1, bufferSize_, fp_);
      bufferLast_ = buffer_ + readCount_ - 1;
      current_ = buffer_;
      if (readCount_ < bufferSize_) {
        buffer_[readCount_] = '\0';
        ++bufferLast_;
        eof_ = true;
      }
    }
  }
  FILE* fp_;
  char* buffer_;
  size_t bufferSize_;
  char* bufferLast_;
  char* current_;
  size_t readCount_;
  size_t count_;
  bool eof_;
};

class StringBuffer {
public:
  typedef char Ch;
  StringBuffer() {}
  void Put(char c) { s_.push_back(c); }
  void Flush() {}
  void Clear() { s_.clear(); }
  const char* GetString() const { return s_.c_str(); }
  size_t GetSize() const { return s_.size(); }
  size_t GetLength() const { return s_.size(); }
private:
  std::string s_;
};

class FileWriteStream {
public:
  typedef char Ch;
  FileWriteStream(FILE* fp, char* buffer, size_t bufferSize)
      : fp_(fp), buffer_(buffer), bufferEnd_(buffer + bufferSize), current_(buffer) {}
  void Put(char c) {
    if (current_ >= bufferEnd_) {
      Flush();
    }
    *current_++ = c;
  }
  void Flush() {
    if (current_ != buffer_) {
      std::fwrite(buffer_, 1, static_cast<size_t>(current_ - buffer_), fp_);
      current_ = buffer_;
    }
  }
private:
  FILE* fp_;
  char* buffer_;
  char* bufferEnd_;
  char* current_;
};

////////////////////////////////////////////////////////////////// reader

namespace shim_detail {
  inline bool is_ws(char c) { return c == ' ' || c == '\n' || c == '\r' || c == '\t'; }

  inline void utf8_encode(std::string& out, unsigned cp) {
    if (cp <= 0x7F) {
      out.push_back(static_cast<char>(cp));
    }
    else if (cp <= 0x7FF) {
      out.push_back(static_cast<char>(0xC0 | (cp >> 6)));
      out.push_back(static_cast<char>(0x80 | (cp & 0x3F)));
    }
    else if (cp <= 0xFFFF) {
      out.push_back(static_cast<char>(0xE0 | (cp >> 12)));
      out.push_back(static_cast<char>(0x80 | ((cp >> 6) & 0x3F)));
      out.push_back(static_cast<char>(0x80 | (cp & 0x3F)));
    }
    else {
      out.push_back(static_cast<char>(0xF0 | (cp >> 18)));
      out.push_back(static_cast<char>(0x80 | ((cp >> 12) & 0x3F)));
      out.push_back(static_cast<char>(0x80 | ((cp >> 6) & 0x3F)));
      out.push_back(static_cast<char>(0x80 | (cp & 0x3F)));
    }
  }
}

template <typename SourceEncoding = UTF8<>, typename TargetEncoding = UTF8<> >
class GenericReader {
public:
  GenericReader() : result_() {}

  template <unsigned parseFlags, typename InputStream, typename Handler>
  ParseResult Parse(InputStream& is, Handler& handler) {
    result_ = ParseResult();
    SkipWs(is);
    if (is.Peek() == '\0') {
      SetError(kParseErrorDocumentEmpty, is.Tell());
    }
    else {
      ParseValue<parseFlags>(is, handler, 0);
      if (!result_.IsError()  &&  !(parseFlags & kParseStopWhenDoneFlag)) {
        SkipWs(is);
        if (is.Peek() != '\0') {
          SetError(kParseErrorDocumentRootNotSingular, is.Tell());
        }
      }
    }
    return result_;
  }

  template <typename InputStream, typename Handler>
  ParseResult Parse(InputStream& is, Handler& handler) {
    return Parse<kParseDefaultFlags>(is, handler);
  }

  bool HasParseError() const { return result_.IsError(); }
  ParseErrorCode GetParseErrorCode() const { return result_.Code(); }
  size_t GetErrorOffset() const { return result_.Offset(); }

private:
  void SetError(ParseErrorCode code, size_t offset) {
    if (!result_.IsError()) {
      result_ = ParseResult(code, offset);
    }
  }

  template <typename InputStream>
  static void SkipWs(InputStream& is) {
    while (shim_detail::is_ws(is.Peek())) {
      is.Take();
    }
  }

  template <typename InputStream>
  static bool Consume(InputStream& is, char expect) {
    if (is.Peek() == expect) {
      is.Take();
      return true;
    }
    return false;
  }

  template <unsigned parseFlags, typename InputStream, typename Handler>
  void ParseValue(InputStream& is, Handler& handler, int depth) {
    if (depth > 100000) {
      SetError(kParseErrorUnspecificSyntaxError, is.Tell());
      return;
    }
    switch (is.Peek()) {
      case 'n': ParseLiteral(is, "null", 0, handler); break;
      case 't': ParseLiteral(is, "true", 1, handler); break;
      case 'f': ParseLiteral(is, "false", 2, handler); break;
      case '"': ParseString(is, handler, false); break;
      case '{': ParseObject<parseFlags>(is, handler, depth); break;
      case '[': ParseArray<parseFlags>(is, handler, depth); break;
      default:  ParseNumber<parseFlags>(is, handler); break;
    }
  }

  template <typename InputStream, typename Handler>
  void ParseLiteral(InputStream& is, const char* word, int which, Handler& handler) {
    size_t start = is.Tell();
    is.Take();
    for (const char* p = word + 1;  *p;  ++p) {
      if (!Consume(is, *p)) {
        SetError(kParseErrorValueInvalid, start);
        return;
      }
    }
    bool ok = (which == 0) ? handler.Null() : handler.Bool(which == 1);
    if (!ok) {
      SetError(kParseErrorTermination, is.Tell());
    }
  }

  template <typename InputStream>
  bool ParseHex4(InputStream& is, unsigned& out, size_t escapeOffset) {
    unsigned cp = 0;
    for (int i = 0;  i < 4;  i++) {
      char c = is.Peek();
      cp <<= 4;
      if (c >= '0'  &&  c <= '9') cp += static_cast<unsigned>(c - '0');
      else if (c >= 'A'  &&  c <= 'F') cp += static_cast<unsigned>(c - 'A' + 10);
      else if (c >= 'a'  &&  c <= 'f') cp += static_cast<unsigned>(c - 'a' + 10);
      else {
        SetError(kParseErrorStringUnicodeEscapeInvalidHex, escapeOffset);
        return false;
      }
      is.Take();
    }
    out = cp;
    return true;
  }

  template <typename InputStream, typename Handler>
  void ParseString(InputStream& is, Handler& handler, bool isKey) {
    is.Take();  // opening quote
    std::string s;
    for (;;) {
      char c = is.Peek();
      if (c == '\\') {
        size_t escapeOffset = is.Tell();
        is.Take();
        char e = is.Peek();
        char out = 0;
        switch (e) {
          case '"': out = '"'; break;
          case '\\': out = '\\'; break;
          case '/': out = '/'; break;
          case 'b': out = '\b'; break;
          case 'f': out = '\f'; break;
          case 'n': out = '\n'; break;
          case 'r': out = '\r'; break;
          case 't': out = '\t'; break;
          default: break;
        }
        if (out != 0) {
          is.Take();
          s.push_back(out);
        }
        else if (e == 'u') {
          is.Take();
          unsigned cp = 0;
          if (!ParseHex4(is, cp, escapeOffset)) {
            return;
          }
          if (cp >= 0xD800  &&  cp <= 0xDFFF) {
            if (cp <= 0xDBFF) {
              if (!Consume(is, '\\')  ||  !Consume(is, 'u')) {
                SetError(kParseErrorStringUnicodeSurrogateInvalid, escapeOffset);
                return;
              }
              unsigned cp2 = 0;
              if (!ParseHex4(is, cp2, escapeOffset)) {
                return;
              }
              if (cp2 < 0xDC00  ||  cp2 > 0xDFFF) {
                SetError(kParseErrorStringUnicodeSurrogateInvalid, escapeOffset);
                return;
              }
              cp = (((cp - 0xD800) << 10) | (cp2 - 0xDC00)) + 0x10000;
            }
            else {
              SetError(kParseErrorStringUnicodeSurrogateInvalid, escapeOffset);
              return;
            }
          }
          shim_detail::utf8_encode(s, cp);
        }
        else {
          SetError(kParseErrorStringEscapeInvalid, escapeOffset);
          return;
        }
      }
      else if (c == '"') {
        is.Take();
        break;
      }
      else if (static_cast<unsigned char>(c) < 0x20) {
        if (c == '\0') {
          SetError(kParseErrorStringMissQuotationMark, is.Tell());
        }
        else {
          SetError(kParseErrorStringInvalidEncoding, is.Tell());
        }
        return;
      }
      else {
        s.push_back(is.Take());
      }
    }
    bool ok = isKey ? handler.Key(s.c_str(), static_cast<SizeType>(s.size()), true)
                    : handler.String(s.c_str(), static_cast<SizeType>(s.size()), true);
    if (!ok) {
      SetError(kParseErrorTermination, is.Tell());
    }
  }

  template <unsigned parseFlags, typename InputStream, typename Handler>
  void ParseObject(InputStream& is, Handler& handler, int depth) {
    is.Take();  // '{'
    if (!handler.StartObject()) {
      SetError(kParseErrorTermination, is.Tell());
      return;
    }
    SkipWs(is);
    if (Consume(is, '}')) {
      if (!handler.EndObject(0)) {
        SetError(kParseErrorTermination, is.Tell());
      }
      return;
    }
    for (SizeType memberCount = 0;;) {
      if (is.Peek() != '"') {
        SetError(kParseErrorObjectMissName, is.Tell());
        return;
      }
      ParseString(is, handler, true);
      if (result_.IsError()) return;
      SkipWs(is);
      if (!Consume(is, ':')) {
        SetError(kParseErrorObjectMissColon, is.Tell());
        return;
      }
      SkipWs(is);
      ParseValue<parseFlags>(is, handler, depth + 1);
      if (result_.IsError()) return;
      SkipWs(is);
      ++memberCount;
      char c = is.Peek();
      if (c == ',') {
        is.Take();
        SkipWs(is);
      }
      else if (c == '}') {
        is.Take();
        if (!handler.EndObject(memberCount)) {
          SetError(kParseErrorTermination, is.Tell());
        }
        return;
      }
      else {
        SetError(kParseErrorObjectMissCommaOrCurlyBracket, is.Tell());
        return;
      }
    }
  }

  template <unsigned parseFlags, typename InputStream, typename Handler>
  void ParseArray(InputStream& is, Handler& handler, int depth) {
    is.Take();  // '['
    if (!handler.StartArray()) {
      SetError(kParseErrorTermination, is.Tell());
      return;
    }
    SkipWs(is);
    if (Consume(is, ']')) {
      if (!handler.EndArray(0)) {
        SetError(kParseErrorTermination, is.Tell());
      }
      return;
    }
    for (SizeType elementCount = 0;;) {
      ParseValue<parseFlags>(is, handler, depth + 1);
      if (result_.IsError()) return;
      ++elementCount;
      SkipWs(is);
      if (Consume(is, ',')) {
        SkipWs(is);
      }
      else if (Consume(is, ']')) {
        if (!handler.EndArray(elementCount)) {
          SetError(kParseErrorTermination, is.Tell());
        }
        return;
      }
      else {
        SetError(kParseErrorArrayMissCommaOrSquareBracket, is.Tell());
        return;
      }
    }
  }

  template <unsigned parseFlags, typename InputStream, typename Handler>
  void ParseNumber(InputStream& is, Handler& handler) {
    size_t start = is.Tell();
    std::string text;
    bool minus = false;
    if (is.Peek() == '-') {
      minus = true;
      text.push_back(is.Take());
    }
    bool isdouble = false;
    if (is.Peek() == '0') {
      text.push_back(is.Take());
    }
    else if (is.Peek() >= '1'  &&  is.Peek() <= '9') {
      while (is.Peek() >= '0'  &&  is.Peek() <= '9') {
        text.push_back(is.Take());
      }
    }
    else if ((parseFlags & kParseNanAndInfFlag)  &&
             (is.Peek() == 'N'  ||  is.Peek() == 'I')) {
      double d = 0;
      if (is.Peek() == 'N') {
        is.Take();
        if (Consume(is, 'a')  &&  Consume(is, 'N')) {
          d = std::nan("");
        }
        else {
          SetError(kParseErrorValueInvalid, start);
          return;
        }
      }
      else {
        is.Take();
        if (Consume(is, 'n')  &&  Consume(is, 'f')) {
          d = minus ? -HUGE_VAL : HUGE_VAL;
          if (is.Peek() == 'i') {
            if (!(Consume(is, 'i')  &&  Consume(is, 'n')  &&  Consume(is, 'i')  &&
                  Consume(is, 't')  &&  Consume(is, 'y'))) {
              SetError(kParseErrorValueInvalid, start);
              return;
            }
          }
        }
        else {
          SetError(kParseErrorValueInvalid, start);
          return;
        }
      }
      if (!handler.Double(d)) {
        SetError(kParseErrorTermination, start);
      }
      return;
    }
    else {
      SetError(kParseErrorValueInvalid, start);
      return;
    }
    if (is.Peek() == '.') {
      isdouble = true;
      text.push_back(is.Take());
      if (!(is.Peek() >= '0'  &&  is.Peek() <= '9')) {
        SetError(kParseErrorNumberMissFraction, is.Tell());
        return;
      }
      while (is.Peek() >= '0'  &&  is.Peek() <= '9') {
        text.push_back(is.Take());
      }
    }
    if (is.Peek() == 'e'  ||  is.Peek() == 'E') {
      isdouble = true;
      text.push_back(is.Take());
      if (is.Peek() == '+'  ||  is.Peek() == '-') {
        text.push_back(is.Take());
      }
      if (!(is.Peek() >= '0'  &&  is.Peek() <= '9')) {
        SetError(kParseErrorNumberMissExponent, is.Tell());
        return;
      }
      while (is.Peek() >= '0'  &&  is.Peek() <= '9') {
        text.push_back(is.Take());
      }
    }
    bool ok = true;
    if (!isdouble) {
      // integer: does it fit in 64 bits?
      const char* digits = text.c_str() + (minus ? 1 : 0);
      size_t ndigits = std::strlen(digits);
      bool fits = true;
      uint64_t u = 0;
      if (ndigits > 20) {
        fits = false;
      }
      else {
        for (size_t i = 0;  i < ndigits;  i++) {
          unsigned d = static_cast<unsigned>(digits[i] - '0');
          if (u > (UINT64_MAX - d) / 10) {
            fits = false;
            break;
          }
          u = u * 10 + d;
        }
      }
      if (fits  &&  minus  &&  u > static_cast<uint64_t>(INT64_MAX) + 1) {
        fits = false;
      }
      if (fits) {
        if (minus) {
          int64_t i64 = static_cast<int64_t>(~u + 1);
          if (u <= static_cast<uint64_t>(INT32_MAX) + 1) {
            ok = handler.Int(static_cast<int>(i64));
          }
          else {
            ok = handler.Int64(i64);
          }
        }
        else {
          if (u <= UINT32_MAX) {
            ok = handler.Uint(static_cast<unsigned>(u));
          }
          else {
            ok = handler.Uint64(u);
          }
        }
        if (!ok) {
          SetError(kParseErrorTermination, start);
        }
        return;
      }
    }
    double d = std::strtod(text.c_str(), nullptr);
    if (std::isinf(d)) {
      SetError(kParseErrorNumberTooBig, start);
      return;
    }
    if (!handler.Double(d)) {
      SetError(kParseErrorTermination, start);
    }
  }

  ParseResult result_;
};

typedef GenericReader<UTF8<>, UTF8<> > Reader;

}  // namespace rapidjson

#endif  // VERIF_RAPIDJSON_SHIM_H_
