#include "rapidjson.h"
