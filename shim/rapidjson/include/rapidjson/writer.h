#ifndef VERIF_RAPIDJSON_SHIM_WRITER_H_
#define VERIF_RAPIDJSON_SHIM_WRITER_H_
#include "rapidjson.h"

namespace rapidjson {

namespace shim_detail {
  // shortest decimal text that round-trips to the same double
  inline std::string format_double(double d, int maxDecimalPlaces) {
    char buf[64];
    if (d == 0) {
      return std::signbit(d) ? "-0.0" : "0.0";
    }
    int prec = 1;
    for (;  prec <= 17;  prec++) {
      std::snprintf(buf, sizeof(buf), "%.*e", prec - 1, d);
      if (std::strtod(buf, nullptr) == d) {
        break;
      }
    }
    // buf = [-]D.DDDDe[+-]XX
    std::string s(buf);
    bool neg = (s[0] == '-');
    if (neg) s = s.substr(1);
    size_t epos = s.find('e');
    std::string mant = s.substr(0, epos);
    int exp10 = std::atoi(s.c_str() + epos + 1);
    std::string digits;
    for (char c : mant) {
      if (c != '.') digits.push_back(c);
    }
    while (digits.size() > 1  &&  digits.back() == '0') digits.pop_back();
    int k = exp10 + 1;   // position of the decimal point relative to digits
    int n = static_cast<int>(digits.size());
    std::string out;
    if (0 <= exp10  &&  k <= 21) {
      if (n <= k) {
        out = digits + std::string(static_cast<size_t>(k - n), '0') + ".0";
      }
      else {
        out = digits.substr(0, static_cast<size_t>(k)) + "." + digits.substr(static_cast<size_t>(k));
        if (maxDecimalPlaces >= 0  &&  n - k > maxDecimalPlaces) {
          out = out.substr(0, static_cast<size_t>(k + 1 + maxDecimalPlaces));
          while (out.back() == '0'  &&  out[out.size() - 2] != '.') out.pop_back();
          if (out.back() == '.') out.push_back('0');
        }
      }
    }
    else if (-6 < k  &&  k <= 0) {
      out = "0." + std::string(static_cast<size_t>(-k), '0') + digits;
      if (maxDecimalPlaces >= 0  &&  n - k > maxDecimalPlaces) {
        out = out.substr(0, static_cast<size_t>(2 + maxDecimalPlaces));
        while (out.size() > 3  &&  out.back() == '0') out.pop_back();
        if (out == "0."  ||  out == "0") out = "0.0";
      }
    }
    else if (k < -maxDecimalPlaces  &&  maxDecimalPlaces >= 0) {
      out = "0.0";
    }
    else {
      out = digits.substr(0, 1);
      if (n > 1) {
        out += "." + digits.substr(1);
      }
      out += "e" + std::to_string(exp10);
    }
    return (neg ? "-" : "") + out;
  }
}

template <typename OutputStream>
class Writer {
public:
  typedef char Ch;
  explicit Writer(OutputStream& os) : os_(&os), maxDecimalPlaces_(-1) {}
  virtual ~Writer() {}

  void SetMaxDecimalPlaces(int maxDecimalPlaces) { maxDecimalPlaces_ = maxDecimalPlaces; }

  bool Null() { Prefix(); PutS("null"); return EndValue(true); }
  bool Bool(bool b) { Prefix(); PutS(b ? "true" : "false"); return EndValue(true); }
  bool Int(int i) { return Int64(i); }
  bool Uint(unsigned u) { return Uint64(u); }
  bool Int64(int64_t i) { Prefix(); PutS(std::to_string(i).c_str()); return EndValue(true); }
  bool Uint64(uint64_t u) { Prefix(); PutS(std::to_string(u).c_str()); return EndValue(true); }
  bool Double(double d) {
    Prefix();
    if (std::isnan(d)  ||  std::isinf(d)) {
      // like RapidJSON without kWriteNanAndInfFlag: nothing is written
      return EndValue(false);
    }
    PutS(shim_detail::format_double(d, maxDecimalPlaces_).c_str());
    return EndValue(true);
  }
  bool RawNumber(const Ch* str, SizeType length, bool = false) { return String(str, length); }
  bool String(const Ch* str, SizeType length, bool = false) {
    Prefix();
    WriteString(str, length);
    return EndValue(true);
  }
  bool String(const Ch* str) { return String(str, static_cast<SizeType>(std::strlen(str))); }
  bool String(const std::string& str) { return String(str.c_str(), static_cast<SizeType>(str.size())); }
  bool Key(const Ch* str, SizeType length, bool = false) { return String(str, length); }
  bool Key(const Ch* str) { return Key(str, static_cast<SizeType>(std::strlen(str))); }
  bool Key(const std::string& str) { return Key(str.c_str(), static_cast<SizeType>(str.size())); }

  bool StartObject() { Prefix(); levels_.push_back(Level(false)); os_->Put('{'); return true; }
  bool EndObject(SizeType = 0) {
    bool nonempty = levels_.back().count != 0;
    levels_.pop_back();
    CloseHook(nonempty);
    os_->Put('}');
    return EndValue(true);
  }
  bool StartArray() { Prefix(); levels_.push_back(Level(true)); os_->Put('['); return true; }
  bool EndArray(SizeType = 0) {
    bool nonempty = levels_.back().count != 0;
    levels_.pop_back();
    CloseHook(nonempty);
    os_->Put(']');
    return EndValue(true);
  }
  void Flush() { os_->Flush(); }

protected:
  struct Level {
    Level(bool a) : inArray(a), count(0) {}
    bool inArray;
    size_t count;
  };

  virtual void PrefixHook(bool /*first*/, bool /*isValueAfterKey*/) {}
  virtual void CloseHook(bool /*nonempty*/) {}

  void Prefix() {
    if (!levels_.empty()) {
      Level& level = levels_.back();
      if (level.count > 0) {
        if (level.inArray) {
          os_->Put(',');
        }
        else {
          os_->Put((level.count % 2 == 0) ? ',' : ':');
        }
      }
      PrefixHook(level.count == 0, !level.inArray  &&  (level.count % 2 == 1));
      level.count++;
    }
  }

  bool EndValue(bool ret) {
    if (levels_.empty()) {
      os_->Flush();
    }
    return ret;
  }

  void PutS(const char* s) {
    for (;  *s;  ++s) os_->Put(*s);
  }

  void WriteString(const Ch* str, SizeType length) {
    static const char hex[] = "0123456789ABCDEF";
    os_->Put('"');
    for (SizeType i = 0;  i < length;  i++) {
      unsigned char c = static_cast<unsigned char>(str[i]);
      switch (c) {
        case '"': os_->Put('\\'); os_->Put('"'); break;
        case '\\': os_->Put('\\'); os_->Put('\\'); break;
        case '\b': os_->Put('\\'); os_->Put('b'); break;
        case '\f': os_->Put('\\'); os_->Put('f'); break;
        case '\n': os_->Put('\\'); os_->Put('n'); break;
        case '\r': os_->Put('\\'); os_->Put('r'); break;
        case '\t': os_->Put('\\'); os_->Put('t'); break;
        default:
          if (c < 0x20) {
            os_->Put('\\'); os_->Put('u'); os_->Put('0'); os_->Put('0');
            os_->Put(hex[c >> 4]); os_->Put(hex[c & 0xF]);
          }
          else {
            os_->Put(static_cast<char>(c));
          }
      }
    }
    os_->Put('"');
  }

  OutputStream* os_;
  int maxDecimalPlaces_;
  std::vector<Level> levels_;
};

}  // namespace rapidjson
#endif
