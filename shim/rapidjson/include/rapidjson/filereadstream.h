#include "rapidjson.h"
