#include "rapidjson.h"
