#ifndef VERIF_RAPIDJSON_SHIM_PRETTYWRITER_H_
#define VERIF_RAPIDJSON_SHIM_PRETTYWRITER_H_
#include "writer.h"

namespace rapidjson {

template <typename OutputStream>
class PrettyWriter : public Writer<OutputStream> {
public:
  explicit PrettyWriter(OutputStream& os) : Writer<OutputStream>(os) {}
protected:
  void Indent(size_t depth) {
    this->os_->Put('\n');
    for (size_t i = 0;  i < 4 * depth;  i++) this->os_->Put(' ');
  }
  void PrefixHook(bool, bool isValueAfterKey) override {
    if (isValueAfterKey) {
      this->os_->Put(' ');
    }
    else {
      Indent(this->levels_.size());
    }
  }
  void CloseHook(bool nonempty) override {
    if (nonempty) {
      Indent(this->levels_.size());
    }
  }
};

}  // namespace rapidjson
#endif
