#!/usr/bin/env python3
"""Fidelity calibration of lane P: run the repository's own 1.4.0 tests (written against the real pybind11
binding) on top of akext, and triage every failure.

    VERIF_REPO=/repo python3 /verif/selftest/upstream.py [--variant plain] [--jobs 8] [-k substring ...]
                                                         [--out /verif/selftest/upstream_report.json]

Each test file runs in its own pytest process (isolation, timeout).  The tests are copied to a scratch
directory first so that nothing is written under the repository.  Triage labels:
    standin   akext infidelity (to be fixed)
    env       environment drift (NumPy 2, pyarrow 25, numba 0.67, pandas 3, missing packages, ...): names the API
    repo?     looks like a genuine defect of the 1.4.0 sources; a reproducer is kept
Labels come from TRIAGE (hand-written, most specific first) and a few generic patterns; anything unmatched
is reported as `standin` (the conservative default: it has to be looked at).
"""
from __future__ import print_function

import argparse
import json
import os
import re
import shutil
import subprocess
import sys
import tempfile
import time
import xml.etree.ElementTree as ET
from concurrent.futures import ThreadPoolExecutor

HERE = os.path.dirname(os.path.abspath(__file__))
ROOT = os.path.dirname(HERE)
sys.path.insert(0, ROOT)
import vbuild  # noqa: E402

PY = "/venv/bin/python"

# (regex on "file::test", regex on failure text, label, note)
TRIAGE = [
    (r"test_0020-.*::test_index$", r"OverflowError: Python integer -1 out of bounds for uint8", "env",
     "NumPy 2: np.array([-1], dtype='u1') raises OverflowError (out-of-bound Python ints are no longer wrapped); "
     "the failure is in the test's own NumPy call"),
    (r"test_0119-.*::test_numexpr$", r"getContext\(\) got an unexpected keyword argument 'frame_depth'", "env",
     "numexpr 2.14: necompiler.getContext() lost the frame_depth keyword used by awkward/_connect/_numexpr.py"),
    (r"test_0135-.*::test_fromawkward0$", r"Unable to avoid copy while creating an array", "env",
     "awkward0 0.15.5 calls numpy.array(copy=False), which NumPy 2 turned into an error when a copy is needed"),
    (r"test_0173-.*::test_ufunc_afterward$", r"2\.100000023841858 != 2\.0999999046325684", "env",
     "NumPy 2 (NEP 50): the scalar operand reaches the ufunc as a 0-d int64 array, which no longer takes part in "
     "value-based casting, so float32 + 1 is computed in float64"),
    (r"test_0449-.*::test_numpyarray$", r"dtype\('float64'\) == dtype\('float32'\)", "env",
     "NumPy 2: np.concatenate/result_type of (int8, uint16, float32, bool) is float32 (NumPy 1: pairwise promotion "
     "gave float64, which is also what libawkward's mergemany produces)"),
    (r"test_0593-.*::test_to_parquet_2$", r"declared non-nullable but contains nulls", "repo?",
     "ak.to_arrow of option[record] emits struct children flagged 'not null' that carry a validity bitmap with nulls "
     "under the null parents; pyarrow >= 15 refuses to write such a column to Parquet.  Reproducer: "
     "ak.to_parquet(ak.Array([[{'x': 0.0, 'y': []}, {'x': 2.2, 'y': None}], [], [{'x': 3.3, 'y': [1]}, None]]), path)"),
    (r"test_0688-|test_0871-", r"'UnmaskedArray' object has no attribute 'field'", "env",
     "pyarrow 25: ParquetFile.read_row_group(columns=['x.list.item.y']) returns the partially read struct as "
     "nullable although the file schema says 'not null', so from_arrow wraps the RecordArray in an UnmaskedArray "
     "that _LazyDatasetGenerator does not expect"),
    (r"test_0793-.*::test_numpyarray_grad_3$", r"iteration over a 0-d array", "env",
     "jax 0.11: jax.jvp returns a 0-d jax Array here and ak.to_list iterates it"),
    (r"test_0793-.*::test_recordarray_[456]$", r"At index 0 diff", "env",
     "per-file isolation: the expected float64 values need jax_enable_x64, which upstream gets from "
     "test_0645-*.py having run earlier in the same pytest process (run together they pass)"),
    (r"test_0813-.*::test$", r"\[0, 0, 0\] != \[True, True, True\]", "env",
     "NumPy 2: casting the string '0' to bool is True (non-empty), NumPy 1 parsed it as the integer 0 -> False "
     "(ak.zeros_like(strings, dtype=bool) goes through strings_astype)"),
    (r"test_0868-.*::test$", r"module 'vector' has no attribute '_backends'", "env",
     "vector 1.8 renamed vector._backends to vector.backends"),
]

# generic patterns on the failure text
GENERIC = [
    (r"No module named '(uproot|uproot3|uproot4|cupy|awkward0\.|ROOT)'", "env", "package not installed: \\1"),
    (r"module 'numpy' has no attribute '(\w+)'", "env", "NumPy 2 removed numpy.\\1"),
    (r"module 'pyarrow' has no attribute '(\w+)'", "env", "pyarrow 25 removed pyarrow.\\1"),
]


def triage(testid, text):
    for idre, textre, label, note in TRIAGE:
        if re.search(idre, testid) and (textre is None or re.search(textre, text, re.S)):
            return label, note
    for textre, label, note in GENERIC:
        m = re.search(textre, text, re.S)
        if m:
            return label, m.expand(note)
    return "standin", "untriaged"


def run_file(path, scratch, variant, timeout, env):
    name = os.path.basename(path)
    xml = os.path.join(scratch, "xml", name + ".xml")
    log = os.path.join(scratch, "log", name + ".log")
    cmd = [PY, "-m", "pytest", "-p", "selftest.lanep_plugin", "-p", "no:cacheprovider", "-q", "-x" if False else "-q",
           "--tb=short", "-o", "junit_family=xunit2", "--junitxml", xml, os.path.join("tests", name)]
    t0 = time.time()
    with open(log, "wb") as f:
        try:
            p = subprocess.run(cmd, cwd=scratch, env=env, stdout=f, stderr=subprocess.STDOUT, timeout=timeout)
            rc = p.returncode
        except subprocess.TimeoutExpired:
            rc = "timeout"
    out = {"file": name, "rc": rc, "seconds": round(time.time() - t0, 1), "passed": 0, "failed": 0, "error": 0,
           "skipped": 0, "failures": []}
    if os.path.exists(xml):
        try:
            root = ET.parse(xml).getroot()
        except ET.ParseError:
            root = None
        if root is not None:
            for case in root.iter("testcase"):
                tid = "%s::%s" % (name, case.get("name"))
                kind = None
                text = ""
                for child in case:
                    if child.tag in ("failure", "error"):
                        kind = child.tag
                        text = (child.get("message") or "") + "\n" + (child.text or "")
                    elif child.tag == "skipped":
                        kind = "skipped"
                        text = child.get("message") or ""
                if kind is None:
                    out["passed"] += 1
                elif kind == "skipped":
                    out["skipped"] += 1
                else:
                    out["failed" if kind == "failure" else "error"] += 1
                    label, note = triage(tid, text)
                    out["failures"].append({"test": tid, "kind": kind, "label": label, "note": note,
                                            "message": text.strip()[-1500:]})
    if out["passed"] + out["failed"] + out["error"] + out["skipped"] == 0:
        # nothing was collected: import error of the module, crash or timeout
        try:
            tail = open(log, "rb").read().decode("utf-8", "replace")[-3000:]
        except Exception:
            tail = ""
        label, note = triage(name + "::<module>", tail)
        out["error"] = 1
        out["failures"].append({"test": name + "::<module>", "kind": "collection" if rc != "timeout" else "timeout",
                                "label": label, "note": note, "message": tail[-1500:]})
    elif rc not in (0, 1):
        try:
            tail = open(log, "rb").read().decode("utf-8", "replace")[-3000:]
        except Exception:
            tail = ""
        label, note = triage(name + "::<process>", tail)
        out["error"] += 1
        out["failures"].append({"test": name + "::<process>", "kind": "crash rc=%s" % rc, "label": label,
                                "note": note, "message": tail[-1500:]})
    return out


def main():
    ap = argparse.ArgumentParser()
    ap.add_argument("--variant", default="plain")
    ap.add_argument("--jobs", type=int, default=8)
    ap.add_argument("--timeout", type=int, default=600)
    ap.add_argument("-k", action="append", default=[], help="only files whose name contains this substring")
    ap.add_argument("--out", default=os.path.join(HERE, "upstream_report.json"))
    ap.add_argument("--keep", action="store_true", help="keep the scratch directory")
    ap.add_argument("--merge", action="store_true", help="with -k: replace the entries of the selected files in the "
                    "existing report instead of writing <out>.partial")
    args = ap.parse_args()

    repo = vbuild.repo_dir()
    scratch = tempfile.mkdtemp(prefix="lanep_upstream_")
    try:
        shutil.copytree(os.path.join(repo, "tests"), os.path.join(scratch, "tests"))
        os.makedirs(os.path.join(scratch, "xml"))
        os.makedirs(os.path.join(scratch, "log"))
        files = sorted(f for f in os.listdir(os.path.join(scratch, "tests")) if f.startswith("test_") and f.endswith(".py"))
        if args.k:
            files = [f for f in files if any(k in f for k in args.k)]
        if args.variant == "asan":
            env = vbuild.asan_env()
        else:
            env = dict(os.environ)
        env["PYTHONPATH"] = ROOT + os.pathsep + env.get("PYTHONPATH", "")
        env["LANEP_VARIANT"] = args.variant
        env["PYTHONDONTWRITEBYTECODE"] = "1"
        env.setdefault("NUMBA_CACHE_DIR", os.path.join(scratch, "numba_cache"))
        # a private copy of the build: vbuild prunes old output directories while other jobs build
        src_build = env.get("LANEP_BUILDDIR") or vbuild.ensure(args.variant)
        for attempt in range(4):
            try:
                shutil.copytree(src_build, os.path.join(scratch, "build"), symlinks=False)
                break
            except (OSError, shutil.Error):
                shutil.rmtree(os.path.join(scratch, "build"), ignore_errors=True)
                if env.get("LANEP_BUILDDIR") or attempt == 3:
                    raise
                src_build = vbuild.ensure(args.variant)
        env["LANEP_BUILDDIR"] = os.path.join(scratch, "build")
        with ThreadPoolExecutor(max_workers=args.jobs) as ex:
            results = list(ex.map(lambda f: run_file(f, scratch, args.variant, args.timeout, env), files))
    finally:
        if not args.keep:
            shutil.rmtree(scratch, ignore_errors=True)
        else:
            print("scratch kept:", scratch)

    if args.k and args.merge and os.path.exists(args.out):
        old = json.load(open(args.out))
        new = dict((r["file"], r) for r in results)
        results_all = [new.pop(r["file"], r) for r in old["files"]] + list(new.values())
        results_all.sort(key=lambda r: r["file"])
    else:
        results_all = results
    shown = results
    results = results_all
    totals = {"passed": 0, "failed": 0, "error": 0, "skipped": 0}
    labels = {}
    for r in results:
        for k in totals:
            totals[k] += r[k]
        for f in r["failures"]:
            labels[f["label"]] = labels.get(f["label"], 0) + 1
    report = {"repo": repo, "variant": args.variant, "python": PY, "totals": totals, "labels": labels,
              "files": results}
    if not args.k or args.merge:
        with open(args.out, "w") as f:
            json.dump(report, f, indent=1, sort_keys=True)
    else:
        with open(args.out + ".partial", "w") as f:
            json.dump(report, f, indent=1, sort_keys=True)
    for r in shown:
        flag = "" if not r["failures"] else "  <-- " + ", ".join(sorted(set(x["label"] for x in r["failures"])))
        print("%-75s p=%-3d f=%-3d e=%-3d s=%-3d %5.1fs%s" % (r["file"], r["passed"], r["failed"], r["error"],
                                                            r["skipped"], r["seconds"], flag))
    print("totals:", totals, "labels:", labels)


if __name__ == "__main__":
    main()
