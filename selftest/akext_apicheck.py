#!/usr/bin/env python3
"""API-surface check of akext against the binding sources.

Parses src/python/*.cpp of $VERIF_REPO for every name registered with .def/.def_property*/.def_static/
.def_buffer/py::pickle and for the py::arg(...) names and defaults, and compares them with the attributes
and the signatures of the classes served as awkward._ext.  Exit status 0 = nothing missing, no difference.

    VERIF_REPO=/repo /venv/bin/python /verif/selftest/akext_apicheck.py
"""
import re, sys, os
HERE = os.path.dirname(os.path.abspath(__file__))
sys.path.insert(0, os.path.dirname(HERE))
from vlib import lanep
import vbuild
ak = lanep.load("plain")
ext = ak._ext
repo = vbuild.repo_dir()
src = {}
for f in ["content.cpp", "index.cpp", "identities.cpp", "types.cpp", "forms.cpp", "virtual.cpp", "partition.cpp", "forth.cpp", "io.cpp"]:
    src[f] = open(os.path.join(repo, "src/python", f)).read()

def names_in(text):
    out = set()
    for m in re.finditer(r'\.def(?:_property_readonly|_property|_static|_buffer)?\(\s*"([^"]+)"', text):
        out.add(m.group(1))
    if "py::pickle" in text:
        out.update(["__getstate__", "__setstate__"])
    if ".def_buffer" in text:
        out.add("__buffer__")
    return out

def func_body(text, name):
    i = text.index(name + "(")
    # find the function definition (with a body)
    for m in re.finditer(re.escape(name) + r"\(const py::handle& m, const std::string& name\) \{", text):
        start = m.end()
        depth = 1
        j = start
        while depth:
            c = text[j]
            if c == "{": depth += 1
            elif c == "}": depth -= 1
            j += 1
        return text[start:j]
    raise KeyError(name)

content = src["content.cpp"]
cm = names_in(content[content.index("content_methods(py::class_<T"):content.index("////////// EmptyArray")])
tm = names_in(src["types.cpp"][src["types.cpp"].index("type_methods("):src["types.cpp"].index("////////// ArrayType")])
fm = names_in(src["forms.cpp"][src["forms.cpp"].index("form_methods("):src["forms.cpp"].index("make_BitMaskedForm")])
pm = names_in(src["partition.cpp"][src["partition.cpp"].index("partitionedarray_methods("):src["partition.cpp"].index("////////// PartitionedArray")])

checks = []
def chk(pyname, names):
    cls = getattr(ext, pyname)
    missing = sorted(n for n in names if not hasattr(cls, n))
    checks.append((pyname, len(names), missing))

for mk, pynames, base in [
    ("make_EmptyArray", ["EmptyArray"], cm),
    ("make_IndexedArrayOf", ["IndexedArray32", "IndexedArrayU32", "IndexedArray64", "IndexedOptionArray32", "IndexedOptionArray64"], cm),
    ("make_ByteMaskedArray", ["ByteMaskedArray"], cm), ("make_BitMaskedArray", ["BitMaskedArray"], cm),
    ("make_UnmaskedArray", ["UnmaskedArray"], cm),
    ("make_ListArrayOf", ["ListArray32", "ListArrayU32", "ListArray64"], cm),
    ("make_ListOffsetArrayOf", ["ListOffsetArray32", "ListOffsetArrayU32", "ListOffsetArray64"], cm),
    ("make_NumpyArray", ["NumpyArray"], cm), ("make_Record", ["Record"], set()), ("make_RecordArray", ["RecordArray"], cm),
    ("make_RegularArray", ["RegularArray"], cm),
    ("make_UnionArrayOf", ["UnionArray8_32", "UnionArray8_U32", "UnionArray8_64"], cm),
    ("make_VirtualArray", ["VirtualArray"], cm), ("make_ArrayBuilder", ["ArrayBuilder"], set()),
    ("make_LayoutBuilder", ["LayoutBuilder"], set()), ("make_Iterator", ["Iterator"], set()),
    ("make_PersistentSharedPtr", ["_PersistentSharedPtr"], set()), ("make_Content", ["Content"], set())]:
    body = func_body(content, mk)
    for p in pynames:
        chk(p, names_in(body) | base)
for f, mk, pynames, base in [
    ("index.cpp", "make_IndexOf", ["Index8", "IndexU8", "Index32", "IndexU32", "Index64"], set()),
    ("identities.cpp", "make_IdentitiesOf", ["Identities32", "Identities64"], set()),
    ("types.cpp", "make_Type", ["Type"], set())] + [("types.cpp", "make_" + n, [n], tm) for n in
        ["ArrayType", "ListType", "OptionType", "PrimitiveType", "RecordType", "RegularType", "UnionType", "UnknownType"]] + [
    ("forms.cpp", "make_Form", ["Form"], set())] + [("forms.cpp", "make_" + n, [n], fm) for n in
        ["BitMaskedForm", "ByteMaskedForm", "EmptyForm", "IndexedForm", "IndexedOptionForm", "ListForm", "ListOffsetForm",
         "NumpyForm", "RecordForm", "RegularForm", "UnionForm", "UnmaskedForm", "VirtualForm"]] + [
    ("virtual.cpp", "make_PyArrayGenerator", ["ArrayGenerator"], set()), ("virtual.cpp", "make_SliceGenerator", ["SliceGenerator"], set()),
    ("virtual.cpp", "make_PyArrayCache", ["ArrayCache"], set()),
    ("partition.cpp", "make_IrregularlyPartitionedArray", ["IrregularlyPartitionedArray"], pm),
    ("forth.cpp", "make_ForthMachineOf", ["ForthMachine32", "ForthMachine64"], set())]:
    body = func_body(src[f], mk)
    for p in pynames:
        chk(p, names_in(body) | base)
total = 0
for pyname, n, missing in checks:
    total += n
    print("%-28s %3d names %s" % (pyname, n, ("MISSING " + str(missing)) if missing else "ok"))
print("classes:", len(checks), "class attributes checked:", total)
mod = re.findall(r'make_\w+(?:<[^>]*>)?\(m(?:,\s*"(\w+)")?\)', open(os.path.join(repo, "src/python/_ext.cpp")).read())
names = [x for x in mod if x] + ["uproot_issue_90", "_slice_tostring", "__version__"]
missing_module_names = [n for n in names if not hasattr(ext, n)]
print("module names missing:", missing_module_names, "of", len(names))

# ---- keyword names and defaults
import inspect
DEFAULTS = {"py::none()": None, "nullptr": None, "true": True, "false": False, "py::tuple(0)": (), "py::dict()": {}}
def parse_args(chunk):
    out = []
    for m in re.finditer(r'py::arg\("(\w+)"\)(\s*=\s*(py::\w+\(\d*\)|[^,\)]+))?', chunk):
        name, has, d = m.group(1), m.group(2), m.group(3)
        if has:
            d = d.strip()
            if d in DEFAULTS: val = DEFAULTS[d]
            else:
                try: val = eval(d)
                except Exception: val = d
            out.append((name, True, val))
        else:
            out.append((name, False, None))
    return out

def defs_in(body):
    pos = [m.start() for m in re.finditer(r'\.def(?:_static)?\(', body)] + [len(body)]
    for a, b in zip(pos[:-1], pos[1:]):
        chunk = body[a:b]
        m = re.match(r'\.def(?:_static)?\(\s*"([^"]+)"', chunk)
        if m: name = m.group(1)
        elif re.match(r'\.def\(py::init', chunk): name = "__init__"
        else: continue
        yield name, parse_args(chunk)

problems = 0
def check_sig(pyname, body, skip=()):
    global problems
    cls = getattr(ext, pyname)
    seen = {}
    for name, args in defs_in(body):
        seen.setdefault(name, []).append(args)
    for name, variants in seen.items():
        if len(variants) > 1 or name in skip or not variants[0]:
            continue
        args = variants[0]
        f = getattr(cls, name, None)
        if isinstance(f, (staticmethod, classmethod)): f = f.__func__
        try:
            sig = inspect.signature(f)
        except (TypeError, ValueError):
            print("   ?", pyname, name, "no signature"); continue
        params = [p for p in sig.parameters.values() if p.name != "self"]
        if any(p.kind in (p.VAR_POSITIONAL, p.VAR_KEYWORD) for p in params):
            print("   (varargs)", pyname, name, [a[0] for a in args]); continue
        got = [(p.name, p.default is not p.empty, None if p.default is p.empty else p.default) for p in params]
        if got != args:
            problems += 1
            print("   DIFF", pyname, name, "\n      cpp:", args, "\n      py: ", got)

for mk, pynames in [("make_EmptyArray", ["EmptyArray"]), ("make_IndexedArrayOf", ["IndexedArray64", "IndexedOptionArray64"]),
    ("make_ByteMaskedArray", ["ByteMaskedArray"]), ("make_BitMaskedArray", ["BitMaskedArray"]), ("make_UnmaskedArray", ["UnmaskedArray"]),
    ("make_ListArrayOf", ["ListArray64"]), ("make_ListOffsetArrayOf", ["ListOffsetArray64"]), ("make_NumpyArray", ["NumpyArray"]),
    ("make_Record", ["Record"]), ("make_RecordArray", ["RecordArray"]), ("make_RegularArray", ["RegularArray"]),
    ("make_UnionArrayOf", ["UnionArray8_64"]), ("make_VirtualArray", ["VirtualArray"]), ("make_ArrayBuilder", ["ArrayBuilder"]),
    ("make_LayoutBuilder", ["LayoutBuilder"])]:
    for p in pynames: check_sig(p, func_body(content, mk))
check_sig("ListOffsetArray64", content[content.index("content_methods(py::class_<T"):content.index("////////// EmptyArray")])
for n in ["ArrayType", "ListType", "OptionType", "PrimitiveType", "RecordType", "RegularType", "UnionType", "UnknownType"]:
    check_sig(n, func_body(src["types.cpp"], "make_" + n))
for n in ["BitMaskedForm", "ByteMaskedForm", "EmptyForm", "IndexedForm", "IndexedOptionForm", "ListForm", "ListOffsetForm",
          "NumpyForm", "RecordForm", "RegularForm", "UnionForm", "UnmaskedForm", "VirtualForm"]:
    check_sig(n, func_body(src["forms.cpp"], "make_" + n))
check_sig("BitMaskedForm", src["forms.cpp"][src["forms.cpp"].index("form_methods("):src["forms.cpp"].index("make_BitMaskedForm")])
check_sig("ArrayGenerator", func_body(src["virtual.cpp"], "make_PyArrayGenerator"))
check_sig("SliceGenerator", func_body(src["virtual.cpp"], "make_SliceGenerator"))
check_sig("ArrayCache", func_body(src["virtual.cpp"], "make_PyArrayCache"))
check_sig("IrregularlyPartitionedArray", func_body(src["partition.cpp"], "make_IrregularlyPartitionedArray"))
check_sig("ForthMachine64", func_body(src["forth.cpp"], "make_ForthMachineOf"))
print("signature differences:", problems)
missing_attrs = sum(len(m) for _, _, m in checks)
sys.exit(1 if (problems or missing_attrs or missing_module_names) else 0)
