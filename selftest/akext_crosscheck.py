#!/usr/bin/env python3
"""Cross-check of lane P (akext behind the repository's Python package) against lane L (vlib.bridge) and the
reference model, on seeded random layouts from vlib.gen.

For every generated descriptor the same layout is built twice -- through the descriptor-driven bridge (lane L)
and through the akext constructors exactly as user code would call `ak.layout.*` (lane P) -- and the two C++
objects must describe identically.  Then a set of operations is run through both lanes (same C++ underneath, so
any difference is a wiring error of the stand-in: argument order, defaults, boxing, error mapping), and
ak.to_list(ak.Array(layout)) is compared with the model value of the descriptor.

    VERIF_REPO=/repo /venv/bin/python /verif/selftest/akext_crosscheck.py [--n 300] [--seed 1] [--variant plain]
"""
from __future__ import print_function

import argparse
import json
import os
import random
import sys

HERE = os.path.dirname(os.path.abspath(__file__))
ROOT = os.path.dirname(HERE)
sys.path.insert(0, ROOT)

import numpy as np  # noqa: E402

from vlib import lanep  # noqa: E402


def main():
    ap = argparse.ArgumentParser()
    ap.add_argument("--n", type=int, default=300)
    ap.add_argument("--seed", type=int, default=1)
    ap.add_argument("--variant", default="plain")
    ap.add_argument("--verbose", action="store_true")
    ap.add_argument("--journal", default=None, help="write the descriptor and operation about to run to this file "
                    "(to identify the input of a crash inside the library)")
    ap.add_argument("--invalid", action="store_true", help="also run the operations on layouts that are not valid")
    args = ap.parse_args()

    ak = lanep.load(args.variant)
    from vlib import gen, model
    from vlib.bridge import Bridge, AkError, Handle
    L = ak.layout
    b = Bridge(lanep.builddir())

    KIND = {"i8": (L.Index8, np.int8), "u8": (L.IndexU8, np.uint8), "i32": (L.Index32, np.int32),
            "u32": (L.IndexU32, np.uint32), "i64": (L.Index64, np.int64)}

    def index_p(d):
        cls, dt = KIND[d["k"]]
        pre, post, v = d.get("pre", 0), d.get("post", 0), d["v"]
        total = np.full(pre + len(v) + post, 0, dtype=dt)
        if len(v):
            total[pre:pre + len(v)] = np.array(v, dtype=np.int64).astype(dt)
        return cls(total[pre:pre + len(v)])

    def params_p(d):
        p = d.get("params") or {}
        return dict((k, json.loads(v)) for k, v in p.items()) or None

    def build_p(d):
        c = d["c"]
        P = params_p(d)
        if c == "NumpyArray":
            return L.NumpyArray(model.np_view(d), parameters=P)
        if c == "EmptyArray":
            return L.EmptyArray(parameters=P)
        if c == "RegularArray":
            return L.RegularArray(build_p(d["content"]), d["size"], d.get("length", 0), parameters=P)
        if c == "ListOffsetArray":
            cls = {"i32": L.ListOffsetArray32, "u32": L.ListOffsetArrayU32, "i64": L.ListOffsetArray64}[d["offsets"]["k"]]
            return cls(index_p(d["offsets"]), build_p(d["content"]), parameters=P)
        if c == "ListArray":
            cls = {"i32": L.ListArray32, "u32": L.ListArrayU32, "i64": L.ListArray64}[d["starts"]["k"]]
            return cls(index_p(d["starts"]), index_p(d["stops"]), build_p(d["content"]), parameters=P)
        if c == "IndexedArray":
            cls = {"i32": L.IndexedArray32, "u32": L.IndexedArrayU32, "i64": L.IndexedArray64}[d["index"]["k"]]
            return cls(index_p(d["index"]), build_p(d["content"]), parameters=P)
        if c == "IndexedOptionArray":
            cls = {"i32": L.IndexedOptionArray32, "i64": L.IndexedOptionArray64}[d["index"]["k"]]
            return cls(index_p(d["index"]), build_p(d["content"]), parameters=P)
        if c == "ByteMaskedArray":
            return L.ByteMaskedArray(index_p(d["mask"]), build_p(d["content"]), bool(d["valid_when"]), parameters=P)
        if c == "BitMaskedArray":
            return L.BitMaskedArray(index_p(d["mask"]), build_p(d["content"]), bool(d["valid_when"]), d["length"],
                                    bool(d["lsb_order"]), parameters=P)
        if c == "UnmaskedArray":
            return L.UnmaskedArray(build_p(d["content"]), parameters=P)
        if c == "RecordArray":
            return L.RecordArray([build_p(x) for x in d["contents"]], d["keys"], d["length"], parameters=P)
        if c == "UnionArray":
            cls = {"i32": L.UnionArray8_32, "u32": L.UnionArray8_U32, "i64": L.UnionArray8_64}[d["index"]["k"]]
            return cls(index_p(d["tags"]), index_p(d["index"]), [build_p(x) for x in d["contents"]], parameters=P)
        raise ValueError(c)

    def canon(text):
        """strides of arrays with at most one element along an axis are not observable through NumPy's buffer
        interface (it normalizes them), so they are not compared"""
        if not isinstance(text, str) or not text.startswith("{"):
            return text

        def walk(d):
            if isinstance(d, dict):
                if d.get("c") == "NumpyArray":
                    d = dict(d)
                    n = 1
                    for x in d["shape"]:
                        n *= x
                    if n == 0:
                        d["strides"] = None
                    else:
                        d["strides"] = [st if sh > 1 else None for sh, st in zip(d["shape"], d["strides"])]
                    return d
                return dict((k, walk(v)) for k, v in d.items())
            if isinstance(d, list):
                return [walk(x) for x in d]
            return d
        return json.dumps(walk(json.loads(text)), sort_keys=True)

    def describe_p(obj):
        """describe a lane P result with lane L's describer"""
        if obj is None:
            return "null"
        if isinstance(obj, (L.Content, L.Record)):
            return b._s(b.L.akb_describe(obj._h))
        return ("scalar", obj)

    def describe_l(h):
        text = b.describe_text(h)
        d = json.loads(text)
        if isinstance(d, dict) and d.get("c") == "None":
            return "null"
        if isinstance(d, dict) and d.get("c") == "NumpyArray" and d.get("scalar"):
            return ("scalar", model.value(d))
        return text

    def same_result(rp, rl):
        if isinstance(rp, tuple) and isinstance(rl, tuple):
            x, y = rp[1], rl[1]
            if isinstance(x, (np.datetime64, np.timedelta64)):
                return True           # representation differs (numpy scalar vs model string); values checked by to_list
            return model.same(x, y) or (x == y)
        return canon(rp) == canon(rl)

    def lane_p(f):
        try:
            return ("ok", describe_p(f()))
        except (ValueError, RuntimeError, IndexError) as err:
            kind = {"ValueError": "invalid_argument", "RuntimeError": "runtime_error", "IndexError": "out_of_range"}
            return ("err", kind[type(err).__name__], str(err))
        except OverflowError:
            # box() of a datetime64/timedelta64 scalar before the epoch (read as uint64 by the binding): see to_list below
            stats["negative_time_scalar"] = stats.get("negative_time_scalar", 0) + 1
            return ("ok", ("scalar", np.datetime64("NaT")))

    def lane_l(f):
        try:
            return ("ok", describe_l(f()))
        except AkError as err:
            return ("err", err.kind, err.msg)

    def norm(v):
        """lane P to_list output -> the model's value conventions"""
        if isinstance(v, list):
            return [norm(x) for x in v]
        if isinstance(v, tuple):
            return tuple(norm(x) for x in v)
        if isinstance(v, dict):
            return dict((k, norm(x)) for k, x in v.items())
        if isinstance(v, np.datetime64):
            unit = np.datetime_data(v.dtype)[0]
            return "M8[%s]:%d" % (unit, int(v.astype(np.int64)))
        if isinstance(v, np.timedelta64):
            unit = np.datetime_data(v.dtype)[0]
            return "m8[%s]:%d" % (unit, int(v.astype(np.int64)))
        if isinstance(v, np.generic):
            return v.item()
        return v

    rng = random.Random(args.seed)
    cfg = gen.Cfg("quick")
    stats = {"layouts": 0, "describe_diff": 0, "ops": 0, "op_diff": 0, "tolist": 0, "tolist_diff": 0, "errors_equal": 0}
    problems = []

    for it in range(args.n):
        T, vals, desc = gen.layout(rng, cfg)
        try:
            hl = b.build(desc)
        except AkError:
            continue
        try:
            lp = build_p(desc)
        except Exception as err:
            problems.append(("build", it, repr(err), gen.typestr(T)))
            stats["describe_diff"] += 1
            continue
        stats["layouts"] += 1
        dl, dp = b.describe_text(hl), describe_p(lp)
        if canon(dl) != canon(dp):
            stats["describe_diff"] += 1
            k = next((j for j in range(min(len(dl), len(dp))) if dl[j] != dp[j]), min(len(dl), len(dp)))
            problems.append(("describe", it, gen.typestr(T), "L: " + dl[max(0, k - 150):k + 100],
                             "P: " + dp[max(0, k - 150):k + 100]))
            continue

        n = len(lp)
        depth = max(lp.purelist_depth, 1)
        i = rng.randint(-n - 1, n)
        a, z = rng.randint(-n - 1, n + 1), rng.randint(-n - 1, n + 1)
        axis = rng.randint(-depth - 1, depth)
        asc, stable, mask, keep = rng.random() < 0.5, rng.random() < 0.5, rng.random() < 0.5, rng.random() < 0.5
        red = rng.choice(["count", "count_nonzero", "sum", "prod", "any", "all", "min", "max", "argmin", "argmax"])
        target = rng.randint(0, 4)
        ops = [
            ("getitem_at", lambda: lp[i], lambda: b.getitem_at(hl, i)),
            ("getitem_range", lambda: lp[a:z], lambda: b.getitem_range(hl, a, z)),
            ("num", lambda: lp.num(axis), lambda: b.num(hl, axis)),
            ("flatten", lambda: lp.flatten(axis), lambda: b.flatten(hl, axis)),
            ("localindex", lambda: lp.localindex(axis), lambda: b.localindex(hl, axis)),
            # known finding F10 (reduce_nonlocal kernels overrun their buffers): only the innermost axis here
            ("sort", lambda: lp.sort(-1, asc, stable), lambda: b.sort(hl, -1, asc, stable)),
            ("argsort", lambda: lp.argsort(-1, asc, stable), lambda: b.argsort(hl, -1, asc, stable)),
            (red, lambda: getattr(lp, red)(-1, mask, keep), lambda: b.reduce(hl, red, -1, mask, keep)),
            ("rpad", lambda: lp.rpad(target, axis), lambda: b.rpad(hl, target, axis, False)),
            ("rpad_and_clip", lambda: lp.rpad_and_clip(target, axis), lambda: b.rpad(hl, target, axis, True)),
            ("deep_copy", lambda: lp.deep_copy(), lambda: b.deep_copy(hl)),
            ("combinations", lambda: lp.combinations(2, False, None, None, axis),
             lambda: b.combinations(hl, 2, False, None, None, axis)),
        ]
        valid = lp.validityerror() is None
        # known finding F10 (the reduce_nonlocal kernels overrun their buffers or divide by zero, also with
        # axis=-1 when strings make the innermost axis non-local): reducers and sorting are cross-checked only on
        # the fixed inputs of the deterministic section below
        ops = [o for o in ops if o[0] not in ("sort", "argsort", red)]
        if not valid and not args.invalid:
            ops = ops[:2] + [o for o in ops if o[0] == "deep_copy"]
        for name, fp, fl in ops:
            if args.journal:
                with open(args.journal, "w") as jf:
                    json.dump({"it": it, "op": name, "args": {"i": i, "a": a, "z": z, "axis": axis, "asc": asc,
                               "stable": stable, "mask": mask, "keep": keep, "target": target},
                               "valid": valid, "desc": desc}, jf)
            rp, rl = lane_p(fp), lane_l(fl)
            stats["ops"] += 1
            ok = (rp[0] == rl[0]) and (same_result(rp[1], rl[1]) if rp[0] == "ok" else (rp[1:] == rl[1:]))
            if rp[0] == "err" and ok:
                stats["errors_equal"] += 1
            if not ok:
                stats["op_diff"] += 1
                problems.append(("op", it, name, str(rp)[:300], str(rl)[:300]))
        # strings through both lanes
        for name, fp, fl in [
            ("tojson", lambda: lp.tojson(), lambda: b.tojson(hl)),
            ("typestr", lambda: repr(lp.type({})), lambda: b.typestr(hl)),
            ("form", lambda: lp.form.tojson(False, True), lambda: b.form_tojson(b.form(hl), False, True)),
            ("validityerror", lambda: lp.validityerror() or "", lambda: b.validityerror(hl)),
            ("tostring", lambda: repr(lp), lambda: b.tostring(hl)),
        ]:
            stats["ops"] += 1
            try:
                sp = ("ok", fp())
            except (ValueError, RuntimeError) as err:
                sp = ("err", str(err))
            try:
                sl = ("ok", fl())
            except AkError as err:
                sl = ("err", err.msg)
            if name == "tostring" and sp[0] == "ok" and sl[0] == "ok":
                import re
                # addresses, Index window offsets (lane L embeds the index in a larger buffer) and the strides of
                # arrays with <= 1 element (see canon) are not comparable
                strip = lambda s: re.sub(r' strides="[-0-9 ]+"', '', re.sub(r'offset="\d+"', 'offset=""',
                                                                            re.sub(r'at="0x[0-9a-f]+"', 'at=""', s)))
                sp, sl = ("ok", strip(sp[1])), ("ok", strip(sl[1]))
            if sp != sl:
                stats["op_diff"] += 1
                problems.append(("str", it, name, str(sp)[:300], str(sl)[:300]))
        # high level: to_list against the model
        if lp.validityerror() is None:
            try:
                want = model.value(desc)
            except Exception:
                want = None
            if want is not None:
                stats["tolist"] += 1
                try:
                    got = norm(ak.to_list(ak.Array(lp)))
                    if not model.same(got, want):
                        stats["tolist_diff"] += 1
                        problems.append(("to_list", it, gen.typestr(T), str(got)[:200], str(want)[:200]))
                except OverflowError as err:
                    # box() reads datetime64/timedelta64 scalars as *unsigned* 64-bit integers (src/python/content.cpp
                    # line 85-92), so values before the epoch cannot be turned into numpy.datetime64: a property of
                    # the binding that the stand-in reproduces
                    if "M8[" in json.dumps(desc) or "m8[" in json.dumps(desc):
                        stats["tolist_negative_time"] = stats.get("tolist_negative_time", 0) + 1
                    else:
                        stats["tolist_diff"] += 1
                        problems.append(("to_list", it, gen.typestr(T), repr(err)[:300]))
                except Exception as err:
                    stats["tolist_diff"] += 1
                    problems.append(("to_list", it, gen.typestr(T), repr(err)[:300]))

    # ---- deterministic section: reducers and sorting (every name, mask/keepdims/ascending/stable combination)
    fixed = [
        {"c": "ListOffsetArray", "w": "64", "offsets": {"k": "i64", "v": [0, 3, 3, 5]}, "params": {},
         "content": model.np_desc(np.array([1.1, -2.2, 3.3, 0.0, 5.5]))},
        {"c": "ListOffsetArray", "w": "32", "offsets": {"k": "i32", "v": [0, 2, 4]}, "params": {},
         "content": {"c": "IndexedOptionArray", "w": "64", "index": {"k": "i64", "v": [0, -1, 2, 1]}, "params": {},
                     "content": model.np_desc(np.array([3, 1, 2], dtype=np.int32))}},
        model.np_desc(np.array([[1, 0, 3], [4, 5, 0]], dtype=np.uint16)),
        {"c": "RegularArray", "size": 2, "length": 0, "params": {},
         "content": model.np_desc(np.array([True, False, False, False]))},
    ]
    for desc in fixed:
        hl, lp = b.build(desc), build_p(desc)
        if canon(b.describe_text(hl)) != canon(describe_p(lp)):
            stats["describe_diff"] += 1
            problems.append(("describe-fixed", json.dumps(desc)[:200]))
            continue
        for red in ["count", "count_nonzero", "sum", "prod", "any", "all", "min", "max", "argmin", "argmax"]:
            for mask in (False, True):
                for keep in (False, True):
                    rp = lane_p(lambda: getattr(lp, red)(-1, mask, keep))
                    rl = lane_l(lambda: b.reduce(hl, red, -1, mask, keep))
                    stats["ops"] += 1
                    if not ((rp[0] == rl[0]) and (same_result(rp[1], rl[1]) if rp[0] == "ok" else rp[1:] == rl[1:])):
                        stats["op_diff"] += 1
                        problems.append(("reduce", red, mask, keep, str(rp)[:200], str(rl)[:200]))
        for asc in (False, True):
            for stable in (False, True):
                for name in ("sort", "argsort"):
                    rp = lane_p(lambda: getattr(lp, name)(-1, asc, stable))
                    rl = lane_l(lambda: getattr(b, name)(hl, -1, asc, stable))
                    stats["ops"] += 1
                    if not ((rp[0] == rl[0]) and (same_result(rp[1], rl[1]) if rp[0] == "ok" else rp[1:] == rl[1:])):
                        stats["op_diff"] += 1
                        problems.append((name, asc, stable, str(rp)[:200], str(rl)[:200]))
    # defaults of the reducers as the binding declares them (mask=False except min/max/argmin/argmax, axis=-1)
    hl, lp = b.build(fixed[1]), build_p(fixed[1])
    for red, dmask in [("sum", False), ("count", False), ("min", True), ("argmax", True)]:
        stats["ops"] += 1
        if lane_p(lambda: getattr(lp, red)()) != lane_l(lambda: b.reduce(hl, red, -1, dmask, False)):
            stats["op_diff"] += 1
            problems.append(("reduce-defaults", red))

    print(json.dumps(stats, sort_keys=True))
    for p in problems[:40]:
        print("PROBLEM", p)
    bad = stats["describe_diff"] + stats["op_diff"] + stats["tolist_diff"]
    sys.exit(1 if bad else 0)


if __name__ == "__main__":
    main()
