"""pytest plugin: perform lanep.load() before any test module does `import awkward`.

    PYTHONPATH=/verif python -m pytest -p selftest.lanep_plugin tests/...

LANEP_VARIANT selects the build variant (default "plain").
"""
import os
import sys

ROOT = os.path.dirname(os.path.dirname(os.path.abspath(__file__)))
if ROOT not in sys.path:
    sys.path.insert(0, ROOT)

from vlib import lanep  # noqa: E402

lanep.load(os.environ.get("LANEP_VARIANT", "plain"))
