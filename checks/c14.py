"""C14 - builders reproduce exactly the appended values; snapshots are immutable (lane L: ArrayBuilder).

Monitors
  history   : a random well-nested history (all value kinds, lists, tuples, named/unnamed records, append/extend of
              existing arrays) is fed to the C++ ArrayBuilder and, for the subset they cover, to a second builder through
              the extern "C" awkward_ArrayBuilder_* functions (the Numba entry points); value(snapshot) must equal the
              appended values after the documented unification (missing record fields -> None), both builders agree
  snapshot  : every snapshot's structural dump is re-read after each later command and at the end (immutability);
              two builders with the same history give equal snapshots; clear + replay equals a fresh builder
  ill-nested: a history with one malformed command (unbalanced end*, field outside a record, tuple index out of range
              or outside a tuple) must raise at that command
Buffer growth is forced with ArrayBuilderOptions(initial in {1,2,3,1024}, resize in {1.5, 2.0, 1.1}); ASan build.
"""
from __future__ import print_function

import ctypes
import os
import random
import sys

from vlib import gen, model, bridge_ext
from vlib.bridge import AkError

PROPERTY = "C14"
LEVEL = "exploration"
RULE = ("cases are command histories (<= 60 commands quick, <= 400 thorough) generated from a grammar over null, boolean, "
        "integer, real, complex, datetime, timedelta, string, bytestring, lists, tuples, named and unnamed records, "
        "append, extend, snapshot, clear, with 1 in 5 histories made ill-nested at one position; non-trivial = at "
        "least 3 top-level values (well-nested) / the malformed command was reached (ill-nested); distinct = SHA-1 of "
        "the case descriptor")
VARIANTS = {"quick": ["asan"], "thorough": ["asan"]}
BUDGET = {"quick": dict(cases=60000, seconds=55), "thorough": dict(cases=1000000, seconds=1200)}
MIN_NONTRIVIAL = {"quick": 2000, "thorough": 30000}
ASSUMPTIONS = ["the expected value is the list of appended Python values with, per position and record name, absent "
               "fields filled with None in order of first appearance (the documented unification); types are not "
               "compared against a model, only between equal histories",
               "builder_fromiter (pybind11) is replaced by vlib.bridge_ext.Builder.fromiter"]


class Obj(object):
    pass


def gen_obj(rng, depth, maxdepth):
    r = rng.random()
    if depth >= maxdepth:
        r *= 0.62
    if r < 0.08:
        return None
    if r < 0.14:
        return {"k": "bool", "v": rng.random() < 0.5}
    if r < 0.30:
        return {"k": "int", "v": rng.choice([0, 1, -1, 7, 2 ** 40, -(2 ** 62), rng.randint(-9, 9)])}
    if r < 0.42:
        return {"k": "real", "v": rng.choice([0.5, -2.25, 1e300, 3.0, float("inf"), 0.1])}
    if r < 0.45:
        return {"k": "complex", "v": [rng.choice([1.0, -0.5]), rng.choice([2.0, 0.0])]}
    if r < 0.48:
        return {"k": "datetime", "v": rng.randint(-5, 50)}
    if r < 0.50:
        return {"k": "timedelta", "v": rng.randint(-5, 50)}
    if r < 0.58:
        return {"k": "str", "v": "".join(rng.choice(["a", "b", "é", "中", "\"", "\\", " "]) for _ in range(rng.randint(0, 4)))}
    if r < 0.62:
        return {"k": "bytes", "v": bytes(bytearray(rng.choice([0, 65, 255, 128]) for _ in range(rng.randint(0, 3)))).hex()}
    if r < 0.80:
        return {"k": "list", "v": [gen_obj(rng, depth + 1, maxdepth) for _ in range(rng.choice([0, 1, 2, 3, 5]))]}
    if r < 0.88:
        n = rng.choice([1, 2, 2, 3])
        return {"k": "tuple", "v": [gen_obj(rng, depth + 1, maxdepth) for _ in range(n)]}
    name = rng.choice([None, None, "A", "B"])
    keys = rng.sample(["x", "y", "z", "a b"], rng.choice([0, 1, 2, 2, 3]))
    return {"k": "record", "name": name, "keys": keys, "v": [gen_obj(rng, depth + 1, maxdepth) for _ in keys]}


def commands(o, out):
    if o is None:
        out.append(["null"])
        return
    k = o["k"]
    if k == "bool":
        out.append(["boolean", o["v"]])
    elif k == "int":
        out.append(["integer", o["v"]])
    elif k == "real":
        out.append(["real", o["v"]])
    elif k == "complex":
        out.append(["complex", o["v"][0], o["v"][1]])
    elif k == "datetime":
        out.append(["datetime", o["v"], "datetime64[s]"])
    elif k == "timedelta":
        out.append(["timedelta", o["v"], "timedelta64[s]"])
    elif k == "str":
        out.append(["string", o["v"]])
    elif k == "bytes":
        out.append(["bytestring", o["v"]])
    elif k == "list":
        out.append(["beginlist"])
        for x in o["v"]:
            commands(x, out)
        out.append(["endlist"])
    elif k == "tuple":
        out.append(["begintuple", len(o["v"])])
        for i, x in enumerate(o["v"]):
            out.append(["index", i])
            commands(x, out)
        out.append(["endtuple"])
    elif k == "record":
        out.append(["beginrecord", o["name"]])
        for key, x in zip(o["keys"], o["v"]):
            out.append(["field", key])
            commands(x, out)
        out.append(["endrecord"])


def to_value(o):
    if o is None:
        return None
    k = o["k"]
    if k in ("bool", "int", "real", "str"):
        return o["v"]
    if k == "complex":
        return complex(o["v"][0], o["v"][1])
    if k == "datetime":
        return "M8[s]:%d" % o["v"]
    if k == "timedelta":
        return "m8[s]:%d" % o["v"]
    if k == "bytes":
        return bytes.fromhex(o["v"])
    if k == "list":
        return [to_value(x) for x in o["v"]]
    if k == "tuple":
        return tuple(to_value(x) for x in o["v"])
    if k == "record":
        return RecVal(o["name"], [(key, to_value(x)) for key, x in zip(o["keys"], o["v"])])
    raise ValueError(k)


class RecVal(object):
    def __init__(self, name, items):
        self.name, self.items = name, items


def unify(values):
    """documented unification of values that arrive at the same position"""
    recs = {}
    for v in values:
        if isinstance(v, RecVal):
            ks = recs.setdefault(v.name, [])
            for k, _ in v.items:
                if k not in ks:
                    ks.append(k)
    # element positions shared by all lists / by tuples of equal length / by record fields of equal name+key
    pools = {}

    def pool(key, x):
        pools.setdefault(key, []).append(x)

    for v in values:
        if isinstance(v, list):
            for x in v:
                pool(("list",), x)
        elif isinstance(v, tuple):
            for i, x in enumerate(v):
                pool(("tuple", len(v), i), x)
        elif isinstance(v, RecVal):
            got = dict(v.items)
            for k in recs[v.name]:
                pool(("rec", v.name, k), got.get(k))
    done = dict((key, iter(unify(xs))) for key, xs in pools.items())
    out = []
    for v in values:
        if isinstance(v, list):
            out.append([next(done[("list",)]) for _ in v])
        elif isinstance(v, tuple):
            out.append(tuple(next(done[("tuple", len(v), i)]) for i in range(len(v))))
        elif isinstance(v, RecVal):
            out.append(dict((k, next(done[("rec", v.name, k)])) for k in recs[v.name]))
        else:
            out.append(v)
    return out


ILL = ["endlist", "endtuple", "endrecord", "field-outside", "index-outside", "index-too-big", "index-negative"]


def gen_case(rng, tier, index):
    big = tier == "thorough"
    ntop = rng.choice([0, 1, 2, 3, 4, 6]) if not big else rng.choice([1, 3, 6, 12, 25])
    objs = [gen_obj(rng, 0, 3 if not big else 4) for _ in range(ntop)]
    case = {"objs": objs, "options": [rng.choice([1, 1, 2, 3, 1024]), rng.choice([1.5, 2.0, 1.1])],
            "snap_at": sorted(rng.sample(range(0, 400), 3)), "mode": "well"}
    if index % 10 == 7:
        return gen_lb_case(rng, tier)
    if index % 5 == 4:
        case["mode"] = "ill"
        case["ill"] = rng.choice(ILL)
        case["ill_pos"] = rng.random()
    elif index % 5 == 3:
        case["mode"] = "append"
        cfg = gen.Cfg(tier, categorical=False, unions=False)
        T, vals, d = gen.layout(rng, cfg, n=rng.randint(1, 4))
        case["layout"] = d
        case["at"] = [rng.randint(-len(vals), len(vals) - 1) for _ in range(rng.randint(1, 3))]
        case["extend"] = rng.random() < 0.5
    return case


# ---------------------------------------------------------------- Form-driven LayoutBuilder

LB_PRIMS = ["int64", "float64", "bool"]


def gen_lb_type(rng, depth=0):
    """any nesting of the supported node classes"""
    r = rng.random()
    if depth >= 3:
        r *= 0.4
    if r < 0.36:
        return gen.P(rng.choice(LB_PRIMS))
    if r < 0.42:
        return {"t": "string"}
    if r < 0.62:
        return {"t": "list", "e": gen_lb_type(rng, depth + 1)}
    if r < 0.70:
        return {"t": "regular", "e": gen_lb_type(rng, depth + 1), "size": rng.choice([1, 2, 3])}
    if r < 0.82:
        e = gen_lb_type(rng, depth + 1)
        return e if e["t"] == "option" else {"t": "option", "e": e}
    if r < 0.93:
        n = rng.choice([1, 2, 3])
        return {"t": "record", "fields": [gen_lb_type(rng, depth + 1) for _ in range(n)],
                "keys": rng.choice([None, ["x", "y", "z"][:n]])}
    arms = []
    while len(arms) < 2:
        a = gen_lb_type(rng, depth + 1)
        if a["t"] not in ("union", "option"):
            arms.append(a)
    return {"t": "union", "arms": arms}


def gen_lb_simple(rng):
    """the shapes the upstream tests of this (experimental) class demonstrate: one structural node over leaves, plus
    list-of-records whose fields are leaves or lists of leaves"""
    leaf = lambda: rng.choice([gen.P(rng.choice(LB_PRIMS)), gen.P(rng.choice(LB_PRIMS)), {"t": "string"}])   # noqa: E731
    prim = lambda: gen.P(rng.choice(LB_PRIMS))    # noqa: E731
    k = rng.choice(["leaf", "list", "regular", "option", "record", "union", "listrecord"])
    if k == "leaf":
        return leaf()
    if k == "list":
        return {"t": "list", "e": leaf()}
    if k == "regular":
        return {"t": "regular", "e": prim(), "size": rng.choice([1, 2, 3])}
    if k == "option":
        return {"t": "option", "e": prim()}
    if k == "record":
        n = rng.choice([1, 2, 3])
        return {"t": "record", "fields": [prim() for _ in range(n)], "keys": rng.choice([None, ["x", "y", "z"][:n]])}
    if k == "union":
        arms = rng.sample(LB_PRIMS, rng.choice([2, 3]))
        return {"t": "union", "arms": [gen.P(a) for a in arms]}
    n = rng.choice([1, 2])
    return {"t": "list", "e": {"t": "record", "keys": ["x", "y"][:n],
                               "fields": [rng.choice([prim(), {"t": "list", "e": prim()}]) for _ in range(n)]}}


def lb_form(rng, T, simple=True):
    """Form JSON (dict) for T with the node classes the LayoutBuilder supports, every node with its own form_key"""
    counter = [0]

    def key():
        counter[0] += 1
        return "node%d" % counter[0]

    def rec(T):
        t = T["t"]
        if t == "prim":
            return {"class": "NumpyArray", "primitive": T["d"], "form_key": key()}
        if t == "string":
            return {"class": "ListOffsetArray64", "offsets": "i64", "form_key": key(), "parameters": {"__array__": "string"},
                    "content": {"class": "NumpyArray", "primitive": "uint8", "form_key": key(),
                                "parameters": {"__array__": "char"}}}
        if t == "list":
            return {"class": "ListOffsetArray64", "offsets": "i64", "content": rec(T["e"]), "form_key": key()}
        if t == "regular":
            return {"class": "RegularArray", "size": T["size"], "content": rec(T["e"]), "form_key": key()}
        if t == "option":
            return {"class": "IndexedOptionArray64", "index": "i64", "content": rec(T["e"]), "form_key": key()}
        if t == "record":
            cs = [rec(f) for f in T["fields"]]
            return {"class": "RecordArray", "contents": cs if T["keys"] is None else dict(zip(T["keys"], cs)),
                    "form_key": key()}
        if t == "union":
            return {"class": "UnionArray8_64", "tags": "i8", "index": "i64", "contents": [rec(a) for a in T["arms"]],
                    "form_key": key()}
        raise ValueError(t)
    f = rec(T)
    wrap = rng.random() < 0.15 and (T["t"] == "prim" or not simple)
    if wrap:
        k = rng.choice(["UnmaskedArray", "ByteMaskedArray", "BitMaskedArray"])
        f = {"class": k, "content": f, "form_key": key()}
        if k != "UnmaskedArray":
            f.update({"mask": "i8" if k == "ByteMaskedArray" else "u8", "valid_when": True})
        if k == "BitMaskedArray":
            f["lsb_order"] = False
    return f, wrap


def lb_commands(T, v, out):
    t = T["t"]
    if t == "prim":
        out.append([{"int64": "int64", "float64": "float64", "bool": "boolean"}[T["d"]], v])
    elif t == "string":
        out.append(["string", v])
    elif t == "list":
        out.append(["begin_list"])
        for x in v:
            lb_commands(T["e"], x, out)
        out.append(["end_list"])
    elif t == "regular":
        for x in v:
            lb_commands(T["e"], x, out)
    elif t == "option":
        if v is None:
            out.append(["null"])
        else:
            lb_commands(T["e"], v, out)
    elif t == "record":
        vs = v if isinstance(v, tuple) else [v[k] for k in T["keys"]]
        for f, x in zip(T["fields"], vs):
            lb_commands(f, x, out)
    elif t == "union":
        out.append(["tag", v.arm])
        lb_commands(T["arms"][v.arm], v.v, out)


def gen_lb_case(rng, tier):
    cfg = gen.Cfg(tier)
    cfg.nan = False
    cfg.maxlen = 4
    simple = rng.random() < 0.7
    T = gen_lb_simple(rng) if simple else gen_lb_type(rng)
    n = rng.choice([0, 1, 2, 3, 5, 8])
    vals = gen.gen_values(rng, T, n, cfg)
    cmds = []
    for v in vals:
        lb_commands(T, v, cmds)
    form, unmasked = lb_form(rng, T, simple)
    bounds = []
    acc = 0
    for v in vals:
        one = []
        lb_commands(T, v, one)
        acc += len(one)
        bounds.append(acc)
    return {"mode": "layoutbuilder", "simple": simple, "T": T, "form": form, "cmds": cmds, "bounds": bounds,
            "expected": _jsonable(gen.plain(vals)), "options": [rng.choice([8, 16, 1024]), rng.choice([1.5, 2.0, 1.1])],
            "wrong": rng.random() < 0.25, "wrong_pos": rng.random()}


def _jsonable(v):
    if isinstance(v, tuple):
        return {"__tuple__": [_jsonable(x) for x in v]}
    if isinstance(v, list):
        return [_jsonable(x) for x in v]
    if isinstance(v, dict):
        return dict((k, _jsonable(x)) for k, x in v.items())
    return v


def _unjson(v):
    if isinstance(v, dict) and "__tuple__" in v:
        return tuple(_unjson(x) for x in v["__tuple__"])
    if isinstance(v, list):
        return [_unjson(x) for x in v]
    if isinstance(v, dict):
        return dict((k, _unjson(x)) for k, x in v.items())
    return v


def run_layoutbuilder(ctx, case):
    import json
    from vlib import bridge_lb
    b = ctx.lib
    initial, resize = case["options"]
    ctx.cover("lb_options", "%s/%s" % (initial, resize))
    ctx.cover("lb_domain", "simple" if case["simple"] else "nested")
    form = b.form_fromjson(json.dumps(case["form"]))
    try:
        lb = bridge_lb.LayoutBuilder(b, form, initial, resize)
    except AkError as e:
        ctx.violation("layoutbuilder-refused-form", {"form": case["form"], "error": e.msg[:200]})
        return
    expected = _unjson(case["expected"])
    cmds, bounds = case["cmds"], case["bounds"]
    for c in cmds:
        ctx.cover("lb_command", c[0])
    for _p, n in _walk_form(case["form"]):
        ctx.cover("lb_form_class", n["class"])
    ctx.nontrivial(len(expected) >= 2)
    wrong_at = None
    if case["wrong"] and cmds:
        wrong_at = int(case["wrong_pos"] * len(cmds)) % len(cmds)
    snaps = []
    for i, c in enumerate(cmds):
        if wrong_at == i and c[0] in ("int64", "float64", "boolean", "string"):
            other = {"int64": ["string", "q"], "float64": ["boolean", True], "boolean": ["float64", 0.5],
                     "string": ["int64", 3]}[c[0]]
            try:
                lb.cmd(other)
                ctx.violation("layoutbuilder-accepted-wrong-type", {"form": case["form"], "expected_command": c[0],
                                                                    "sent": other})
            except AkError as e:
                ctx.cover("lb_wrong_type", "raised:" + e.kind)
                ctx.count("lb_wrong_type_commands_refused")
            return
        try:
            lb.cmd(c)
        except AkError as e:
            ctx.violation("layoutbuilder-raised", {"form": case["form"], "command": c, "at": i, "error": e.msg[:200],
                                                   "type": gen.typestr(case["T"])})
            return
        if (i + 1) in bounds and len(snaps) < 3 and (i * 7 + len(cmds)) % 3 == 0:
            k = bounds.index(i + 1) + 1
            try:
                h = lb.snapshot()
            except AkError as e:
                ctx.violation("layoutbuilder-snapshot-raised", {"form": case["form"], "after": k, "error": e.msg[:200]})
                return
            snaps.append((k, h, b.describe_text(h)))
    try:
        h = lb.snapshot()
    except AkError as e:
        ctx.violation("layoutbuilder-snapshot-raised", {"form": case["form"], "after": len(expected), "error": e.msg[:200]})
        return
    snaps.append((len(expected), h, b.describe_text(h)))
    for k, h, text in snaps:
        ctx.count("lb_snapshots_checked")
        if b.describe_text(h) != text:
            ctx.violation("layoutbuilder-snapshot-changed", {"form": case["form"], "after": k})
            return
        d = b.describe(h)
        try:
            v = model.value(d)
        except Exception as e:      # noqa
            v = "<unreadable: %r>" % (e,)
        if not model.same(v, expected[:k]):
            ctx.violation("layoutbuilder-wrong-value", {"form": case["form"], "type": gen.typestr(case["T"]), "after": k,
                                                        "expected": model.brief(expected[:k], 300),
                                                        "got": model.brief(v, 300)})
            return
        ve = b.validityerror(h)
        if ve:
            ctx.violation("layoutbuilder-invalid-snapshot", {"form": case["form"], "validityerror": ve[:200]})
            return
    if not b.form_equal(lb.form(), form, True, True, True, False):
        ctx.violation("layoutbuilder-form-differs", {"form": case["form"]})
        return
    ctx.sample({"mode": "layoutbuilder", "type": gen.typestr(case["T"]), "commands": len(cmds),
                "snapshots": [k for k, _h, _t in snaps]}, cap=4)


def _walk_form(f, path=()):
    yield path, f
    c = f.get("content")
    if isinstance(c, dict):
        for x in _walk_form(c, path + ("content",)):
            yield x
    cs = f.get("contents")
    if isinstance(cs, dict):
        cs = list(cs.values())
    for i, x in enumerate(cs or []):
        for y in _walk_form(x, path + (i,)):
            yield y


_CAPI = {}


def capi(ctx):
    if "lib" not in _CAPI:
        L = ctypes.CDLL(os.path.join(ctx.builddir, "libawkward.so"), mode=ctypes.RTLD_GLOBAL)
        vp, i64, u8 = ctypes.c_void_p, ctypes.c_int64, ctypes.c_uint8
        sig = {"null": [vp], "boolean": [vp, ctypes.c_bool], "integer": [vp, i64], "real": [vp, ctypes.c_double],
               "string_length": [vp, ctypes.c_char_p, i64], "bytestring_length": [vp, ctypes.c_char_p, i64],
               "beginlist": [vp], "endlist": [vp], "begintuple": [vp, i64], "index": [vp, i64], "endtuple": [vp],
               "beginrecord": [vp], "beginrecord_check": [vp, ctypes.c_char_p], "field_check": [vp, ctypes.c_char_p],
               "endrecord": [vp]}
        for name, args in sig.items():
            f = getattr(L, "awkward_ArrayBuilder_" + name)
            f.restype = u8
            f.argtypes = args
        _CAPI["lib"] = L
    return _CAPI["lib"]


def c_cmd(L, raw, c):
    """issue one command through the extern "C" API; -> error code, or None when the API has no such command"""
    n = c[0]
    if n in ("null", "beginlist", "endlist", "endtuple", "endrecord"):
        return getattr(L, "awkward_ArrayBuilder_" + n)(raw)
    if n == "boolean":
        return L.awkward_ArrayBuilder_boolean(raw, bool(c[1]))
    if n == "integer":
        return L.awkward_ArrayBuilder_integer(raw, c[1])
    if n == "real":
        return L.awkward_ArrayBuilder_real(raw, c[1])
    if n == "string":
        b = c[1].encode("utf-8", "surrogateescape")
        return L.awkward_ArrayBuilder_string_length(raw, b, len(b))
    if n == "bytestring":
        b = bytes.fromhex(c[1])
        return L.awkward_ArrayBuilder_bytestring_length(raw, b, len(b))
    if n == "begintuple":
        return L.awkward_ArrayBuilder_begintuple(raw, c[1])
    if n == "index":
        return L.awkward_ArrayBuilder_index(raw, c[1])
    if n == "beginrecord":
        if c[1] is None:
            return L.awkward_ArrayBuilder_beginrecord(raw)
        return L.awkward_ArrayBuilder_beginrecord_check(raw, c[1].encode())
    if n == "field":
        return L.awkward_ArrayBuilder_field_check(raw, c[1].encode("utf-8", "surrogateescape"))
    return None


def _keysorted(v):
    if isinstance(v, dict):
        return {k: _keysorted(v[k]) for k in sorted(v)}
    if isinstance(v, list):
        return [_keysorted(x) for x in v]
    if isinstance(v, tuple):
        return tuple(_keysorted(x) for x in v)
    return v


def run_case(ctx, case):
    if case["mode"] == "layoutbuilder":
        ctx.cover("mode", "layoutbuilder")
        return run_layoutbuilder(ctx, case)
    b = ctx.lib
    cmds = []
    for o in case["objs"]:
        commands(o, cmds)
    initial, resize = case["options"]
    ctx.cover("mode", case["mode"])
    ctx.cover("options", "%s/%s" % (initial, resize))
    for c in cmds:
        ctx.cover("command", c[0])

    if case["mode"] == "ill":
        # insert one malformed command at a position where it is malformed: at top level between values
        tops = [0]
        depth = 0
        for i, c in enumerate(cmds):
            if c[0] in ("beginlist", "begintuple", "beginrecord"):
                depth += 1
            elif c[0] in ("endlist", "endtuple", "endrecord"):
                depth -= 1
            if depth == 0:
                tops.append(i + 1)
        pos = tops[int(case["ill_pos"] * len(tops)) % len(tops)]
        kind = case["ill"]
        bad = {"endlist": [["endlist"]], "endtuple": [["endtuple"]], "endrecord": [["endrecord"]],
               "field-outside": [["field", "x"]], "index-outside": [["index", 0]],
               "index-too-big": [["begintuple", 2], ["index", 2]],
               "index-negative": [["begintuple", 2], ["index", -1]]}[kind]
        B = bridge_ext.Builder(b, initial, resize)
        try:
            for c in cmds[:pos] + bad[:-1]:
                B.cmd(c)
        except AkError as e:
            ctx.violation("well-nested-prefix-raised", {"error": str(e)[:200]})
            return
        ctx.nontrivial(True)
        ctx.cover("ill_kind", kind)
        try:
            B.cmd(bad[-1])
        except AkError as e:
            ctx.cover("ill_outcome", "raised:" + e.kind)
            ctx.count("ill_nested_raised")
            return
        ctx.violation("malformed-command-accepted", {"kind": kind, "command": bad[-1], "after": len(cmds[:pos])})
        return

    B1 = bridge_ext.Builder(b, initial, resize)
    B2 = bridge_ext.Builder(b, 1024, 1.5)                  # same history, no forced growth
    B3 = bridge_ext.Builder(b, initial, resize)            # driven through the extern "C" API
    L = capi(ctx)
    raw3 = b.L.akb_builder_raw(B3.h.p)
    c_ok = True
    snaps = []
    expected = unify([to_value(o) for o in case["objs"]])
    try:
        for i, c in enumerate(cmds):
            B1.cmd(c)
            B2.cmd(c)
            if c_ok:
                rc = c_cmd(L, raw3, c)
                if rc is None:
                    c_ok = False
                elif rc != 0:
                    ctx.violation("c-api-error", {"command": c, "rc": rc})
                    return
            if i in case["snap_at"]:
                s = B1.snapshot()
                snaps.append((i, s, b.describe_text(s)))
                # the snapshots taken so far must not have changed
                for j, sj, tj in snaps:
                    if b.describe_text(sj) != tj:
                        ctx.violation("snapshot-changed", {"taken_after": j, "seen_after": i})
                        return
        if case["mode"] == "append":
            ah = b.build(case["layout"])
            av = model.value(case["layout"])
            if case["extend"]:
                B1.extend(ah)
                B2.extend(ah)
                expected = expected + av
            for at in case["at"]:
                B1.append(ah, at)
                B2.append(ah, at)
                expected = expected + [av[at]]
            c_ok = False
    except AkError as e:
        ctx.violation("well-nested-history-raised", {"error": str(e)[:300], "ncommands": len(cmds)})
        return
    try:
        s1, s2 = B1.snapshot(), B2.snapshot()
    except AkError as e:
        ctx.violation("well-nested-history-raised", {"error": "snapshot: " + str(e)[:300], "ncommands": len(cmds)})
        return
    d1 = b.describe(s1)
    v1, v2 = model.value(d1), model.value(b.describe(s2))
    ctx.nontrivial(len(case["objs"]) >= 3)
    ctx.count("histories_run")
    if model.validity(d1) is not None or b.validityerror(s1) != "":
        ctx.violation("invalid-snapshot", {"model": model.validity(d1), "library": b.validityerror(s1)[:200]})
        return
    if case["mode"] == "append":
        expected = _fill(expected)
    if not model.same(v1, expected):
        if case["mode"] == "append" and model.same(_keysorted(v1), _keysorted(expected)):
            # an appended record with the fields of an earlier one in another order joins that record's builder: the
            # values are the appended ones, only the order in which the fields are listed is the first record's
            ctx.count("appended_record_field_order_differs_(not_asserted)")
        else:
            ctx.violation("wrong-value", {"expected": model.brief(expected, 500), "got": model.brief(v1, 500),
                                          "type": b.typestr(s1)})
            return
    if not model.same(v1, v2) or b.typestr(s1) != b.typestr(s2):
        ctx.violation("growth-dependent", {"grown": model.brief(v1, 300), "roomy": model.brief(v2, 300),
                                           "types": [b.typestr(s1), b.typestr(s2)]})
        return
    if c_ok:
        s3 = B3.snapshot()
        v3 = model.value(b.describe(s3))
        ctx.count("c_api_histories")
        if not model.same(v1, v3) or b.typestr(s1) != b.typestr(s3):
            ctx.violation("c-api-differs", {"cpp": model.brief(v1, 300), "c": model.brief(v3, 300),
                                            "types": [b.typestr(s1), b.typestr(s3)]})
            return
    for j, sj, tj in snaps:
        ctx.count("snapshot_recheck")
        if b.describe_text(sj) != tj:
            ctx.violation("snapshot-changed", {"taken_after": j, "seen_after": "end"})
            return
    if b.describe_text(B1.snapshot()) != b.describe_text(s1):
        ctx.violation("snapshot-not-repeatable", {})
        return
    # clear + replay == fresh
    if case["mode"] == "well":
        B1.cmd(["clear"])
        if B1.length() != 0:
            ctx.violation("clear", {"length_after_clear": B1.length()})
            return
        try:
            for c in cmds:
                B1.cmd(c)
            s4 = B1.snapshot()
        except AkError as e:
            ctx.violation("clear-replay-raised", {"error": str(e)[:300]})
            return
        # clear() is documented to keep the type knowledge: only the values are compared
        if not model.same(model.value(b.describe(s4)), v1):
            ctx.violation("clear-replay-differs", {"fresh": model.brief(v1, 300),
                                                   "replayed": model.brief(model.value(b.describe(s4)), 300)})
            return
        # and the old snapshot survived the clear
        if not model.same(model.value(b.describe(s1)), v1):
            ctx.violation("snapshot-changed", {"taken_after": "end", "seen_after": "clear+replay"})
            return
    ctx.sample({"n_commands": len(cmds), "type": b.typestr(s1), "value": model.brief(v1, 200)})


def _fill(vals):
    return vals


def classify(vio):
    from vlib import known
    return known.classify(vio)


def signature(vio):
    return vio["kind"]


if __name__ == "__main__":
    from vlib import runner
    sys.exit(runner.main(sys.modules[__name__]))
