"""C14 - builders reproduce exactly the appended values; snapshots are immutable (lane L: ArrayBuilder).

Monitors
  history   : a random well-nested history (all value kinds, lists, tuples, named/unnamed records, append/extend of
              existing arrays) is fed to the C++ ArrayBuilder and, for the subset they cover, to a second builder through
              the extern "C" awkward_ArrayBuilder_* functions (the Numba entry points); value(snapshot) must equal the
              appended values after the documented unification (missing record fields -> None), both builders agree
  snapshot  : every snapshot's structural dump is re-read after each later command and at the end (immutability);
              two builders with the same history give equal snapshots; clear + replay equals a fresh builder
  ill-nested: a history with one malformed command (unbalanced end*, field outside a record, tuple index out of range
              or outside a tuple) must raise at that command
Buffer growth is forced with ArrayBuilderOptions(initial in {1,2,3,1024}, resize in {1.5, 2.0, 1.1}); ASan build.
"""
from __future__ import print_function

import ctypes
import os
import random
import sys

from vlib import gen, model, bridge_ext
from vlib.bridge import AkError

PROPERTY = "C14"
LEVEL = "exploration"
RULE = ("cases are command histories (<= 60 commands quick, <= 400 thorough) generated from a grammar over null, boolean, "
        "integer, real, complex, datetime, timedelta, string, bytestring, lists, tuples, named and unnamed records, "
        "append, extend, snapshot, clear, with 1 in 5 histories made ill-nested at one position; non-trivial = at "
        "least 3 top-level values (well-nested) / the malformed command was reached (ill-nested); distinct = SHA-1 of "
        "the case descriptor")
VARIANTS = {"quick": ["asan"], "thorough": ["asan"]}
BUDGET = {"quick": dict(cases=60000, seconds=55), "thorough": dict(cases=1000000, seconds=1200)}
MIN_NONTRIVIAL = {"quick": 2000, "thorough": 30000}
ASSUMPTIONS = ["the expected value is the list of appended Python values with, per position and record name, absent "
               "fields filled with None in order of first appearance (the documented unification); types are not "
               "compared against a model, only between equal histories",
               "builder_fromiter (pybind11) is replaced by vlib.bridge_ext.Builder.fromiter"]


class Obj(object):
    pass


def gen_obj(rng, depth, maxdepth):
    r = rng.random()
    if depth >= maxdepth:
        r *= 0.62
    if r < 0.08:
        return None
    if r < 0.14:
        return {"k": "bool", "v": rng.random() < 0.5}
    if r < 0.30:
        return {"k": "int", "v": rng.choice([0, 1, -1, 7, 2 ** 40, -(2 ** 62), rng.randint(-9, 9)])}
    if r < 0.42:
        return {"k": "real", "v": rng.choice([0.5, -2.25, 1e300, 3.0, float("inf"), 0.1])}
    if r < 0.45:
        return {"k": "complex", "v": [rng.choice([1.0, -0.5]), rng.choice([2.0, 0.0])]}
    if r < 0.48:
        return {"k": "datetime", "v": rng.randint(-5, 50)}
    if r < 0.50:
        return {"k": "timedelta", "v": rng.randint(-5, 50)}
    if r < 0.58:
        return {"k": "str", "v": "".join(rng.choice(["a", "b", "é", "中", "\"", "\\", " "]) for _ in range(rng.randint(0, 4)))}
    if r < 0.62:
        return {"k": "bytes", "v": bytes(bytearray(rng.choice([0, 65, 255, 128]) for _ in range(rng.randint(0, 3)))).hex()}
    if r < 0.80:
        return {"k": "list", "v": [gen_obj(rng, depth + 1, maxdepth) for _ in range(rng.choice([0, 1, 2, 3, 5]))]}
    if r < 0.88:
        n = rng.choice([1, 2, 2, 3])
        return {"k": "tuple", "v": [gen_obj(rng, depth + 1, maxdepth) for _ in range(n)]}
    name = rng.choice([None, None, "A", "B"])
    keys = rng.sample(["x", "y", "z", "a b"], rng.choice([0, 1, 2, 2, 3]))
    return {"k": "record", "name": name, "keys": keys, "v": [gen_obj(rng, depth + 1, maxdepth) for _ in keys]}


def commands(o, out):
    if o is None:
        out.append(["null"])
        return
    k = o["k"]
    if k == "bool":
        out.append(["boolean", o["v"]])
    elif k == "int":
        out.append(["integer", o["v"]])
    elif k == "real":
        out.append(["real", o["v"]])
    elif k == "complex":
        out.append(["complex", o["v"][0], o["v"][1]])
    elif k == "datetime":
        out.append(["datetime", o["v"], "datetime64[s]"])
    elif k == "timedelta":
        out.append(["timedelta", o["v"], "timedelta64[s]"])
    elif k == "str":
        out.append(["string", o["v"]])
    elif k == "bytes":
        out.append(["bytestring", o["v"]])
    elif k == "list":
        out.append(["beginlist"])
        for x in o["v"]:
            commands(x, out)
        out.append(["endlist"])
    elif k == "tuple":
        out.append(["begintuple", len(o["v"])])
        for i, x in enumerate(o["v"]):
            out.append(["index", i])
            commands(x, out)
        out.append(["endtuple"])
    elif k == "record":
        out.append(["beginrecord", o["name"]])
        for key, x in zip(o["keys"], o["v"]):
            out.append(["field", key])
            commands(x, out)
        out.append(["endrecord"])


def to_value(o):
    if o is None:
        return None
    k = o["k"]
    if k in ("bool", "int", "real", "str"):
        return o["v"]
    if k == "complex":
        return complex(o["v"][0], o["v"][1])
    if k == "datetime":
        return "M8[s]:%d" % o["v"]
    if k == "timedelta":
        return "m8[s]:%d" % o["v"]
    if k == "bytes":
        return bytes.fromhex(o["v"])
    if k == "list":
        return [to_value(x) for x in o["v"]]
    if k == "tuple":
        return tuple(to_value(x) for x in o["v"])
    if k == "record":
        return RecVal(o["name"], [(key, to_value(x)) for key, x in zip(o["keys"], o["v"])])
    raise ValueError(k)


class RecVal(object):
    def __init__(self, name, items):
        self.name, self.items = name, items


def unify(values):
    """documented unification of values that arrive at the same position"""
    recs = {}
    for v in values:
        if isinstance(v, RecVal):
            ks = recs.setdefault(v.name, [])
            for k, _ in v.items:
                if k not in ks:
                    ks.append(k)
    # element positions shared by all lists / by tuples of equal length / by record fields of equal name+key
    pools = {}

    def pool(key, x):
        pools.setdefault(key, []).append(x)

    for v in values:
        if isinstance(v, list):
            for x in v:
                pool(("list",), x)
        elif isinstance(v, tuple):
            for i, x in enumerate(v):
                pool(("tuple", len(v), i), x)
        elif isinstance(v, RecVal):
            got = dict(v.items)
            for k in recs[v.name]:
                pool(("rec", v.name, k), got.get(k))
    done = dict((key, iter(unify(xs))) for key, xs in pools.items())
    out = []
    for v in values:
        if isinstance(v, list):
            out.append([next(done[("list",)]) for _ in v])
        elif isinstance(v, tuple):
            out.append(tuple(next(done[("tuple", len(v), i)]) for i in range(len(v))))
        elif isinstance(v, RecVal):
            out.append(dict((k, next(done[("rec", v.name, k)])) for k in recs[v.name]))
        else:
            out.append(v)
    return out


ILL = ["endlist", "endtuple", "endrecord", "field-outside", "index-outside", "index-too-big", "index-negative"]


def gen_case(rng, tier, index):
    big = tier == "thorough"
    ntop = rng.choice([0, 1, 2, 3, 4, 6]) if not big else rng.choice([1, 3, 6, 12, 25])
    objs = [gen_obj(rng, 0, 3 if not big else 4) for _ in range(ntop)]
    case = {"objs": objs, "options": [rng.choice([1, 1, 2, 3, 1024]), rng.choice([1.5, 2.0, 1.1])],
            "snap_at": sorted(rng.sample(range(0, 400), 3)), "mode": "well"}
    if index % 5 == 4:
        case["mode"] = "ill"
        case["ill"] = rng.choice(ILL)
        case["ill_pos"] = rng.random()
    elif index % 5 == 3:
        case["mode"] = "append"
        cfg = gen.Cfg(tier, categorical=False, unions=False)
        T, vals, d = gen.layout(rng, cfg, n=rng.randint(1, 4))
        case["layout"] = d
        case["at"] = [rng.randint(-len(vals), len(vals) - 1) for _ in range(rng.randint(1, 3))]
        case["extend"] = rng.random() < 0.5
    return case


_CAPI = {}


def capi(ctx):
    if "lib" not in _CAPI:
        L = ctypes.CDLL(os.path.join(ctx.builddir, "libawkward.so"), mode=ctypes.RTLD_GLOBAL)
        vp, i64, u8 = ctypes.c_void_p, ctypes.c_int64, ctypes.c_uint8
        sig = {"null": [vp], "boolean": [vp, ctypes.c_bool], "integer": [vp, i64], "real": [vp, ctypes.c_double],
               "string_length": [vp, ctypes.c_char_p, i64], "bytestring_length": [vp, ctypes.c_char_p, i64],
               "beginlist": [vp], "endlist": [vp], "begintuple": [vp, i64], "index": [vp, i64], "endtuple": [vp],
               "beginrecord": [vp], "beginrecord_check": [vp, ctypes.c_char_p], "field_check": [vp, ctypes.c_char_p],
               "endrecord": [vp]}
        for name, args in sig.items():
            f = getattr(L, "awkward_ArrayBuilder_" + name)
            f.restype = u8
            f.argtypes = args
        _CAPI["lib"] = L
    return _CAPI["lib"]


def c_cmd(L, raw, c):
    """issue one command through the extern "C" API; -> error code, or None when the API has no such command"""
    n = c[0]
    if n in ("null", "beginlist", "endlist", "endtuple", "endrecord"):
        return getattr(L, "awkward_ArrayBuilder_" + n)(raw)
    if n == "boolean":
        return L.awkward_ArrayBuilder_boolean(raw, bool(c[1]))
    if n == "integer":
        return L.awkward_ArrayBuilder_integer(raw, c[1])
    if n == "real":
        return L.awkward_ArrayBuilder_real(raw, c[1])
    if n == "string":
        b = c[1].encode("utf-8", "surrogateescape")
        return L.awkward_ArrayBuilder_string_length(raw, b, len(b))
    if n == "bytestring":
        b = bytes.fromhex(c[1])
        return L.awkward_ArrayBuilder_bytestring_length(raw, b, len(b))
    if n == "begintuple":
        return L.awkward_ArrayBuilder_begintuple(raw, c[1])
    if n == "index":
        return L.awkward_ArrayBuilder_index(raw, c[1])
    if n == "beginrecord":
        if c[1] is None:
            return L.awkward_ArrayBuilder_beginrecord(raw)
        return L.awkward_ArrayBuilder_beginrecord_check(raw, c[1].encode())
    if n == "field":
        return L.awkward_ArrayBuilder_field_check(raw, c[1].encode("utf-8", "surrogateescape"))
    return None


def run_case(ctx, case):
    b = ctx.lib
    cmds = []
    for o in case["objs"]:
        commands(o, cmds)
    initial, resize = case["options"]
    ctx.cover("mode", case["mode"])
    ctx.cover("options", "%s/%s" % (initial, resize))
    for c in cmds:
        ctx.cover("command", c[0])

    if case["mode"] == "ill":
        # insert one malformed command at a position where it is malformed: at top level between values
        tops = [0]
        depth = 0
        for i, c in enumerate(cmds):
            if c[0] in ("beginlist", "begintuple", "beginrecord"):
                depth += 1
            elif c[0] in ("endlist", "endtuple", "endrecord"):
                depth -= 1
            if depth == 0:
                tops.append(i + 1)
        pos = tops[int(case["ill_pos"] * len(tops)) % len(tops)]
        kind = case["ill"]
        bad = {"endlist": [["endlist"]], "endtuple": [["endtuple"]], "endrecord": [["endrecord"]],
               "field-outside": [["field", "x"]], "index-outside": [["index", 0]],
               "index-too-big": [["begintuple", 2], ["index", 2]],
               "index-negative": [["begintuple", 2], ["index", -1]]}[kind]
        B = bridge_ext.Builder(b, initial, resize)
        try:
            for c in cmds[:pos] + bad[:-1]:
                B.cmd(c)
        except AkError as e:
            ctx.violation("well-nested-prefix-raised", {"error": str(e)[:200]})
            return
        ctx.nontrivial(True)
        ctx.cover("ill_kind", kind)
        try:
            B.cmd(bad[-1])
        except AkError as e:
            ctx.cover("ill_outcome", "raised:" + e.kind)
            ctx.count("ill_nested_raised")
            return
        ctx.violation("malformed-command-accepted", {"kind": kind, "command": bad[-1], "after": len(cmds[:pos])})
        return

    B1 = bridge_ext.Builder(b, initial, resize)
    B2 = bridge_ext.Builder(b, 1024, 1.5)                  # same history, no forced growth
    B3 = bridge_ext.Builder(b, initial, resize)            # driven through the extern "C" API
    L = capi(ctx)
    raw3 = b.L.akb_builder_raw(B3.h.p)
    c_ok = True
    snaps = []
    expected = unify([to_value(o) for o in case["objs"]])
    try:
        for i, c in enumerate(cmds):
            B1.cmd(c)
            B2.cmd(c)
            if c_ok:
                rc = c_cmd(L, raw3, c)
                if rc is None:
                    c_ok = False
                elif rc != 0:
                    ctx.violation("c-api-error", {"command": c, "rc": rc})
                    return
            if i in case["snap_at"]:
                s = B1.snapshot()
                snaps.append((i, s, b.describe_text(s)))
                # the snapshots taken so far must not have changed
                for j, sj, tj in snaps:
                    if b.describe_text(sj) != tj:
                        ctx.violation("snapshot-changed", {"taken_after": j, "seen_after": i})
                        return
        if case["mode"] == "append":
            ah = b.build(case["layout"])
            av = model.value(case["layout"])
            if case["extend"]:
                B1.extend(ah)
                B2.extend(ah)
                expected = expected + av
            for at in case["at"]:
                B1.append(ah, at)
                B2.append(ah, at)
                expected = expected + [av[at]]
            c_ok = False
    except AkError as e:
        ctx.violation("well-nested-history-raised", {"error": str(e)[:300], "ncommands": len(cmds)})
        return
    try:
        s1, s2 = B1.snapshot(), B2.snapshot()
    except AkError as e:
        ctx.violation("well-nested-history-raised", {"error": "snapshot: " + str(e)[:300], "ncommands": len(cmds)})
        return
    d1 = b.describe(s1)
    v1, v2 = model.value(d1), model.value(b.describe(s2))
    ctx.nontrivial(len(case["objs"]) >= 3)
    ctx.count("histories_run")
    if model.validity(d1) is not None or b.validityerror(s1) != "":
        ctx.violation("invalid-snapshot", {"model": model.validity(d1), "library": b.validityerror(s1)[:200]})
        return
    if case["mode"] == "append":
        expected = _fill(expected)
    if not model.same(v1, expected):
        ctx.violation("wrong-value", {"expected": model.brief(expected, 500), "got": model.brief(v1, 500),
                                      "type": b.typestr(s1)})
        return
    if not model.same(v1, v2) or b.typestr(s1) != b.typestr(s2):
        ctx.violation("growth-dependent", {"grown": model.brief(v1, 300), "roomy": model.brief(v2, 300),
                                           "types": [b.typestr(s1), b.typestr(s2)]})
        return
    if c_ok:
        s3 = B3.snapshot()
        v3 = model.value(b.describe(s3))
        ctx.count("c_api_histories")
        if not model.same(v1, v3) or b.typestr(s1) != b.typestr(s3):
            ctx.violation("c-api-differs", {"cpp": model.brief(v1, 300), "c": model.brief(v3, 300),
                                            "types": [b.typestr(s1), b.typestr(s3)]})
            return
    for j, sj, tj in snaps:
        ctx.count("snapshot_recheck")
        if b.describe_text(sj) != tj:
            ctx.violation("snapshot-changed", {"taken_after": j, "seen_after": "end"})
            return
    if b.describe_text(B1.snapshot()) != b.describe_text(s1):
        ctx.violation("snapshot-not-repeatable", {})
        return
    # clear + replay == fresh
    if case["mode"] == "well":
        B1.cmd(["clear"])
        if B1.length() != 0:
            ctx.violation("clear", {"length_after_clear": B1.length()})
            return
        try:
            for c in cmds:
                B1.cmd(c)
            s4 = B1.snapshot()
        except AkError as e:
            ctx.violation("clear-replay-raised", {"error": str(e)[:300]})
            return
        # clear() is documented to keep the type knowledge: only the values are compared
        if not model.same(model.value(b.describe(s4)), v1):
            ctx.violation("clear-replay-differs", {"fresh": model.brief(v1, 300),
                                                   "replayed": model.brief(model.value(b.describe(s4)), 300)})
            return
        # and the old snapshot survived the clear
        if not model.same(model.value(b.describe(s1)), v1):
            ctx.violation("snapshot-changed", {"taken_after": "end", "seen_after": "clear+replay"})
            return
    ctx.sample({"n_commands": len(cmds), "type": b.typestr(s1), "value": model.brief(v1, 200)})


def _fill(vals):
    return vals


def classify(vio):
    from vlib import known
    return known.classify(vio)


def signature(vio):
    return vio["kind"]


if __name__ == "__main__":
    from vlib import runner
    sys.exit(runner.main(sys.modules[__name__]))
