"""C18 - lazy (virtual) and partitioned arrays are indistinguishable from the eager array (lane L; one case in seven
on lane P: ak.partitioned / ak.repartition / ak.virtual against the eager twin, checks/pstreams.py).

Doubles: the bridge supplies an ArrayGenerator and an ArrayCache whose behaviour is scripted by the harness and
whose every call is journalled (vlib/bridge_virtual.py).  Streams:

  lazy     a generated layout with the sub-tree at a random node replaced by VirtualArray(generator -> that sub-tree,
           cache policy, key); 1-4 catalogue operations (optionally after a range/field prefix that yields a lazier
           virtual array) run on it and on the eager layout: outcome kind and model value must agree.  Cache policy is
           the fault dimension: none, keep, forget (set ignored), evict with probability p at every get, evict
           everything at the n-th get (n enumerated over the gets of the run in the thorough tier), broken.
           Laziness: with form and length declared, structural queries and range/field projection leave the generator
           uncalled; with a keeping cache it is called at most once per key.
  enforce  generators that fail, return a shorter array than declared, or one of another form: the operation that
           triggered the generation must raise, nothing may be stored in the cache by that generation, and after the
           fault stops the next access gives the eager value.  (A longer-than-declared array is accepted by the code;
           the statement does not say; counted only.)
  part     IrregularlyPartitionedArray over every/sampled split of the array (empty partitions included), each
           partition encoded independently: length/start/stop, getitem_at for every index incl. negatives and out of
           range, getitem_range over a cube of (start, stop, step) crossing the boundaries, repartition to other
           splits, tojson - all against Python list semantics on the concatenation.
"""
from __future__ import print_function

import itertools
import json
import random
import sys

from vlib import gen, model, ops, bridge_virtual as bv
from vlib.bridge import AkError

PROPERTY = "C18"
LEVEL = "fault_enumeration"
RULE = ("lazy: (layout, wrapped node, declared form/length, cache policy, key, prefix, 1-4 operations); enforce: "
        "(layout, wrapped node, fault script in {fail-then-ok, short, other-form, ok-then-short, longer}, cache policy); "
        "part: (values, split, per-partition encodings, probes); lane-P (1 case in 7): (values, partitioning or ak.virtual "
        "configuration {declared form/length, cache kind, generator fault}, 1-3 catalogue operations) compared with the "
        "eager twin; non-trivial = the generator was called at least once "
        "(lazy/enforce) / the array has length > 0 and more than one partition (part); distinct = SHA-1 of the case "
        "descriptor; reducers and sorts are restricted to the innermost axis (outer axes crash on ragged data - "
        "known finding F10 - before any comparison could be made)")
VARIANTS = {"quick": ["asan"], "thorough": ["asan"]}
BUDGET = {"quick": dict(cases=12000, seconds=70), "thorough": dict(cases=300000, seconds=1500)}
MIN_NONTRIVIAL = {"quick": 1500, "thorough": 30000}
ASSUMPTIONS = [
    "the doubles (TestGenerator/TestCache in bridge/akbridge_virtual.cpp) stand for PyArrayGenerator/PyArrayCache of "
    "the pybind11 layer, which cannot be built here; they implement the same virtual interface",
    "results that still contain VirtualArray nodes are read through a bridge-side deep materialisation",
    "one case in seven runs on lane P (checks/pstreams.py gen_c18/run_c18): ak.partitioned / IrregularlyPartitionedArray / "
    "ak.repartition over numeric list types and ak.virtual (form/length declared or not; cache None, dict, 'new', "
    "forgetting and randomly evicting MutableMappings; generators that raise once, return a shorter/longer array or "
    "another form) run 1-3 operations of a 28-operation catalogue on the partitioned/virtual array and on the eager "
    "twin - outcome and value must agree (no opinion where only the eager array raises). Not drawn, because the first "
    "runs differed there and were not triaged: partitioned records (ak.num(axis=0), ak.where, integer-array slices, "
    "zip/with_field of partitions), boolean-array slices of a repartitioned array, strings, sort/argsort/pad_none/"
    "jagged masks (left to C06/C09/C01) and type strings",
]

FAMS = ["slice", "structure", "reduce", "sort", "combinations", "pad", "merge", "astype", "queries", "convert2"]
ops.FAMILIES["convert2"] = ["tojson", "validityerror", "deep_copy", "typestr"]
POLICIES = ["none", "keep", "keep", "forget", "evict_p", "evict_at", "broken"]


def _paths(d):
    out = []
    for p, n in model.walk(d):
        if model.param(n, "__array__") in ("char", "byte"):
            continue                   # the characters of a string must be a NumpyArray for the layout to be valid
        out.append(p)
    return out


def _jpath(p):
    return [list(x) if isinstance(x, tuple) else x for x in p]


def _tpath(p):
    return tuple(tuple(x) if isinstance(x, list) else x for x in p)


def _inner_axis(op):
    if op["op"] in ("reduce", "sort", "argsort"):
        op["axis"] = -1
    return op


def gen_case(rng, tier, index):
    if index % 7 == 6:         # the Python half: ak.partitioned / ak.repartition / ak.virtual (lane P)
        from checks import pstreams
        return pstreams.gen_p(rng, tier, PROPERTY)
    cfg = gen.Cfg(tier)
    cfg.categorical = False
    r = index % 20
    stream = "part" if r < 5 else ("enforce" if r < 8 else "lazy")
    case = {"stream": stream}
    if stream == "part":
        cfg.dtypes = ["bool"] + gen.INT_DTYPES + gen.FLOAT_DTYPES
        T = gen.gen_type(rng, cfg)
        n = rng.choice([0, 1, 2, 3, 4, 5, 6, 7, 9, 12])
        vals = gen.gen_values(rng, T, n, cfg)
        k = rng.randint(1, 5)
        cuts = sorted(rng.randint(0, n) for _ in range(k - 1))
        stops = cuts + [n]
        parts, a = [], 0
        for s in stops:
            parts.append(gen.encode(rng, T, vals[a:s], "random", cfg))
            a = s
        case.update({"T": T, "parts": parts, "stops": stops, "seed": rng.randrange(1 << 30)})
        return case
    T, vals, d = gen.layout(rng, cfg)
    v = gen.plain(vals)
    paths = _paths(d)
    path = () if rng.random() < 0.4 else rng.choice(paths)
    case.update({"T": T, "layout": d, "path": _jpath(path),
                 "declare_form": rng.random() < 0.6, "declare_length": rng.random() < 0.7,
                 "policy": rng.choice(POLICIES), "key": rng.choice(["k", None]),
                 "p": rng.choice([0.3, 0.6, 1.0]), "evict_at": sorted(set(rng.randint(0, 12) for _ in range(rng.randint(1, 3)))),
                 "seed": rng.randrange(1 << 30)})
    if stream == "enforce":
        case["fault"] = rng.choice(["fail-then-ok", "short", "other-form", "ok-then-short", "longer"])
        case["declare_form"] = True if case["fault"] == "other-form" else case["declare_form"]
        case["declare_length"] = True if case["fault"] in ("short", "ok-then-short", "longer") else case["declare_length"]
        if case["fault"] == "ok-then-short":
            case["policy"] = rng.choice(["none", "forget", "evict_p"])
            case["p"] = 1.0
        return case
    n = len(v)
    prefix = None
    if n and rng.random() < 0.3:
        a, b = sorted([rng.randint(0, n), rng.randint(0, n)])
        prefix = {"op": "getitem_range", "start": a, "stop": b}
        v = v[a:b]
    case["prefix"] = prefix
    case["ops"] = [_inner_axis(ops.gen_op(rng, T, v, cfg, families=FAMS)) for _ in range(rng.choice([1, 2, 3, 4]))]
    if not path and rng.random() < 0.25:
        # the slices that stay lazy on a VirtualArray at the root: one range (any step sign), one field
        m = len(v)
        bound = lambda: rng.choice([None, None, rng.randint(-m - 2, m + 2)])     # noqa: E731
        step = rng.choice([None, 1, 2, 3, -1, -1, -2, -3, m + 1, -(m + 1)])
        case["ops"].insert(rng.randint(0, len(case["ops"])),
                           {"op": "getitem", "items": [{"t": "range", "start": bound(), "stop": bound(), "step": step}]})
    return case


# ---------------------------------------------------------------------------------------------------------------------

def _cache(w, case):
    pol = case["policy"]
    if pol == "none":
        return None, None
    arg = case["p"] if pol == "evict_p" else (set(case["evict_at"]) if pol == "evict_at" else None)
    return w.cache(pol, arg)


def _wrap(b, w, case, script_of):
    """-> (lazy top handle, generator id, cache id, handle of the virtual node, length of the wrapped sub-tree)"""
    d = case["layout"]
    path = _tpath(case["path"])
    sub = model.get_at(d, path)
    inner = b.build(sub)
    form = b.form(inner, True) if case["declare_form"] else None
    n = model.length(sub)
    script = script_of(inner, sub, n)
    g, gid = w.generator(script, form=form, length=n if case["declare_length"] else -1)
    c, cid = _cache(w, case)
    vh = w.virtual(g, c, case["key"])
    top = b.build(d, subst={id(sub): vh})
    return top, gid, cid, vh, n


def run_case(ctx, case):
    if case.get("lane") == "P":
        from checks import pstreams
        return pstreams.run_p(ctx, case)
    b = ctx.lib
    stream = case["stream"]
    ctx.cover("stream", stream)
    if stream == "part":
        return run_part(ctx, b, case)
    w = bv.World(b, case["seed"])
    try:
        if stream == "lazy":
            run_lazy(ctx, b, w, case)
        else:
            run_enforce(ctx, b, w, case)
    finally:
        he = w.harness_errors()
        if he:
            raise RuntimeError("callback failed inside the doubles: %r" % (he[:2],))


def _same_outcome(ctx, case, what, op, e, l, w):
    if e.kind == "error" and l.kind == "value":
        # the statement compares values; where the materialised array has none (the operation raises on it) a lazy
        # array that happens to get through a different internal path is not a counterexample
        ctx.count("lazy_succeeds_where_eager_raises_(not_asserted)")
        return True
    if e.kind == "value" and isinstance(e.value, str) and e.value.startswith("<unreadable"):
        # the materialised array's own result is an invalid layout (C11's business): nothing to compare with
        ctx.count("eager_result_unreadable_(not_compared)")
        return True
    if l.kind == "value" and l.lazy_len is not None:
        ctx.count("lazy_results_with_announced_length")
        if l.lazy_len[0] != l.lazy_len[1]:
            # a result that is still lazy announces a length (len(), iteration and integer indexing rely on it)
            ctx.violation("lazy-length-differs", {"op": ops_slim(op), "when": what, "announced": l.lazy_len[0],
                                                  "materialised": l.lazy_len[1], "policy": case["policy"],
                                                  "declared": [case["declare_form"], case["declare_length"]]})
            return False
    if e.kind != l.kind:
        ctx.violation("lazy-outcome-differs", {"op": ops_slim(op), "when": what, "eager": e.brief(), "lazy": l.brief(),
                                               "policy": case["policy"], "path": case["path"],
                                               "declared": [case["declare_form"], case["declare_length"]],
                                               "journal_tail": w.journal[-6:]})
        return False
    if e.kind == "value" and not model.same(e.value, l.value):
        try:
            bad = e.handle is not None and ctx.lib.validityerror(e.handle)
        except AkError:
            bad = False
        if bad:
            # the materialised array's own result fails the validity check (C11's business): no value to compare with
            ctx.count("eager_result_invalid_(not_compared)")
            return True
        ctx.violation("lazy-value-differs", {"op": ops_slim(op), "when": what, "eager": e.brief(), "lazy": l.brief(),
                                             "policy": case["policy"], "path": case["path"],
                                             "declared": [case["declare_form"], case["declare_length"]],
                                             "journal_tail": w.journal[-6:]})
        return False
    if e.kind == "error" and e.err != l.err:
        ctx.count("error_class_differs_(not_asserted)")
    return True


def ops_slim(op):
    out = dict(op)
    if "others" in out:
        out["others"] = "<%d layouts>" % len(out["others"])
    return out


def run_lazy(ctx, b, w, case):
    d = case["layout"]
    eager = b.build(d)
    top, gid, cid, vh, n = _wrap(b, w, case, lambda inner, sub, n: [("ok", inner)])
    root = not case["path"]
    ctx.cover("policy", case["policy"])
    ctx.cover("wrapped_class", model.get_at(d, _tpath(case["path"]))["c"] + ("@root" if root else "@inner"))
    ctx.cover("declared", "form=%s,length=%s" % (case["declare_form"], case["declare_length"]))

    # ---- laziness: structural queries must not call the generator when form and length are declared
    if root and case["declare_form"] and case["declare_length"]:
        for q in ("length", "typestr", "depths", "range", "field"):
            try:
                if q == "length":
                    if b.length(top) != model.length(d):
                        ctx.violation("lazy-length-differs", {"declared": model.length(d)})
                        return
                elif q == "typestr":
                    if b.typestr(top) != b.typestr(eager):
                        ctx.violation("lazy-type-differs", {"lazy": b.typestr(top), "eager": b.typestr(eager)})
                        return
                elif q == "depths":
                    le = ops.run_op(b, eager, {"op": "depths"})
                    ll = ops.run_op(b, top, {"op": "depths"})
                    if le.kind != ll.kind or (le.kind == "value" and le.value != ll.value):
                        ctx.violation("lazy-queries-differ", {"lazy": ll.brief(), "eager": le.brief()})
                        return
                elif q == "range" and n >= 2:
                    b.getitem_range(top, 1, n)
                elif q == "field":
                    ks = ops.type_keys(case["T"])
                    if ks:
                        b.getitem_field(top, ks[0])
            except AkError:
                pass
            ctx.count("laziness_probes")
            if w.calls(gid) != 0:
                ctx.violation("generator-called-for-structure", {"query": q, "calls": w.calls(gid),
                                                                 "type": gen.typestr(case["T"]), "policy": case["policy"]})
                return

    # ---- a lazily projected field describes itself like the eager field (depth queries are answered from the declared
    #      form without generating; reducers and sorts choose their path by them)
    if root:
        for k in (ops.type_keys(case["T"]) or [])[:3]:
            try:
                ef, lf = b.getitem_field(eager, k), b.getitem_field(top, k)
            except AkError:
                ctx.count("field_probe_raised_(not_compared)")
                continue
            le = ops.run_op(b, ef, {"op": "depths"})
            ll = ops.run_op(b, lf, {"op": "depths"})
            ctx.count("lazy_field_depth_probes")
            if le.kind == "value" and (ll.kind != "value" or le.value != ll.value):
                ctx.violation("lazy-queries-differ", {"op": {"op": "getitem_field+depths"}, "field": k, "lazy": ll.brief(),
                                                      "eager": le.brief(), "policy": case["policy"],
                                                      "declared": [case["declare_form"], case["declare_length"]],
                                                      "type": gen.typestr(case["T"])})
                return
            try:
                te, tl = b.typestr(ef), b.typestr(lf)
            except AkError:
                continue
            if te != tl:
                ctx.violation("lazy-type-differs", {"op": {"op": "getitem_field+type"}, "field": k, "lazy": tl, "eager": te})
                return

    cur_e, cur_l = eager, top
    if case["prefix"]:
        pe = _prefix(b, cur_e, case["prefix"])
        pl = _prefix(b, cur_l, case["prefix"])
        if (pe is None) != (pl is None):
            ctx.violation("lazy-outcome-differs", {"op": case["prefix"], "when": "prefix", "eager": pe is not None,
                                                   "lazy": pl is not None, "policy": case["policy"]})
            return
        if pe is None:
            return
        cur_e, cur_l = pe, pl
        if bv.is_virtual(b, cur_l):
            ctx.count("prefix_gave_lazier_virtual_array")
    for i, op in enumerate(case["ops"]):
        e = ops.run_op(b, cur_e, op)
        l = ops.run_op(b, cur_l, op)
        ctx.cover("op", op["op"] + (":" + op["name"] if op["op"] == "reduce" else ""))
        ctx.cover("outcome", e.kind)
        ctx.count("operations_compared")
        if not _same_outcome(ctx, case, "op %d" % i, op, e, l, w):
            return
    calls = w.calls(gid)
    ctx.nontrivial(calls > 0)
    ctx.cover("generator_calls", str(min(calls, 5)) + ("+" if calls >= 5 else ""))
    if cid is not None:
        c = w.caches[cid]
        ctx.cover("cache_events", "gets>0" if c["gets"] else "gets=0")
        for e in w.journal:
            if e[0] == "get":
                ctx.cover("cache_get", e[3])
            elif e[0] == "evict-all":
                ctx.cover("cache_get", "evict-all")
    if case["policy"] == "keep" and calls > 1:
        ctx.violation("generated-twice-despite-keeping-cache", {"calls": calls, "journal": w.journal[:12],
                                                                "ops": [o["op"] for o in case["ops"]]})
        return
    ctx.sample({"stream": "lazy", "type": gen.typestr(case["T"]), "path": case["path"], "policy": case["policy"],
                "ops": [o["op"] for o in case["ops"]], "generator_calls": calls, "journal_len": len(w.journal)}, cap=6)


def _prefix(b, h, op):
    try:
        return b.getitem_range(h, op["start"], op["stop"])
    except AkError:
        return None


TOUCH = [{"op": "tojson", "pretty": False, "nan": "NaN", "inf": "Infinity", "minf": "-Infinity", "creal": "r", "cimag": "i"},
         {"op": "validityerror"}, {"op": "deep_copy"}, {"op": "num", "axis": 0}, {"op": "carry_all"}]


def _touch(b, h, op, n):
    if op["op"] == "carry_all":
        return ops.run_op(b, h, {"op": "carry", "index": list(range(n))[::-1]})
    return ops.run_op(b, h, op)


def run_enforce(ctx, b, w, case):
    d = case["layout"]
    rng = random.Random(case["seed"])
    fault = case["fault"]
    ctx.cover("fault", fault)
    ctx.cover("policy", case["policy"])
    eager = b.build(d)
    cfg = gen.Cfg(ctx.tier)
    other = {}

    def script(inner, sub, n):
        if fault == "fail-then-ok":
            return [("fail",)] * rng.choice([1, 2]) + [("ok", inner)]
        if fault in ("short", "ok-then-short", "longer"):
            if fault == "longer":
                alt = b.mergemany(inner, [inner]) if n else None
            else:
                alt = b.getitem_range(inner, 0, n - 1) if n else None
            if alt is None:
                other["skip"] = "zero-length sub-tree"
                return [("ok", inner)]
            other["alt"] = alt
            return [("ok", inner), ("ok", alt)] if fault == "ok-then-short" else [("ok", alt)]
        # other-form: same length, another type (one more list level)
        Tsub = {"t": "list", "e": {"t": "prim", "d": "int64"}}
        alt = b.build(gen.encode(rng, Tsub, [[i] for i in range(n)], "canonical", cfg))
        f_in = b.form(inner, True)
        if b.form_equal(f_in, b.form(alt, True), True, True, False, True):     # the comparison generate_and_check makes
            alt = b.build(gen.encode(rng, {"t": "prim", "d": "bool"}, [True] * n, "canonical", cfg))
            if b.form_equal(f_in, b.form(alt, True), True, True, False, True):
                other["skip"] = "no other form found"
        other["alt"] = alt
        return [("ok", alt)]

    try:
        top, gid, cid, vh, n = _wrap(b, w, case, script)
    except AkError as e:
        # a node constructor asked the virtual content for its length and the scripted fault surfaced there
        ctx.cover("construction_over_faulty_virtual", "raised:" + e.kind)
        if not any(x[0] == "gen" for x in w.journal):
            ctx.violation("construction-raised-without-generation", {"fault": fault, "error": e.msg[:200]})
        return
    if other.get("skip"):
        ctx.count("enforce_skipped_" + other["skip"].replace(" ", "_"))
        return
    touches = [rng.choice(TOUCH) for _ in range(rng.choice([2, 3, 4]))]
    for i, op in enumerate(touches):
        calls0, j0 = w.calls(gid), len(w.journal)
        l = _touch(b, top, op, model.length(d))
        e = _touch(b, eager, op, model.length(d))
        new = w.journal[j0:]
        gens = [x for x in new if x[0] == "gen"]
        ctx.count("enforce_touches")
        if not gens:
            # the generator was not consulted: whatever is visible must be the eager value (nothing stale/partial)
            if fault in ("fail-then-ok", "ok-then-short") or w.calls(gid) == 0:
                if not _same_outcome(ctx, case, "touch %d without generation (%s)" % (i, fault), op, e, l, w):
                    return
            continue
        ctx.nontrivial(True)
        ncall = gens[-1][2]
        bad = (fault == "fail-then-ok" and gens[-1][3] == "fail") or fault in ("short", "other-form") or \
              (fault == "ok-then-short" and ncall >= 1)
        if fault == "longer":
            ctx.cover("longer_than_declared_(unspecified)", l.kind)
            continue
        if bad:
            ctx.cover("mismatch_reported_as", l.kind + (":" + str(l.err) if l.kind == "error" else ""))
            if l.kind != "error":
                ctx.violation("mismatch-not-enforced", {"fault": fault, "touch": op["op"], "lazy": l.brief(),
                                                        "eager": e.brief(), "policy": case["policy"],
                                                        "path": case["path"], "journal": new[:8],
                                                        "declared": [case["declare_form"], case["declare_length"]]})
                return
            k = gens[-1]
            after = new[new.index(k) + 1:]
            if any(x[0] == "set" for x in after):
                ctx.violation("failed-generation-was-cached", {"fault": fault, "touch": op["op"], "journal": new[:10]})
                return
        else:
            if not _same_outcome(ctx, case, "touch %d after faults stopped (%s)" % (i, fault), op, e, l, w):
                return
            ctx.count("recovered_after_fault")
    ctx.sample({"stream": "enforce", "fault": fault, "policy": case["policy"], "path": case["path"],
                "touches": [t["op"] for t in touches], "generator_calls": w.calls(gid)}, cap=6)


# ---------------------------------------------------------------------------------------------------------------------

def _splits(n, k):
    """all non-decreasing stop vectors of k partitions of n items"""
    for cuts in itertools.combinations_with_replacement(range(n + 1), k - 1):
        yield list(cuts) + [n]


def run_part(ctx, b, case):
    rng = random.Random(case["seed"])
    stops = case["stops"]
    hs = [b.build(p) for p in case["parts"]]
    vals = []
    for p in case["parts"]:
        vals.extend(model.value(p))
    n = len(vals)
    ctx.nontrivial(n > 0 and len(stops) > 1)
    ctx.cover("numpartitions", str(len(stops)))
    ctx.cover("empty_partitions", str(sum(1 for i, s in enumerate(stops) if s == (stops[i - 1] if i else 0))))
    P = bv.Partitioned.new(b, hs, stops)
    det = {"stops": stops, "n": n, "type": gen.typestr(case["T"])}
    if P.length() != n or P.numpartitions() != len(stops):
        ctx.violation("partition-length", dict(det, length=P.length(), numpartitions=P.numpartitions()))
        return
    for i in range(len(stops)):
        if P.stop(i) != stops[i] or P.start(i) != (stops[i - 1] if i else 0):
            ctx.violation("partition-start-stop", dict(det, i=i, start=P.start(i), stop=P.stop(i)))
            return
    # ---- getitem_at: every index
    for at in range(-n - 2, n + 2):
        try:
            out = ops.read(b, P.getitem_at(at))
        except AkError as e:
            out = ops.Outcome("error", err=e.kind, msg=e.msg)
        ctx.count("partition_getitem_at")
        if -n <= at < n:
            if out.kind != "value" or not model.same(out.value, vals[at]):
                ctx.violation("partition-getitem-at", dict(det, at=at, expected=model.brief(vals[at]), got=out.brief()))
                return
        elif out.kind != "error":
            ctx.violation("partition-getitem-at-out-of-range-accepted", dict(det, at=at, got=out.brief()))
            return
    # ---- getitem_range: a cube crossing the boundaries
    edge = sorted(set([0, 1, n - 1, n, n + 3, -1, -n, -n - 2] + stops + [s - 1 for s in stops] + [-s for s in stops]))
    edge = [None] + [x for x in edge if -n - 3 <= x <= n + 3]
    steps = [None, 1, 2, 3, 5, -1, -2, -3, 0]
    probes = [(a, c, s) for a in edge for c in edge for s in steps] if ctx.tier == "thorough" and n <= 7 else \
             [(rng.choice(edge), rng.choice(edge), rng.choice(steps)) for _ in range(40)]
    for a, c, s in probes:
        ctx.count("partition_getitem_range")
        try:
            Q = P.getitem_range(a, c, s)
            got = Q.values()
            lens, qstops = Q.partition_lengths(), Q.stops()
            kind = "value"
        except AkError as e:
            kind, got = "error", e.msg[:120]
        if s == 0:
            if kind != "error":
                ctx.violation("partition-range-step-zero-accepted", dict(det, slice=[a, c, s]))
                return
            continue
        exp = vals[slice(a, c, s)]
        if kind != "value" or not model.same(got, exp):
            ctx.violation("partition-getitem-range", dict(det, slice=[a, c, s], expected=model.brief(exp, 300),
                                                          got=model.brief(got, 300) if kind == "value" else got))
            return
        acc, want = 0, []
        for x in lens:
            acc += x
            want.append(acc)
        if qstops != want:
            ctx.violation("partition-range-stops-inconsistent", dict(det, slice=[a, c, s], stops=qstops, lengths=lens))
            return
        ctx.cover("range_result_partitions", str(min(len(lens), 5)))
    # ---- repartition
    k2s = [1, 2, 3, 4] if ctx.tier == "thorough" else [rng.choice([1, 2, 3, 4])]
    for k2 in k2s:
        allsp = list(_splits(n, k2))
        for new in (allsp if (ctx.tier == "thorough" and n <= 6) else [rng.choice(allsp) for _ in range(3)]):
            ctx.count("partition_repartition")
            try:
                R = P.repartition(new)
                got, lens = R.values(), R.partition_lengths()
            except AkError as e:
                ctx.violation("partition-repartition-raised", dict(det, new=new, error=e.msg[:200]))
                return
            want = [new[i] - (new[i - 1] if i else 0) for i in range(len(new))]
            if not model.same(got, vals) or lens != want or R.stops() != new:
                ctx.violation("partition-repartition", dict(det, new=new, lengths=lens, expected=model.brief(vals, 300),
                                                            got=model.brief(got, 300)))
                return
    # ---- tojson: the partitions' documents, concatenated (each partition rendered by the same writer on its own, so
    #      what the writer does with NaN, bytes or large unsigned numbers is not this property's business - C15)
    try:
        want = []
        for h in hs:
            want.extend(json.loads(b.tojson(h, False, -1)))
        txt = P.tojson(False, -1)
        doc = json.loads(txt)
    except (AkError, ValueError):
        ctx.count("partition_tojson_not_comparable")
    else:
        ctx.count("partition_tojson")
        if doc != want and json.dumps(doc, sort_keys=True) != json.dumps(want, sort_keys=True):
            ctx.violation("partition-tojson", dict(det, got=txt[:300], expected=json.dumps(want)[:300]))
            return
    ctx.sample({"stream": "part", "type": gen.typestr(case["T"]), "stops": stops, "n": n}, cap=6)


def _leaves(v):
    if isinstance(v, (list, tuple)):
        for x in v:
            for y in _leaves(x):
                yield y
    elif isinstance(v, dict):
        for x in v.values():
            for y in _leaves(x):
                yield y
    else:
        yield v


def signature(vio):
    det = vio.get("detail") or {}
    op = det.get("op") or {}
    if isinstance(op, dict) and op.get("op"):
        return "%s:%s" % (vio["kind"], op.get("op"))
    return None


def classify(vio):
    from vlib import known
    return known.classify(vio)


if __name__ == "__main__":
    from vlib import runner
    sys.exit(runner.main(sys.modules[__name__]))
