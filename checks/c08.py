"""C08 - concatenation keeps every element; merging and simplifying never change a value (lane L).

  mergemany   : value(mergemany([a, b, ...])) == value(a) + value(b) + ...; identical types stay one type; numeric
                leaves promote as numpy.concatenate promotes
  simplify    : shallow_simplify / simplify_optiontype / simplify_uniontype leave the value unchanged
  astype      : numbers_to_type changes every numeric leaf as numpy.astype does and nothing else
(ak.concatenate(axis >= 1) and ak.values_astype live in the Python layer - lane P.)
"""
from __future__ import print_function

import sys

import numpy as np

from vlib import gen, model, ops, oracles, check_common as cc

PROPERTY = "C08"
LEVEL = "exploration"
RULE = ("streams: (a) 2-4 operands of the same type in independent encodings (incl. empty arrays and unknown-type "
        "EmptyArray); (b) operands whose numeric leaves differ in dtype (all pairs over bool/int/uint/float/complex); "
        "(c) operands of different types (union results); (d) simplify_* on option/union layouts; (e) numbers_to_type "
        "to each numeric dtype; non-trivial = total length > 0; distinct = SHA-1 of the case descriptor; the "
        "(class of self x class of other) merge matrix is recorded in coverage.maps.merge_matrix")
VARIANTS = {"quick": ["asan"], "thorough": ["asan"]}
BUDGET = {"quick": dict(cases=120000, seconds=55), "thorough": dict(cases=1500000, seconds=1200)}
MIN_NONTRIVIAL = {"quick": 2000, "thorough": 30000}
ASSUMPTIONS = ["numpy.concatenate / numpy.astype are the references for promotion and casting",
               "bool merged with numbers is the documented `mergebool` exception: only the value law is asserted"]

NUM = ["bool"] + gen.INT_DTYPES + gen.FLOAT_DTYPES + gen.COMPLEX_DTYPES


def _retype(T, dtype):
    t = T["t"]
    if t == "prim":
        return dict(T, d=dtype)
    out = dict(T)
    if "e" in T:
        out["e"] = _retype(T["e"], dtype)
    if "fields" in T:
        out["fields"] = [_retype(f, dtype) for f in T["fields"]]
    return out


def _permute_fields(rng, d):
    """reorder (keys, contents) of every named RecordArray with >= 2 fields in place -> whether anything moved"""
    moved = False
    for _p, n in model.walk(d):
        if n["c"] == "RecordArray" and n.get("keys") is not None and len(n["contents"]) >= 2:
            order = list(range(len(n["contents"])))
            rng.shuffle(order)
            if order != sorted(order):
                n["keys"] = [n["keys"][i] for i in order]
                n["contents"] = [n["contents"][i] for i in order]
                moved = True
    return moved


def _keysorted(v):
    if isinstance(v, dict):
        return {k: _keysorted(v[k]) for k in sorted(v)}
    if isinstance(v, list):
        return [_keysorted(x) for x in v]
    if isinstance(v, tuple):
        return tuple(_keysorted(x) for x in v)
    return v


def gen_case(rng, tier, index):
    if index % 9 == 8:         # the Python-only half of the property (lane P)
        from checks import pstreams
        return pstreams.gen_p(rng, tier, PROPERTY)
    stream = ["same", "same", "promote", "different", "simplify", "astype"][index % 6]
    cfg = gen.Cfg(tier, categorical=False, unions=(stream in ("different", "simplify")), strings=True)
    cfg.dtypes = ["bool"] + gen.INT_DTYPES + gen.FLOAT_DTYPES + gen.COMPLEX_DTYPES + ["datetime64[s]"]
    cfg.nan = False
    case = {"stream": stream}
    if stream in ("same", "promote", "different"):
        if stream == "promote":
            cfg.records = False
            cfg.unions = False
            cfg.strings = False
            cfg.dtypes = NUM
            T = gen.gen_type(rng, cfg)
            d1, d2 = rng.choice(NUM), rng.choice(NUM)
            Ts = [_retype(T, d1), _retype(T, d2)]
            case["dtypes"] = [d1, d2]
        elif stream == "same":
            T = gen.gen_type(rng, cfg)
            Ts = [T] * rng.choice([2, 2, 3, 4])
        else:
            Ts = [gen.gen_type(rng, cfg) for _ in range(rng.choice([2, 2, 3]))]
        layouts = []
        for i, Ti in enumerate(Ts):
            if stream == "same" and i > 0 and rng.random() < 0.12:
                layouts.append({"c": "EmptyArray", "params": {}})
                continue
            n = rng.choice([0, 1, 2, 3, 4])
            vals = gen.gen_values(rng, Ti, n, cfg)
            layouts.append(gen.encode(rng, Ti, vals, "random", cfg))
            if i > 0 and stream in ("same", "promote") and rng.random() < 0.4 and _permute_fields(rng, layouts[-1]):
                case["permuted"] = True       # the same record type with its fields stored in another order
        case["T"] = Ts[0]
        case["layout"] = layouts[0]
        case["op"] = {"op": "mergemany", "others": layouts[1:]}
        return case
    if stream == "simplify" and index % 12 < 6:
        # a union directly containing a union (the input simplify_uniontype exists for), inner arms mergeable with
        # outer ones or not
        leaf = [gen.P(rng.choice(["int64", "int32", "float64", "float32", "bool", "uint8"])),
                gen.P(rng.choice(["int64", "float64", "complex128", "bool"])), {"t": "string"},
                {"t": "list", "e": gen.P(rng.choice(["int64", "float64"]))},
                {"t": "option", "e": gen.P("int64")}]
        rng.shuffle(leaf)
        inner = {"t": "union", "arms": leaf[:rng.choice([2, 2, 3])]}
        outer_arms = leaf[3:3 + rng.choice([1, 2])] + [gen.P(rng.choice(["float64", "int64"]))]
        pos = rng.randrange(len(outer_arms) + 1)
        T = {"t": "union", "arms": outer_arms[:pos] + [inner] + outer_arms[pos:]}
        n = rng.choice([0, 1, 3, 5, 8])
        vals = gen.gen_values(rng, T, n, cfg)
        d = gen.encode(rng, T, vals, "random", cfg)
        case["T"], case["layout"], case["nested"] = T, d, True
        case["op"] = {"op": "simplify_uniontype" if T["t"] == "union" else "flatten", "merge": rng.random() < 0.8,
                      "mergebool": rng.random() < 0.3, "axis": 1}
        return case
    if stream == "simplify":
        T, vals, d = gen.layout(rng, cfg)
        case["T"], case["layout"] = T, d
        case["op"] = {"op": rng.choice(["shallow_simplify", "simplify_optiontype", "simplify_uniontype"]),
                      "merge": True, "mergebool": rng.random() < 0.3}
        return case
    cfg.strings = rng.random() < 0.3
    cfg.dtypes = NUM
    T, vals, d = gen.layout(rng, cfg)
    case["T"], case["layout"] = T, d
    case["op"] = {"op": "numbers_to_type", "name": rng.choice(NUM)}
    return case


def _cast(v, T, name):
    """model of numbers_to_type on the model value: every numeric leaf becomes numpy.astype(name)"""
    t = T["t"]
    if v is None:
        return None
    if t == "prim":
        src = np.dtype(T["d"])
        if src.kind in "Mm":
            return v
        dst = np.dtype(name)
        if src.kind in "fc" and dst.kind in "iu":
            r = complex(v).real
            info = np.iinfo(dst)
            if r != r or r in (float("inf"), float("-inf")) or r < info.min or r > info.max or \
                    (r < 0 and dst.kind == "u"):
                raise oracles.NoOpinion("out-of-range float to integer cast is implementation-defined")
        with np.errstate(all="ignore"):
            x = np.array([v], dtype=src).astype(dst)[0]
        return model.scalar_value(x, np.dtype(name))
    if t in ("list", "regular"):
        return [_cast(x, T["e"], name) for x in v]
    if t in ("option", "categorical"):
        return _cast(v, T["e"], name)
    if t == "record":
        if T["keys"] is None:
            return tuple(_cast(x, f, name) for x, f in zip(v, T["fields"]))
        return dict((k, _cast(v[k], f, name)) for k, f in zip(T["keys"], T["fields"]))
    return v


def run_case(ctx, case):
    if case.get("lane") == "P":
        from checks import pstreams
        return pstreams.run_p(ctx, case)
    b = ctx.lib
    d = case["layout"]
    op = case["op"]
    stream = case["stream"]
    h = b.build(d)
    v = model.value(d)
    ctx.cover("stream", stream)
    if op["op"] == "mergemany":
        vs = [v] + [model.value(o) for o in op["others"]]
        total = sum(len(x) for x in vs)
        ctx.nontrivial(total > 0)
        for o in op["others"]:
            ctx.cover("merge_matrix", "%s%s x %s%s" % (d["c"], d.get("w", ""), o["c"], o.get("w", "")))
        out = ops.run_op(b, h, op)
        exp = [x for part in vs for x in part]
        if out.kind == "error":
            if stream == "different" or (stream == "promote" and "bool" in case["dtypes"]):
                ctx.cover("different_types_outcome", "error:" + str(out.err))     # refusing to merge is allowed
                return
            ctx.violation("unexpected-error", {"op": {"op": "mergemany"}, "got": out.brief(),
                                               "operands": [model.brief(x, 150) for x in vs]})
            return
        rel = 1e-6
        if case.get("permuted"):
            ctx.count("operands_with_permuted_record_fields")
            got_v, exp = _keysorted(out.value), _keysorted(exp)      # fields are matched by name, whatever their order
        else:
            got_v = out.value
        if not model.same(got_v, exp, rel=rel):
            ctx.violation("wrong-value", {"op": {"op": "mergemany"}, "expected": model.brief(exp, 400),
                                          "got": out.brief(), "operands": [model.brief(x, 150) for x in vs]})
            return
        ctx.count("values_agree")
        if stream == "same":
            types = set()
            for dd in [d] + op["others"]:
                if dd["c"] != "EmptyArray":
                    types.add(b.typestr(b.build(dd)))
            if len(types) == 1 and (out.type or "").startswith("union["):
                ctx.violation("type-became-union", {"op": {"op": "mergemany"}, "operand_type": sorted(types)[0],
                                                    "result_type": out.type})
            elif len(types) == 1 and out.type not in types:
                ctx.count("same_type_operands_merged_into_another_single_type(regular->var)")
        if stream == "promote" and "bool" not in case["dtypes"] and out.desc is not None:
            want = np.concatenate([np.zeros(1, np.dtype(case["dtypes"][0])),
                                   np.zeros(1, np.dtype(case["dtypes"][1]))]).dtype.name
            got = sorted(set(n["dtype"] for _p, n in model.walk(out.desc) if n["c"] == "NumpyArray"
                             and model.param(n, "__array__") is None))
            ctx.cover("promotion", "%s+%s->%s" % (case["dtypes"][0], case["dtypes"][1], ",".join(got)))
            if total > 0 and got and got != [want]:
                ctx.violation("wrong-promotion", {"op": {"op": "mergemany"}, "dtypes": case["dtypes"],
                                                  "numpy": want, "got": got})
        ctx.sample({"stream": stream, "operands": [model.brief(x, 100) for x in vs], "out": out.brief()})
        return
    ctx.nontrivial(len(v) > 0)
    out = ops.run_op(b, h, op)
    ctx.cover("op", op["op"])
    if op["op"] == "numbers_to_type":
        cc.compare(ctx, case, out, lambda: [_cast(x, case["T"], op["name"]) for x in v] if _castable(case["T"]) else _no(), rel=0.0)
    else:
        if out.kind == "error" and "bridge: class has no" in (out.msg or ""):
            ctx.cover("oracle", "not-offered-by-class")
            return
        if op["op"] == "flatten":
            cc.compare(ctx, case, out, lambda: [y for x in v for y in x])
        else:
            cc.compare(ctx, case, out, lambda: v)
        if case.get("nested") and out.kind == "value" and out.handle is not None:
            ctx.count("nested_unions_simplified")
            ve = b.validityerror(out.handle)
            if ve != "":
                ctx.violation("invalid-result", {"op": op, "validityerror": ve[:300]})
    ctx.sample({"stream": stream, "op": op, "type": gen.typestr(case["T"]), "out": out.brief()}, cap=6)


def _no():
    raise oracles.NoOpinion("type contains unions/strings")


def _castable(T):
    t = T["t"]
    if t in ("union", "string", "bytes", "unknown", "categorical"):
        return False
    if t == "prim":
        return np.dtype(T["d"]).kind not in "Mm"
    if "e" in T:
        return _castable(T["e"])
    if "fields" in T:
        return all(_castable(f) for f in T["fields"])
    return True


def classify(vio):
    from vlib import known
    return known.classify(vio)


def signature(vio):
    det = vio.get("detail") or {}
    op = det.get("op") or {}
    return "%s:%s" % (vio["kind"], op.get("op"))


if __name__ == "__main__":
    from vlib import runner
    sys.exit(runner.main(sys.modules[__name__]))
