"""C06 - sort/argsort order every list along the axis without moving data between lists (lane L).

Predicates per group along the axis (for the innermost axis a group is a list; for an outer axis it is the set of
elements that agree on every coordinate but the sorted one): same coordinates before and after, multiset of
non-missing elements preserved, None last, NaN first (both directions), the rest monotone; argsort is a permutation
of the group's own coordinates that, applied to the group, gives a sorted group, and is stable when asked.
"""
from __future__ import print_function

import sys

from vlib import gen, model, ops, oracles, check_common as cc

PROPERTY = "C06"
LEVEL = "exploration"
RULE = ("cases are (layout, sort|argsort, axis, ascending, stable) with bool / every integer width / float32/64 "
        "leaves (many ties, +-0.0, +-inf, NaN runs), options at the leaf level, missing lists above the axis, empty "
        "lists, every list encoding, plus lists of strings; 75% innermost axis, 25% outer axes; non-trivial = some "
        "group along the axis has >= 2 elements; distinct = SHA-1 of the case descriptor")
VARIANTS = {"quick": ["asan"], "thorough": ["asan"]}
BUDGET = {"quick": dict(cases=120000, seconds=50), "thorough": dict(cases=1500000, seconds=900)}
MIN_NONTRIVIAL = {"quick": 2000, "thorough": 30000}
ASSUMPTIONS = ["NaN-first / None-last is the library's stated convention (property text)",
               "strings are ordered by their UTF-8 bytes"]


def gen_case(rng, tier, index):
    strings = index % 6 == 5
    cfg = cc.uniform_cfg(tier)
    cfg.dtypes = ["bool"] + gen.INT_DTYPES + gen.FLOAT_DTYPES
    cfg.extremes = rng.random() < 0.5
    if strings:
        depth = rng.choice([0, 1, 1])
        T = {"t": "string"}
        if rng.random() < 0.3:
            T = {"t": "option", "e": T}
        for _ in range(depth):
            T = {"t": "list", "e": T}
        n = rng.randint(0, 6)
        vals = gen.gen_values(rng, T, n, cfg)
        d = gen.encode(rng, T, vals, "random", cfg)
        axis = -1
    else:
        T, vals, d = gen.layout(rng, cfg, min_depth=2 if rng.random() < 0.85 else None)
        hi = gen.depth_of(T)[1]
        if rng.random() < 0.75:
            axis = rng.choice([-1, hi - 1])
        else:
            axis = ops.gen_axis(rng, T, wild=0.0)
    op = {"op": rng.choice(["sort", "argsort"]), "axis": axis, "ascending": rng.random() < 0.6,
          "stable": rng.random() < 0.5}
    return {"T": T, "layout": d, "op": op, "strings": strings}


def run_case(ctx, case):
    b = ctx.lib
    d = case["layout"]
    v = model.value(d)
    op = case["op"]
    T = case["T"]
    hi = gen.depth_of(T)[1]
    k = op["axis"] if op["axis"] >= 0 else hi + op["axis"]
    h = b.build(d)
    out = ops.run_op(b, h, op)
    ctx.cover("op", "%s/%s/%s" % (op["op"], "asc" if op["ascending"] else "desc", "stable" if op["stable"] else "unstable"))
    ctx.cover("axis_kind", "innermost" if k == hi - 1 else "outer")
    ctx.cover("leaf", "string" if case["strings"] else _leaf(T))
    for c in model.classes(d):
        ctx.cover("input_classes", c)
    try:
        gin = oracles.groups(v, hi, k)
    except oracles.Refuse:
        return
    ctx.nontrivial(any(len(g) >= 2 for g in gin.values()))
    if out.kind == "error":
        ctx.violation("unexpected-error", {"op": op, "got": out.brief(), "input": model.brief(v, 400)})
        return
    if out.value == "" and v == []:
        out.value = []       # an empty list of strings comes back as an empty character array
    try:
        gout = oracles.groups(out.value, hi, k)
    except Exception as e:
        ctx.violation("sort-predicate", {"op": op, "why": "result does not have the input's depth: %r" % (e,),
                                         "input": model.brief(v, 400), "got": out.brief()})
        return
    why = None
    if oracles.skeleton(v, hi - 1) != oracles.skeleton(out.value, hi - 1) and k == hi - 1:
        why = "structure above the sorted level changed"
    elif sorted(gin) != sorted(gout):
        why = "groups along the axis changed"
    else:
        for key in gin:
            a, o = gin[key], gout[key]
            if [c for c, _ in a] != [c for c, _ in o]:
                why = "coordinates of a group changed"
                break
            before = [x for _, x in a]
            after = [x for _, x in o]
            if op["op"] == "sort":
                why = oracles.sorted_ok(before, after, op["ascending"])
            else:
                cs = [c for c, _ in a]
                if any((p is None or p not in cs) for p in after):
                    why = "position outside the group's coordinates"
                else:
                    pos = [cs.index(p) for p in after]
                    why = oracles.argsort_ok(before, pos, op["ascending"], op["stable"])
            if why:
                why = "%s (group %r: %s -> %s)" % (why, key, model.brief(before, 120), model.brief(after, 120))
                break
    if why:
        ctx.violation("sort-predicate", {"op": op, "why": why, "input": model.brief(v, 400), "got": out.brief()})
    else:
        ctx.count("groups_checked", len(gin))
    ctx.sample({"type": gen.typestr(T), "op": op, "input": model.brief(v, 200), "out": out.brief()})


def _leaf(T):
    while T["t"] in ("list", "regular", "option"):
        T = T["e"]
    return T.get("d", T["t"])


def classify(vio):
    from vlib import known
    return known.classify(vio)


def signature(vio):
    det = vio.get("detail") or {}
    if vio["kind"] == "sort-predicate":
        import re
        return "sort-predicate:%s:%s" % (det.get("op", {}).get("op"), re.sub(r"\(group.*", "", det.get("why", ""))[:60])
    return None


if __name__ == "__main__":
    from vlib import runner
    sys.exit(runner.main(sys.modules[__name__]))
