"""C09 - missing values: pad, fill, and the five option encodings are interchangeable (lane L).

  rpad / rpad_and_clip : every list at the axis gets length max(len, target) / exactly target, None appended
  fillna               : exactly the None entries of the option level are replaced
  encodings            : bytemask / project / toIndexedOptionArray64 / toByteMaskedArray / simplify_optiontype
                         preserve the value (resp. select exactly the valid entries) for all five option encodings,
                         incl. bit masks with length % 8 != 0, both bit orders and polarities, random spare bits
(ak.is_none / ak.mask / ak.firsts / ak.singletons live in the Python layer - lane P.)
"""
from __future__ import print_function

import sys

from vlib import gen, model, ops, oracles, check_common as cc

PROPERTY = "C09"
LEVEL = "exploration"
RULE = ("three streams: (a) rpad/rpad_and_clip with target in {0,1,2,3,5} x every legal axis on layouts with options at "
        "any level; (b) fillna on option arrays in each encoding; (c) the option-encoding conversions on a forced "
        "encoding (IndexedOption32/64, ByteMasked, BitMasked lsb/msb x polarity, Unmasked); non-trivial = length > 0; "
        "distinct = SHA-1 of the case descriptor")
VARIANTS = {"quick": ["asan"], "thorough": ["asan"]}
BUDGET = {"quick": dict(cases=150000, seconds=50), "thorough": dict(cases=1500000, seconds=900)}
MIN_NONTRIVIAL = {"quick": 2000, "thorough": 30000}
ASSUMPTIONS = ["bytemask() marks missing entries with a non-zero byte (documented in ByteMaskedArray.h)"]

ENC = ["IndexedOptionArray", "ByteMaskedArray", "BitMaskedArray", "UnmaskedArray"]
CONV = ["bytemask", "project", "toIndexedOptionArray64", "toByteMaskedArray", "simplify_optiontype"]


def gen_case(rng, tier, index):
    if index % 9 == 8:         # the Python-only half of the property (lane P)
        from checks import pstreams
        return pstreams.gen_p(rng, tier, PROPERTY)
    stream = ["rpad", "fillna", "encodings"][index % 3]
    if stream == "rpad":
        cfg = cc.uniform_cfg(tier) if index % 4 else gen.Cfg(tier, unions=False, strings=False, categorical=False)
        cfg.p_none = 0.3
        T, vals, d = gen.layout(rng, cfg, min_depth=2 if rng.random() < 0.8 else None)
        nlev, branches = cc.levels_above_branch(T)
        hi = gen.depth_of(T)[1]
        axis = rng.randint(0, nlev - 1) if branches else ops.gen_axis(rng, T, wild=0.05)
        op = {"op": "rpad", "target": rng.choice([0, 1, 2, 3, 5]), "axis": axis, "clip": rng.random() < 0.5}
        na = cc.maybe_negaxis(rng, T)
        if na:
            return {"stream": stream, "T": T, "layout": d, "op": dict(op, axis=na[0]), "negaxis": na[1], "depth": None,
                    "nlev": nlev}
        return {"stream": stream, "T": T, "layout": d, "op": op, "depth": None if branches else hi, "nlev": nlev}
    cfg = cc.uniform_cfg(tier, options=False)
    inner = gen.gen_type(rng, cfg, depth=1)
    force = rng.choice(ENC)
    T = {"t": "option", "e": inner, "force": force}
    n = rng.choice([0, 1, 2, 3, 5, 7, 8, 9, 13])
    cfg2 = cc.uniform_cfg(tier, options=False, p_none=0.0 if force == "UnmaskedArray" else rng.choice([0.2, 0.5, 0.9]))
    vals = gen.gen_values(rng, T, n, cfg2)
    if force == "UnmaskedArray":
        vals = [x for x in vals if x is not None]
    d = gen.encode(rng, T, vals, "random", cfg2)
    if stream == "fillna":
        op = {"op": "fillna", "value": rng.choice([0, -1, 3.5, 99])}
    else:
        op = {"op": rng.choice(CONV)}
    return {"stream": stream, "T": T, "layout": d, "op": op, "force": force}


def run_case(ctx, case):
    if case.get("lane") == "P":
        from checks import pstreams
        return pstreams.run_p(ctx, case)
    b = ctx.lib
    d = case["layout"]
    v = model.value(d)
    op = case["op"]
    h = b.build(d)
    out = ops.run_op(b, h, op)
    ctx.cover("stream", case["stream"])
    ctx.cover("op", op["op"] + ("/clip" if op.get("clip") else ""))
    for k in model.classes(d):
        ctx.cover("input_classes", k)
    ctx.nontrivial(len(v) > 0)
    if "negaxis" in case:
        return cc.check_negaxis(ctx, b, h, case, out)
    if case["stream"] == "rpad":
        depth = case["depth"] if case["depth"] is not None else case["nlev"] + 50
        cc.compare(ctx, case, out, lambda: oracles.rpad(v, op["target"], op["axis"], op["clip"], depth),
                   refusal_required=False)
    elif case["stream"] == "fillna":
        if _leaf_numeric(case["T"]["e"]):
            cc.compare(ctx, case, out, lambda: oracles.fill_top(v, op["value"]))
        else:
            # filling lists with a number gives a union; the value law is the same
            cc.compare(ctx, case, out, lambda: oracles.fill_top(v, op["value"]))
    else:
        top = d["c"]
        ctx.cover("encoding_x_conversion", "%s%s x %s" % (top, _bits(d), op["op"]))
        name = op["op"]
        if out.kind == "error" and "bridge: class has no" in (out.msg or ""):
            ctx.cover("oracle", "conversion-not-offered-by-class")
            return
        if name == "bytemask":
            if out.kind == "value":
                out.value = [1 if x else 0 for x in out.value]      # any non-zero byte marks a missing entry
            cc.compare(ctx, case, out, lambda: [1 if x is None else 0 for x in v])
        elif name == "project":
            cc.compare(ctx, case, out, lambda: [x for x in v if x is not None])
        else:
            cc.compare(ctx, case, out, lambda: v)
    ctx.sample({"stream": case["stream"], "type": gen.typestr(case["T"]), "op": op, "out": out.brief()})


def _bits(d):
    if d["c"] == "BitMaskedArray":
        return "(%s,%s,len%%8=%d)" % ("lsb" if d["lsb_order"] else "msb", "valid1" if d["valid_when"] else "valid0",
                                     d["length"] % 8)
    if d["c"] == "ByteMaskedArray":
        return "(valid%d)" % (1 if d["valid_when"] else 0)
    return d.get("w", "")


def _leaf_numeric(T):
    return T["t"] == "prim"


def classify(vio):
    from vlib import known
    return known.classify(vio)


def signature(vio):
    if vio["kind"] == "negative-axis-differs":
        return cc.negaxis_signature(vio)
    det = vio.get("detail") or {}
    op = det.get("op") or {}
    return "%s:%s" % (vio["kind"], op.get("op")) if vio["kind"] in ("wrong-value", "unexpected-error", "missing-error") else None


if __name__ == "__main__":
    from vlib import runner
    sys.exit(runner.main(sys.modules[__name__]))
