"""C15 - JSON output parses back to the array's value; JSON input builds what it says (lane L).

  output : json.loads(tojson(layout)) == the model value mapped to JSON (records -> objects, tuples -> objects keyed
           "0","1",.., strings -> strings, None -> null, NaN/inf -> the chosen strings, complex -> {real, imag}) for
           ToJsonString, ToJsonPrettyString and ToJsonFile/PrettyFile with several buffer sizes
  input  : FromJsonString/File(text) has the same value and type as an ArrayBuilder fed with the events of Python's
           json scan of the same text (from_iter(json.loads(text))), for whitespace/number/escape variants and 1-4
           concatenated documents; file reads use buffer sizes that make tokens straddle refills
  faults : for each base text EVERY truncation point and, at every position, each of a fixed set of corruptions is
           classified by a strict RFC 8259 sequence reader: valid sequences must give the reference result, anything
           else must raise and never return an array
RapidJSON itself is replaced by a stand-in in this sandbox: the check decides the repository-owned half (tojson_part
emission, the SAX Handler, do_parse's multi-document / incomplete-vs-invalid logic, NaN/Inf/complex conversions).
"""
from __future__ import print_function

import json
import math
import os
import random
import sys
import tempfile

from vlib import gen, model, bridge_ext
from vlib.bridge import AkError

PROPERTY = "C15"
LEVEL = "fault_enumeration"
EXHAUSTIVE = True
RULE = ("three streams: (out) generated layouts rendered by the four writers; (in) JSON texts from a grammar with "
        "whitespace/number/escape variants and 1-4 concatenated documents; (fault) for a base text every prefix and, "
        "at every position, every corruption in {delete, duplicate, swap, replace by one of '{}[],:\"\\\\0x'} - "
        "exhaustive over positions for the chosen base text; non-trivial = text or layout not empty; distinct = SHA-1 "
        "of the case descriptor (a fault case = one base text with all its mutations)")
VARIANTS = {"quick": ["asan"], "thorough": ["asan"]}
BUDGET = {"quick": dict(cases=6000, seconds=60), "thorough": dict(cases=200000, seconds=1500)}
MIN_NONTRIVIAL = {"quick": 600, "thorough": 10000}
ASSUMPTIONS = ["the RapidJSON stand-in (shim/rapidjson) reproduces RapidJSON's documented event selection and strictness; "
               "number rounding is the stand-in's (strtod) and is not attributed to the repository",
               "Python's json module (strict, constants rejected) applied greedily is the reference sequence reader",
               "texts with integers outside int64, duplicate keys or lone surrogate escapes are outside the statement's "
               "domain and are skipped (counted)"]

CORRUPT = list("{}[],:\"\\0x")


# ------------------------------------------------------------------ mapping model values to JSON

def to_jsonable(v, nan="NaN", inf="Infinity", minf="-Infinity", creal="real", cimag="imag"):
    if isinstance(v, list):
        return [to_jsonable(x, nan, inf, minf, creal, cimag) for x in v]
    if isinstance(v, tuple):
        return dict((str(i), to_jsonable(x, nan, inf, minf, creal, cimag)) for i, x in enumerate(v))
    if isinstance(v, dict):
        return dict((k, to_jsonable(x, nan, inf, minf, creal, cimag)) for k, x in v.items())
    if isinstance(v, complex):
        return {creal: to_jsonable(v.real, nan, inf, minf), cimag: to_jsonable(v.imag, nan, inf, minf)}
    if isinstance(v, float):
        if v != v:
            return nan
        if v == float("inf"):
            return inf
        if v == float("-inf"):
            return minf
    return v


def json_same(a, b):
    if isinstance(a, dict) or isinstance(b, dict):
        return isinstance(a, dict) and isinstance(b, dict) and sorted(a) == sorted(b) and \
            all(json_same(a[k], b[k]) for k in a)
    if isinstance(a, list) or isinstance(b, list):
        return isinstance(a, list) and isinstance(b, list) and len(a) == len(b) and \
            all(json_same(x, y) for x, y in zip(a, b))
    if isinstance(a, bool) or isinstance(b, bool):
        return a is b or (isinstance(a, bool) and isinstance(b, bool) and a == b)
    if isinstance(a, (int, float)) and isinstance(b, (int, float)):
        return a == b
    return type(a) == type(b) and a == b


# ------------------------------------------------------------------ reference sequence reader

class OutOfDomain(Exception):
    pass


def _reject_constant(name):
    raise ValueError("constant " + name)


def _no_dups(pairs):
    keys = [k for k, _ in pairs]
    if len(set(keys)) != len(keys):
        raise OutOfDomain("duplicate keys")
    return dict(pairs)


def _int(s):
    x = int(s)
    if not (-(1 << 63) <= x < (1 << 63)):
        raise OutOfDomain("integer outside int64")
    return x


def _float(s):
    x = float(s)
    if math.isinf(x):
        raise OutOfDomain("float overflows a double")
    return x


DEC = json.JSONDecoder(strict=True, parse_constant=_reject_constant, object_pairs_hook=_no_dups, parse_int=_int,
                       parse_float=_float)
WS = " \t\n\r"


def ref_sequence(text):
    """-> list of documents, or raises ValueError (not a sequence of JSON values) / OutOfDomain"""
    if "\\ud" in text.lower() or "\\uD" in text:
        raise OutOfDomain("surrogate escapes")
    docs = []
    i, n = 0, len(text)
    while True:
        while i < n and text[i] in WS:
            i += 1
        if i >= n:
            break
        doc, j = DEC.raw_decode(text, i)
        docs.append(doc)
        i = j
    return docs


def ref_array(b, docs, nan=None, inf=None, minf=None):
    """what from_iter(json.loads(text)) builds, through the library's own ArrayBuilder (not the code under test)"""
    def conv(x):
        if isinstance(x, list):
            return [conv(y) for y in x]
        if isinstance(x, dict):
            return dict((k, conv(v)) for k, v in x.items())
        if isinstance(x, str):
            if nan is not None and x == nan:
                return float("nan")
            if inf is not None and x == inf:
                return float("inf")
            if minf is not None and x == minf:
                return float("-inf")
        return x
    B = bridge_ext.Builder(b, 1024, 1.5)
    single = len(docs) == 1 and not isinstance(docs[0], list)
    if len(docs) == 1 and isinstance(docs[0], list):
        for x in conv(docs[0]):
            B.fromiter(x)
    else:
        for x in conv(docs):
            B.fromiter(x)
    s = B.snapshot()
    v = model.value(b.describe(s))
    if single:
        return v[0], None          # exactly one non-array document: the document itself (a scalar or a Record)
    return v, b.typestr(s)


# ------------------------------------------------------------------ generators

def gen_json_obj(rng, depth=0):
    r = rng.random()
    if depth >= 3:
        r *= 0.6
    if r < 0.08:
        return None
    if r < 0.14:
        return rng.random() < 0.5
    if r < 0.30:
        return rng.choice([0, 1, -1, 12, 9223372036854775807, -9223372036854775808, rng.randint(-99, 99)])
    if r < 0.44:
        return rng.choice([0.5, -2.25, 1e300, 3.0, 1e-5, 0.1, 123456.789, -0.0, 5e-324])
    if r < 0.60:
        return "".join(rng.choice(["a", "b", "é", "中", "\"", "\\", " ", "\n", "\t", "/", "\u0001", "😀"]) for _ in range(rng.randint(0, 4)))
    if r < 0.82:
        return [gen_json_obj(rng, depth + 1) for _ in range(rng.choice([0, 1, 2, 3]))]
    keys = rng.sample(["x", "y", "z", "a b", "é", ""], rng.choice([0, 1, 2, 3]))
    return dict((k, gen_json_obj(rng, depth + 1)) for k in keys)


def render(rng, obj):
    """json text of obj with random whitespace and number forms"""
    ws = lambda: rng.choice(["", "", " ", "\n", "\t ", "\r\n"])     # noqa: E731
    if obj is None:
        return "null"
    if obj is True:
        return "true"
    if obj is False:
        return "false"
    if isinstance(obj, int):
        return str(obj)
    if isinstance(obj, float):
        s = repr(obj)
        if rng.random() < 0.3 and "e" not in s and "inf" not in s and "nan" not in s:
            s = "%e" % obj if float("%e" % obj) == obj else s
        if rng.random() < 0.2:
            s = s.replace("e", "E")
        return s
    if isinstance(obj, str):
        return json.dumps(obj, ensure_ascii=rng.random() < 0.5)
    if isinstance(obj, list):
        return "[" + ws() + ("," + ws()).join(render(rng, x) + ws() for x in obj) + "]"
    if isinstance(obj, dict):
        return "{" + ws() + ("," + ws()).join(json.dumps(k, ensure_ascii=rng.random() < 0.5) + ws() + ":" + ws() +
                                              render(rng, v) + ws() for k, v in obj.items()) + "}"
    raise TypeError(obj)


def gen_case(rng, tier, index):
    stream = ["out", "in", "in", "fault"][index % 4]
    if stream == "out":
        cfg = gen.Cfg(tier, categorical=False, bytestrings=False)
        cfg.dtypes = ["bool"] + gen.INT_DTYPES + gen.FLOAT_DTYPES + gen.COMPLEX_DTYPES
        T, vals, d = gen.layout(rng, cfg)
        return {"stream": stream, "T": T, "layout": d, "pretty": rng.random() < 0.3,
                "file": rng.choice([None, None, 16, 64, 65536]), "strings": rng.random() < 0.8}
    ndocs = rng.choice([1, 1, 1, 2, 3, 4])
    docs = [gen_json_obj(rng) for _ in range(ndocs)]
    if rng.random() < 0.6:
        docs[0] = [gen_json_obj(rng, 1) for _ in range(rng.randint(0, 4))]
    sep = rng.choice(["", " ", "\n", "\n\n", " \t"])
    text = rng.choice(["", " ", "\n"]) + sep.join(render(rng, x) for x in docs) + rng.choice(["", " ", "\n"])
    # scalar documents need a separator to stay distinct tokens
    if stream == "in":
        return {"stream": stream, "text": text, "file": rng.choice([None, None, 1, 3, 16, 65536]),
                "options": [rng.choice([1, 2, 1024]), rng.choice([1.5, 2.0])],
                "nan": rng.random() < 0.2}
    if len(text) > (40 if tier == "quick" else 90):
        small = gen_json_obj(rng, 2)
        text = render(rng, small if isinstance(small, (list, dict)) else [small])
    return {"stream": stream, "text": text[:120]}


# ------------------------------------------------------------------ monitors

def _read(b, text, case):
    kw = {}
    if case.get("nan"):
        kw = dict(nan="NaN", inf="Infinity", minf="-Infinity")
    opt = case.get("options", [1024, 1.5])
    if case.get("file"):
        fd, path = tempfile.mkstemp(prefix="c15.", dir=os.path.join(os.path.dirname(os.path.dirname(
            os.path.abspath(__file__))), ".build", "scratch"))
        try:
            with os.fdopen(fd, "wb") as f:
                f.write(text.encode("utf-8", "surrogatepass"))
            return b.fromjson_file(path, opt[0], opt[1], case["file"], **kw)
        finally:
            os.unlink(path)
    return b.fromjson(text, opt[0], opt[1], **kw)


def check_text(ctx, b, text, case, where):
    """one text through the reader vs the reference; -> True if a comparison was made"""
    try:
        docs = ref_sequence(text)
        verdict = "valid"
    except OutOfDomain:
        ctx.count("out_of_domain")
        return False
    except (ValueError, RecursionError):
        verdict = "invalid"
    try:
        h = _read(b, text, case)
        got = ("value", h)
    except AkError as e:
        got = ("error", e)
    ctx.cover("reference_verdict/outcome", "%s/%s" % (verdict, got[0]))
    if verdict == "invalid":
        if got[0] == "value":
            ctx.violation("malformed-json-accepted", {"text": text[:200], "where": where,
                                                      "got": model.brief(model.value(b.describe(got[1])), 200)})
        return True
    if got[0] == "error":
        ctx.violation("valid-json-rejected", {"text": text[:200], "where": where, "error": str(got[1])[:200]})
        return True
    kw = dict(nan="NaN", inf="Infinity", minf="-Infinity") if case.get("nan") else {}
    try:
        ev, et = ref_array(b, docs, **kw)
    except AkError as e:
        ctx.count("reference_builder_raised")
        return False
    gd = b.describe(got[1])
    gv = model.value(gd)
    gt = None if et is None else b.typestr(got[1])
    if not model.same(gv, ev) or gt != et:
        ctx.violation("json-input-differs", {"text": text[:200], "where": where, "expected": model.brief(ev, 300),
                                             "got": model.brief(gv, 300), "types": [et, gt]})
    return True


def run_case(ctx, case):
    b = ctx.lib
    stream = case["stream"]
    ctx.cover("stream", stream)
    if stream == "out":
        d = case["layout"]
        v = model.value(d)
        h = b.build(d)
        kw = dict(nan="NaN", inf="Infinity", minf="-Infinity") if case["strings"] else {}
        cx = dict(creal="real", cimag="imag")
        has_nonfinite = _nonfinite(v)
        has_complex = _hascomplex(v)
        if has_nonfinite and not case["strings"]:
            ctx.count("nonfinite_without_strings_skipped")
            return
        ctx.nontrivial(len(v) > 0)
        try:
            if case["file"]:
                path = os.path.join(os.path.dirname(os.path.dirname(os.path.abspath(__file__))), ".build", "scratch",
                                    "c15.out.%d" % os.getpid())
                b.tojson_file(h, path, case["pretty"], -1, case["file"], **dict(kw, **cx))
                text = open(path, "rb").read().decode("utf-8", "surrogateescape")
                os.unlink(path)
            else:
                text = b.tojson(h, case["pretty"], -1, **dict(kw, **cx))
        except AkError as e:
            ctx.violation("tojson-raised", {"error": str(e)[:200], "type": gen.typestr(case["T"])})
            return
        ctx.cover("writer", ("file%s" % case["file"] if case["file"] else "string") + ("/pretty" if case["pretty"] else ""))
        try:
            parsed = json.loads(text)
        except ValueError as e:
            ctx.violation("malformed-json-output", {"text": text[:300], "error": str(e)[:100]})
            return
        want = to_jsonable(v)
        if not json_same(parsed, want):
            ctx.violation("json-output-differs", {"expected": model.brief(want, 300), "got": model.brief(parsed, 300),
                                                  "type": gen.typestr(case["T"])})
            return
        ctx.count("outputs_agree")
        ctx.sample({"stream": "out", "type": gen.typestr(case["T"]), "text": text[:120]}, cap=2)
        return
    if stream == "in":
        ctx.nontrivial(len(case["text"].strip()) > 0)
        ctx.cover("reader", "file%s" % case["file"] if case["file"] else "string")
        if check_text(ctx, b, case["text"], case, "as generated"):
            ctx.count("inputs_compared")
        ctx.sample({"stream": "in", "text": case["text"][:120]}, cap=2)
        return
    # fault enumeration on one base text
    base = case["text"]
    ctx.nontrivial(len(base.strip()) > 0)
    n = 0
    for i in range(len(base) + 1):
        n += check_text(ctx, b, base[:i], case, "prefix %d" % i)
    for i in range(len(base)):
        muts = [base[:i] + base[i + 1:], base[:i] + base[i] + base[i:]]
        if i + 1 < len(base):
            muts.append(base[:i] + base[i + 1] + base[i] + base[i + 2:])
        for ch in CORRUPT:
            if ch != base[i]:
                muts.append(base[:i] + ch + base[i + 1:])
        for m in muts:
            n += check_text(ctx, b, m, case, "corruption at %d" % i)
    ctx.count("fault_points", n)
    ctx.sample({"stream": "fault", "base": base[:120], "mutations": n}, cap=2)


def _nonfinite(v):
    if isinstance(v, (list, tuple)):
        return any(_nonfinite(x) for x in v)
    if isinstance(v, dict):
        return any(_nonfinite(x) for x in v.values())
    if isinstance(v, complex):
        return _nonfinite(v.real) or _nonfinite(v.imag)
    return isinstance(v, float) and (v != v or v in (float("inf"), float("-inf")))


def _hascomplex(v):
    if isinstance(v, (list, tuple)):
        return any(_hascomplex(x) for x in v)
    if isinstance(v, dict):
        return any(_hascomplex(x) for x in v.values())
    return isinstance(v, complex)


def classify(vio):
    from vlib import known
    return known.classify(vio)


def signature(vio):
    return vio["kind"]


if __name__ == "__main__":
    from vlib import runner
    sys.exit(runner.main(sys.modules[__name__]))
