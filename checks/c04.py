"""C04 - ufuncs apply element-wise after NumPy-right / tree-left broadcasting (lane P: the repository's Python layer).

The repository's own `awkward` package (src/awkward, on the akext stand-in for the pybind11 module) evaluates
NumPy ufuncs / Python operators and ak.broadcast_arrays on 1-3 generated arguments; the result's model value (read
through the bridge's structural dump, not through ak.to_list) is compared with vlib/oracle_bcast.py: NumPy itself for
rectilinear arguments, the tree-left rule of the statement otherwise; structurally incompatible arguments must raise.

Arguments are derived from one generated array so that they are broadcast-compatible by construction: the same
skeleton with fresh leaves and another dtype, the skeleton cut at a shallower level (fewer list levels: repeats), a
regular dimension reduced to length 1, a Python scalar - each encoded with independent physical choices (list
class, index width, option encoding, indexed indirection); and for the error half one list length changed.
"""
from __future__ import print_function

import random
import sys

import numpy as np

from vlib import gen, model, oracle_bcast
from vlib.oracles import Refuse, NoOpinion

PROPERTY = "C04"
LEVEL = "exploration"
RULE = ("a case is (1-3 arguments derived from one generated array: same skeleton / cut at a shallower level / "
        "size-1 regular dimension / scalar / one length changed, each in its own physical encoding; an operation from "
        "the ufunc table or ak.broadcast_arrays); non-trivial = at least two array arguments with different structure "
        "or encoding and length > 0; distinct = SHA-1 of the case descriptor")
VARIANTS = {"quick": ["plain"], "thorough": ["plain", "asan"]}
BUDGET = {"quick": dict(cases=40000, seconds=70), "thorough": dict(cases=200000, seconds=1500)}
MIN_NONTRIVIAL = {"quick": 2000, "thorough": 15000}
ASSUMPTIONS = [
    "lane P: awkward._ext is the akext stand-in (akext/README.md); its fidelity is calibrated by running the "
    "repository's own tests (selftest/upstream.py)",
    "harness-side shims for NumPy 2 / setuptools / numba drift are listed in vlib/lanep.py (SHIMS)",
    "the oracle applies the ufunc to NumPy scalars of the leaves' dtypes (same promotion rules as the arrays under "
    "NumPy 2); strings, datetimes and complex numbers are outside the generated domain",
]

UFUNCS = {
    "add": (2, np.add), "subtract": (2, np.subtract), "multiply": (2, np.multiply), "true_divide": (2, np.true_divide),
    "maximum": (2, np.maximum), "minimum": (2, np.minimum), "less": (2, np.less), "equal": (2, np.equal),
    "greater_equal": (2, np.greater_equal), "not_equal": (2, np.not_equal), "arctan2": (2, np.arctan2),
    "negative": (1, np.negative), "absolute": (1, np.absolute), "sqrt": (1, np.sqrt), "isfinite": (1, np.isfinite),
    "square": (1, np.square), "sign": (1, np.sign),
    "op+": (2, lambda a, b: a + b), "op*": (2, lambda a, b: a * b), "op-": (2, lambda a, b: a - b),
    "op<": (2, lambda a, b: a < b), "op==": (2, lambda a, b: a == b), "op>=": (2, lambda a, b: a >= b),
    "(a+b)*c": (3, lambda a, b, c: (a + b) * c), "a-b*c": (3, lambda a, b, c: a - b * c),
    "where>": (3, lambda a, b, c: (a > b) * c),
}
STYLE = "random"
NUMERIC = ["int8", "uint8", "int32", "int64", "uint32", "float32", "float64", "bool"]


# ---------------------------------------------------------------- tagged values <-> JSON

def enc(v):
    if isinstance(v, gen.U):
        return {"__u__": v.arm, "v": enc(v.v)}
    if isinstance(v, tuple):
        return {"__t__": [enc(x) for x in v]}
    if isinstance(v, list):
        return [enc(x) for x in v]
    if isinstance(v, dict):
        return {"__d__": dict((k, enc(x)) for k, x in v.items())}
    if isinstance(v, float) and v != v:
        return {"__f__": "nan"}
    if isinstance(v, float) and v in (float("inf"), float("-inf")):
        return {"__f__": "inf" if v > 0 else "-inf"}
    return v


def dec(v):
    if isinstance(v, list):
        return [dec(x) for x in v]
    if isinstance(v, dict):
        if "__u__" in v:
            return gen.U(v["__u__"], dec(v["v"]))
        if "__t__" in v:
            return tuple(dec(x) for x in v["__t__"])
        if "__d__" in v:
            return dict((k, dec(x)) for k, x in v["__d__"].items())
        if "__f__" in v:
            return float(v["__f__"])
    return v


# ---------------------------------------------------------------- deriving compatible arguments

def leafval(rng, dtype):
    k = np.dtype(dtype).kind
    if k == "b":
        return rng.random() < 0.5
    if k == "u":
        return rng.choice([0, 1, 2, 3, 5, 7])
    if k == "i":
        return rng.choice([0, 1, -1, 2, 3, -4, 6])
    return rng.choice([0.0, 1.0, -2.5, 0.5, 3.0, float("inf"), float("nan"), -0.0, 1e10])


def derive_type(T, cut, dtype):
    t = T["t"]
    if t == "prim":
        return gen.P(dtype)
    if t in ("list", "regular"):
        if cut == 0:
            return gen.P(dtype)
        out = dict(T)
        out["e"] = derive_type(T["e"], cut - 1, dtype)
        return out
    if t == "option":
        return {"t": "option", "e": derive_type(T["e"], cut, dtype)}
    if t == "record":
        if cut == 0:
            return gen.P(dtype)
        return {"t": "record", "keys": T["keys"], "fields": [derive_type(f, cut, dtype) for f in T["fields"]]}
    if t == "union":
        return {"t": "union", "arms": [derive_type(a, cut, dtype) for a in T["arms"]]}
    raise ValueError(t)


def derive_val(rng, T, v, cut, dtype, drop_none):
    if isinstance(v, gen.U):
        return gen.U(v.arm, derive_val(rng, T["arms"][v.arm], v.v, cut, dtype, drop_none))
    t = T["t"]
    if t == "option":
        if v is None:
            return None
        if rng.random() < drop_none:
            return None
        return derive_val(rng, T["e"], v, cut, dtype, drop_none)
    if t == "prim":
        return leafval(rng, dtype)
    if t in ("list", "regular"):
        if cut == 0:
            return leafval(rng, dtype)
        return [derive_val(rng, T["e"], x, cut - 1, dtype, drop_none) for x in v]
    if t == "record":
        if cut == 0:
            return leafval(rng, dtype)
        if isinstance(v, tuple):
            return tuple(derive_val(rng, f, x, cut, dtype, drop_none) for f, x in zip(T["fields"], v))
        return dict((k, derive_val(rng, f, v[k], cut, dtype, drop_none)) for f, k in zip(T["fields"], T["keys"]))
    raise ValueError(t)


def shrink_regular(T, vals, which):
    """the which-th regular level (from the outside) becomes size 1: -> (T2, vals2) or None"""
    count = [0]

    def ty(T):
        t = T["t"]
        if t == "regular":
            k = count[0]
            count[0] += 1
            out = dict(T)
            out["e"] = ty(T["e"])
            if k == which and T["size"] >= 1:
                out["size"] = 1
            return out
        if t in ("list", "option"):
            out = dict(T)
            out["e"] = ty(T["e"])
            return out
        return T

    def depth_of_target(T, d=0, k=[0]):
        return None
    T2 = ty(T)
    if count[0] <= which:
        return None

    def va(T, T2, v):
        if v is None or isinstance(v, gen.U):
            return v
        t = T["t"]
        if t == "option":
            return va(T["e"], T2["e"], v)
        if t == "regular":
            items = v[:1] if T2["size"] == 1 and T["size"] != 1 else v
            return [va(T["e"], T2["e"], x) for x in items]
        if t == "list":
            return [va(T["e"], T2["e"], x) for x in v]
        return v
    return T2, [va(T, T2, x) for x in vals]


def count_regular(T):
    t = T["t"]
    if t == "regular":
        return 1 + count_regular(T["e"])
    if t in ("list", "option"):
        return count_regular(T["e"])
    return 0


def break_length(rng, T, vals):
    """change the length of one var-length list -> vals2 or None"""
    spots = []

    def walk(T, v, path):
        if v is None or isinstance(v, gen.U):
            return
        t = T["t"]
        if t == "option":
            walk(T["e"], v, path)
        elif t == "list":
            spots.append(path)
            for i, x in enumerate(v):
                walk(T["e"], x, path + (i,))
        elif t == "regular":
            for i, x in enumerate(v):
                walk(T["e"], x, path + (i,))
    for i, x in enumerate(vals):
        walk(T, x, (i,))
    if not spots:
        return None
    path = rng.choice(spots)
    import copy
    out = copy.deepcopy(vals)
    cur = out
    for p in path[:-1]:
        cur = cur[p]
    lst = cur[path[-1]]
    if lst and rng.random() < 0.5:
        lst.pop()
    else:
        lst.append(copy.deepcopy(lst[0]) if lst else _zero_like(T, path))
    return out


def _zero_like(T, path):
    raise NoOpinion("cannot grow an empty list of unknown element")


def gen_case(rng, tier, index):
    """two encodings streams: 'compact' (what builders, from_iter and from_numpy produce) and, for one case in three,
    'physical' (independent random list classes, index widths, offset origins, unreachable content, indirection)"""
    global STYLE
    STYLE = "random" if index % 3 == 2 else "canonical"
    case = _gen_case(rng, tier, index)
    case["encodings"] = "physical" if STYLE == "random" else "compact"
    return case


def gen_aligned_gap(rng):
    """lists of different lengths that *look* aligned: a compact ListOffsetArray with offsets o and a ListArray with
    gaps whose starts equal o[:-1] and whose last stop equals o[-1], one of its lists shorter (the statement: lists of
    different lengths at the same position raise)"""
    from vlib import model
    n = rng.randint(2, 5)
    lens = [rng.randint(0, 4) for _ in range(n)]
    cand = [i for i in range(n - 1) if lens[i] >= 1]
    if not cand:
        lens[0] = rng.randint(1, 4)
        cand = [0]
    d1, d2 = rng.choice(["int64", "int32", "float64"]), rng.choice(["int64", "int32", "float64"])
    base = [[rng.randint(-3, 5) for _ in range(k)] for k in lens]
    offs = [0]
    for k in lens:
        offs.append(offs[-1] + k)
    lens2 = list(lens)
    for i in rng.sample(cand, rng.randint(1, len(cand))):
        lens2[i] = rng.randint(0, lens[i] - 1)
    flat2 = [rng.randint(-3, 5) for _ in range(offs[-1])]
    gap = [flat2[offs[i]:offs[i] + lens2[i]] for i in range(n)]
    w1, w2 = rng.choice(["64", "32"]), rng.choice(["64", "32", "U32"])
    kind = {"64": "i64", "32": "i32", "U32": "u32"}
    T1 = {"t": "list", "e": gen.P(d1)}
    T2 = {"t": "list", "e": gen.P(d2)}
    lay1 = {"c": "ListOffsetArray", "w": w1, "offsets": {"k": kind[w1], "v": offs}, "params": {},
            "content": model.np_desc(np.array([x for r in base for x in r], dtype=d1))}
    lay2 = {"c": "ListArray", "w": w2, "starts": {"k": kind[w2], "v": offs[:-1]},
            "stops": {"k": kind[w2], "v": [offs[i] + lens2[i] for i in range(n)]}, "params": {},
            "content": model.np_desc(np.array(flat2, dtype=d2))}
    args = [{"k": "a", "T": T1, "vals": enc(base), "layout": lay1, "how": "base"},
            {"k": "a", "T": T2, "vals": enc(gap), "layout": lay2, "how": "aligned-gap"}]
    if rng.random() < 0.3:
        args.reverse()
    op = rng.choice(["add", "multiply", "op+", "broadcast_arrays", "maximum"])
    return {"op": op, "regime": "var", "args": args, "broken": True}


def _gen_case(rng, tier, index):
    regime = ["regular", "var", "var", "mixed"][(index // 3) % 4]
    if regime == "regular":
        return gen_regular_case(rng, tier)
    if regime == "var" and rng.random() < 0.06:
        return gen_aligned_gap(rng)
    cfg = gen.Cfg(tier)
    cfg.strings = False
    cfg.unknown = False
    cfg.categorical = False
    cfg.records = rng.random() < 0.25
    cfg.unions = rng.random() < 0.2
    cfg.regular = regime == "mixed"
    cfg.dtypes = NUMERIC if not cfg.unions else ["int32", "int64", "float64"]    # (no unsigned wrap-around of
    # differently promoted union arms: which width a merged union result has is not this property's business)
    cfg.extremes = False
    for _ in range(30):
        T = gen.gen_type(rng, cfg)
        if regime == "mixed" and count_regular(T) == 0:
            continue
        break
    n = rng.choice([0, 1, 2, 3, 4, 6])
    vals = _tame(rng, T, gen.gen_values(rng, T, n, cfg))
    opname = rng.choice(sorted(UFUNCS) + ["broadcast_arrays"] * 5)
    nargs = UFUNCS[opname][0] if opname != "broadcast_arrays" else rng.choice([2, 2, 3])
    depth = oracle_bcast.depth(T)
    args = [{"k": "a", "T": T, "vals": enc(vals), "layout": gen.encode(rng, T, vals, STYLE, cfg), "how": "base"}]
    expect_error = False
    menu = ["same", "same", "cut", "cut", "scalar", "broken"] if regime == "var" else ["same", "same", "scalar", "size1"]
    for _ in range(nargs - 1):
        how = rng.choice(menu)
        if how == "scalar" and any(a["k"] == "s" for a in args):
            how = "same"       # (several Python scalars in one expression are combined by Python before any broadcasting)
        dtype = rng.choice(NUMERIC if not cfg.unions else ["int32", "int64", "float64"])
        if how == "scalar":
            args.append({"k": "s", "v": rng.choice([0, 1, 2, 3, 0.5, -1.5, True]), "how": how})
            continue
        if how == "size1":
            k = count_regular(T)
            r = shrink_regular(T, vals, rng.randrange(k)) if k else None
            if r is None:
                how = "same"
            else:
                T2, v2 = r
                T3 = derive_type(T2, 99, dtype)
                v3 = [derive_val(rng, T2, x, 99, dtype, 0.0) for x in v2]
                args.append({"k": "a", "T": T3, "vals": enc(v3), "layout": gen.encode(rng, T3, v3, STYLE, cfg), "how": how})
                continue
        cut = 99 if how in ("same", "broken") else rng.randint(0, depth)
        T2 = derive_type(T, cut, dtype)
        v2 = [derive_val(rng, T, x, cut, dtype, 0.15 if rng.random() < 0.3 else 0.0) for x in vals]
        if how == "broken":
            try:
                b2 = break_length(rng, T2, v2)
            except NoOpinion:
                b2 = None
            if b2 is None:
                how = "same"
            else:
                v2 = b2
                expect_error = True
        args.append({"k": "a", "T": T2, "vals": enc(v2), "layout": gen.encode(rng, T2, v2, STYLE, cfg), "how": how})
    rng.shuffle(args)
    return {"op": opname, "regime": regime, "args": args, "broken": expect_error}


def gen_regular_case(rng, tier):
    """all arguments have regular dimensions only (optionally missing leaves): NumPy's alignment from the right"""
    cfg = gen.Cfg(tier)
    cfg.dtypes = NUMERIC
    ndim = rng.choice([1, 2, 2, 3])
    shape = [rng.choice([0, 1, 2, 3, 4])] + [rng.choice([1, 2, 3]) for _ in range(ndim - 1)]
    opname = rng.choice(sorted(UFUNCS) + ["broadcast_arrays"] * 5)
    nargs = UFUNCS[opname][0] if opname != "broadcast_arrays" else rng.choice([2, 2, 3])

    def make(shape, how):
        dtype = rng.choice(NUMERIC)
        opt = rng.random() < 0.25
        leafT = {"t": "option", "e": gen.P(dtype)} if opt else gen.P(dtype)
        T = leafT
        for s in reversed(shape[1:]):
            T = {"t": "regular", "e": T, "size": s}

        def vals(d):
            if d == len(shape):
                return None if (opt and rng.random() < 0.2) else leafval(rng, dtype)
            return [vals(d + 1) for _ in range(shape[d])]
        v = vals(0)
        return {"k": "a", "T": T, "vals": enc(v), "layout": gen.encode(rng, T, v, STYLE, cfg), "how": how}
    args = [make(shape, "base")]
    for _ in range(nargs - 1):
        how = rng.choice(["same", "size1", "lower-rank", "scalar", "broken"])
        if how == "scalar" and any(a["k"] == "s" for a in args):
            how = "same"
        if how == "scalar":
            args.append({"k": "s", "v": rng.choice([0, 1, 2, 3, 0.5, -1.5, True]), "how": how})
            continue
        sh = list(shape)
        if how == "lower-rank" and len(sh) > 1:
            sh = sh[rng.randint(1, len(sh) - 1):]
        elif how == "size1":
            for i in range(len(sh)):
                if rng.random() < 0.5:
                    sh[i] = 1
        elif how == "broken":
            i = rng.randrange(len(sh))
            sh[i] = sh[i] + rng.choice([1, 2]) if sh[i] != 1 else 5
        args.append(make(sh, how))
    rng.shuffle(args)
    return {"op": opname, "regime": "regular", "args": args, "broken": False}


def _tame(rng, T, vals):
    """replace extreme leaves by small ones (overflow behaviour of the leaf ufunc is NumPy's, not this property's)"""
    d = oracle_bcast.leaf_dtype(T)

    def rec(T, v):
        if v is None:
            return None
        if isinstance(v, gen.U):
            return gen.U(v.arm, rec(T["arms"][v.arm], v.v))
        t = T["t"]
        if t == "option":
            return rec(T["e"], v)
        if t == "prim":
            return leafval(rng, T["d"])
        if t in ("list", "regular"):
            return [rec(T["e"], x) for x in v]
        if t == "record":
            if isinstance(v, tuple):
                return tuple(rec(f, x) for f, x in zip(T["fields"], v))
            return dict((k, rec(f, v[k])) for f, k in zip(T["fields"], T["keys"]))
        return v
    return [rec(T, x) for x in vals]


# ---------------------------------------------------------------------------------------------------------------------

def run_case(ctx, case):
    from vlib import lanep_util
    ak, P = lanep_util.setup(ctx)
    opname = case["op"]
    ctx.cover("op", opname)
    ctx.cover("regime", case.get("regime"))
    ctx.cover("encodings", case.get("encodings"))
    oargs, pargs = [], []
    hows = []
    for a in case["args"]:
        hows.append(a["how"])
        if a["k"] == "s":
            oargs.append(("s", a["v"]))
            pargs.append(a["v"])
        else:
            oargs.append(("a", a["T"], dec(a["vals"])))
            pargs.append(P.array(a["layout"]))
            for c in model.classes(a["layout"]):
                ctx.cover("input_classes", c)
    ctx.cover("argument_kinds", "+".join(sorted(hows)))
    narr = sum(1 for a in case["args"] if a["k"] == "a")
    n0 = [len(a[2]) for a in oargs if a[0] == "a"]
    ctx.nontrivial(narr >= 2 and n0 and n0[0] > 0)

    # ---- expectation
    try:
        if opname == "broadcast_arrays":
            expected = oracle_bcast.broadcast_arrays(oargs)
        else:
            expected, _dt = oracle_bcast.ufunc(UFUNCS[opname][1], oargs)
        exp_kind = "value"
    except Refuse as e:
        exp_kind, expected = "error", str(e)
    except NoOpinion as e:
        ctx.cover("oracle", "no-opinion")
        ctx.count("oracle_abstained")
        exp_kind, expected = "abstain", str(e)
    else:
        ctx.cover("oracle", "value")

    # ---- the library
    try:
        with np.errstate(all="ignore"):
            if opname == "broadcast_arrays":
                out = ak.broadcast_arrays(*pargs)
                got = [P.value(x) for x in out]
            else:
                out = UFUNCS[opname][1](*pargs)
                got = P.value(out)
        got_kind = "value"
    except Exception as e:        # noqa  (whatever the library raises is an error outcome of the operation)
        got_kind, got = "error", "%s: %s" % (type(e).__name__, str(e)[:200])
    ctx.cover("outcome", "%s/%s" % (exp_kind, got_kind))
    if exp_kind == "abstain":
        return
    det = {"op": opname, "args": [_brief_arg(a) for a in case["args"]]}
    if exp_kind == "error":
        if got_kind != "error":
            ctx.violation("incompatible-arguments-accepted", dict(det, why=expected, got=model.brief(got, 300)))
        else:
            ctx.count("errors_agree")
        return
    if got_kind == "error":
        ctx.violation("unexpected-error", dict(det, expected=model.brief(expected, 300), got=got))
        return
    if not model.same(got, expected, rel=1e-6):      # float32 leaves: array and scalar loops differ in the last bits
        ctx.violation("wrong-value", dict(det, expected=model.brief(expected, 400), got=model.brief(got, 400)))
        return
    ctx.count("values_agree")
    ctx.sample({"op": opname, "args": [_brief_arg(a) for a in case["args"]], "result": model.brief(got, 160)}, cap=6)


def _brief_arg(a):
    if a["k"] == "s":
        return {"scalar": a["v"]}
    return {"how": a["how"], "type": gen.typestr(a["T"]), "value": model.brief(gen.plain(dec(a["vals"])), 200),
            "classes": sorted(model.classes(a["layout"]))}


def signature(vio):
    det = vio.get("detail") or {}
    hows = "+".join(sorted(a.get("how", "scalar") for a in det.get("args", [])))
    hows = (vio.get("case") or {}).get("regime", "?") + ":" + hows
    return "%s:%s:%s" % (vio["kind"], "broadcast_arrays" if det.get("op") == "broadcast_arrays" else "ufunc", hows)


def classify(vio):
    from vlib import known
    return known.classify(vio)


if __name__ == "__main__":
    from vlib import runner
    sys.exit(runner.main(sys.modules[__name__]))
