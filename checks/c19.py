"""C19 - AwkwardForth programs have deterministic, documented, step-independent semantics (lane L: ForthMachine32/64).

A case is one generated program (a tree over the whole documented vocabulary, rendered to source text), its input
byte strings and a machine configuration.  For both machine widths:

  differential : final stack, variables, input positions, every output buffer (dtype + bytes) and the error code of
                 ForthMachine{32,64}.run equal those of vlib/forthref.py, the reference interpreter of the documented
                 semantics.  The reference is three-valued: it abstains (counted, with the reason) where the
                 documentation does not determine the behaviour, and it refuses programs it cannot show to terminate.
  segmentation : the same program + input executed as run(+resume at every pause) / begin + step until done /
                 resume with extra steps after every pause / with `pause` inserted at EVERY item boundary of the
                 program (one variant per boundary, enumerated, alternating machine width per case) and resumed /
                 with a top-level call of a user-defined word replaced by `pause` + call(word) from outside:
                 identical observable state and error code.
  configuration: output_initial_size in {1,2,1024} x output_resize_factor in {1.1,1.5,4} give the same state; with
                 stack_max_depth equal to the deepest stack the reference saw the state is unchanged, with one less
                 the run ends in the documented error (differential against the reference with the same limit);
                 likewise recursion_max_depth.
  decompile    : ForthMachine(decompiled(m)) compiles, behaves identically and decompiles to the same text.
  determinism  : a second fresh machine, and the same machine run again, give the same state; inputs are not modified.
  faults       : compile-time faults are exceptions (both widths agree with the reference's verdict), run-time faults
                 are error codes; a signal or sanitizer report kills the worker and is reported by the runner.
"""
from __future__ import print_function

import os
import random
import re
import sys

from vlib import forthref, bridge_forth
from vlib.bridge import AkError

PROPERTY = "C19"
LEVEL = "exploration"
RULE = ("cases are programs generated from a grammar over the documented AwkwardForth vocabulary (<= 60 items quick, "
        "<= 300 thorough; literals, stack/arithmetic/comparison/bitwise words, if/else/then, do/loop/+loop with i j k, "
        "begin/again/until/while/repeat, exit, halt, pause, : ; definitions, recurse, variables, inputs with len pos "
        "end seek skip and every typed read incl. big-endian, repeated, varint, zigzag, Nbit, to stack and to output, "
        "outputs of every dtype with <- +<- len rewind dup, strings, comments), biased towards terminating programs, "
        "plus 1 in 6 programs made invalid by one corruption, plus a capped stream (1 in 16) of inputs known to hit "
        "recorded defects; inputs are 0-64 random bytes; non-trivial = the reference had an opinion and executed at "
        "least 5 words on both widths (valid programs) or predicted the compile error (invalid programs); distinct = "
        "SHA-1 of the case descriptor")
VARIANTS = {"quick": ["asan"], "thorough": ["asan"]}
BUDGET = {"quick": dict(cases=40000, seconds=75), "thorough": dict(cases=2000000, seconds=1500)}
MIN_NONTRIVIAL = {"quick": 800, "thorough": 8000}
ASSUMPTIONS = [
    "the oracle is vlib/forthref.py: standard Forth for stack/arithmetic/control words, floor division and modulo, "
    "truth = -1, wraparound at the machine width, do-loops that run while i < stop, arithmetic rshift (asserted by "
    "tests/test_0648), varint/zigzag/Nbit packing as in tests/test_0648, C casts for typed output writes",
    "after a run-time error only the error code and the variables are compared with the reference (partial effects "
    "of the failing word are not documented); machine-vs-machine comparisons always compare the whole state",
    "values the documentation does not determine (shift by a count outside [0,width), float->integer conversions that "
    "do not fit, NaN converted between types, a byte other than 0/1 read as bool) are carried through the reference "
    "run as 'unknown' and skipped by the comparison; the reference abstains (no differential verdict for the "
    "program) when control flow, a count or a position depends on such a value, and on: integer literals beyond 32 "
    "bits, number-like tokens that are not plain integers, negative repeat/rewind/dup counts, non-canonical 10-byte "
    "varints, `!` in front of one-byte/variable-length reads, declarations nested in definitions, words that use "
    "their own name; where two readings are admissible (which of two simultaneous errors, whether control-structure "
    "bodies count against recursion_max_depth) both are accepted",
    "programs whose reference run exceeds the instruction budget are not executed (termination unknown)",
    "ForthMachine::begin_again does not exist in 1.4.0; the print words . cr .s .\" write to stdout and are only "
    "checked for their stack effect; src/python/forth.cpp (the pybind11 layer) is not built"]

ERRORS = bridge_forth.ERRORS
INT_DTYPES = ["int8", "int16", "int32", "int64", "uint8", "uint16", "uint32", "uint64"]
ALL_DTYPES = ["bool"] + INT_DTYPES + ["float32", "float64"]
READ_KINDS = ["?", "b", "h", "i", "q", "n", "B", "H", "I", "Q", "N", "f", "d"]
SWAPPABLE = ["h", "i", "q", "n", "H", "I", "Q", "N", "f", "d"]
SIZE = {"?": 1, "b": 1, "h": 2, "i": 4, "q": 8, "n": 8, "B": 1, "H": 2, "I": 4, "Q": 8, "N": 8, "f": 4, "d": 8}

# ---------------------------------------------------------------------------------------------- program trees
# item := "text" | ["if", A, B|None] | ["do", BODY, "loop"|"+loop"] | ["begin", BODY, "until"|"again"]
#       | ["while", COND, BODY] | ["def", name, BODY]


def render(items, indent=0):
    out = []
    for it in items:
        if isinstance(it, str):
            out.append(it)
        elif it[0] == "if":
            out.append("if " + render(it[1]) + (" else " + render(it[2]) if it[2] is not None else "") + " then")
        elif it[0] == "do":
            out.append("do " + render(it[1]) + " " + it[2])
        elif it[0] == "begin":
            out.append("begin " + render(it[1]) + " " + it[2])
        elif it[0] == "while":
            out.append("begin " + render(it[1]) + " while " + render(it[2]) + " repeat")
        elif it[0] == "def":
            out.append(": " + it[1] + " " + render(it[2]) + " ;")
    return " ".join(x for x in out if x != "")


def positions(items, path=()):
    """every item boundary of the tree: (path to the list, index)"""
    out = []
    for k in range(len(items) + 1):
        out.append((path, k))
    for k, it in enumerate(items):
        if isinstance(it, list):
            if it[0] == "if":
                out += positions(it[1], path + (k, 1))
                if it[2] is not None:
                    out += positions(it[2], path + (k, 2))
            elif it[0] in ("do", "begin"):
                out += positions(it[1], path + (k, 1))
            elif it[0] == "while":
                out += positions(it[1], path + (k, 1)) + positions(it[2], path + (k, 2))
            elif it[0] == "def":
                out += positions(it[2], path + (k, 2))
    return out


def insert_at(items, pos, what):
    """copy of the tree with `what` inserted at boundary pos"""
    import copy
    tree = copy.deepcopy(items)
    path, k = pos
    node = tree
    for p in path:
        node = node[p]
    node.insert(k, what)
    return tree


class Gen(object):
    def __init__(self, rng, tier):
        self.rng = rng
        self.tier = tier
        self.vars = []
        self.ins = []
        self.outs = []
        self.words = []        # (name, pops, pushes)
        self.counter = 0
        self.budget = 0

    def fresh(self, prefix):
        self.counter += 1
        return "%s%d" % (prefix, self.counter)

    def lit(self):
        r = self.rng
        c = r.random()
        if c < 0.55:
            return str(r.randint(-3, 12))
        if c < 0.75:
            return str(r.choice([0, 1, -1, 2, 7, 8, 16, 31, 32, 63, 64, 100, 127, 128, 255, 256, 1000, 65535, -128, -100]))
        if c < 0.85:
            return r.choice(["2147483647", "-2147483648", "2147483646", "-2147483647", "1073741824", "65536"])
        return r.choice(["0x0", "0x1", "0x7f", "0xff", "0x10", "0xFFFF", "0x7fffffff", "0xaB"])

    def nonzero(self):
        return str(self.rng.choice([1, 2, 3, 5, 7, -1, -2, -3, 10, 16, 255, -7]))

    def read_word(self, stack_only=False, repeated=None):
        r = self.rng
        c = r.random()
        rep = (r.random() < 0.35) if repeated is None else repeated
        if c < 0.70:
            k = r.choice(READ_KINDS)
            big = k in SWAPPABLE and r.random() < 0.35
            w = ("#" if rep else "") + ("!" if big else "") + k + "->"
            size = SIZE[k]
        elif c < 0.85:
            w = ("#" if rep else "") + r.choice(["varint", "zigzag"]) + "->"
            size = 1
        else:
            n = r.choice([1, 2, 3, 4, 5, 7, 8, 9, 12, 16, 17, 24, 31])
            w = ("#" if rep else "") + ("!" if r.random() < 0.3 else "") + "%dbit->" % n
            size = max(1, n // 8)
        return w, rep, size

    def seq(self, n, d, loopdepth, in_def, ctrl):
        """-> (items, depth) : n items starting with `d` values known to be on the stack"""
        r = self.rng
        items = []
        while n > 0 and self.budget > 0:
            n -= 1
            self.budget -= 1
            c = r.random()
            wild = r.random() < 0.04
            if d > 10:
                c = 0.30 + 0.1 * r.random()       # consume
            if c < 0.16:
                items.append(self.lit())
                d += 1
            elif c < 0.28:
                w, need, eff = r.choice([("dup", 1, 1), ("drop", 1, -1), ("swap", 2, 0), ("over", 2, 1), ("rot", 3, 0),
                                         ("nip", 2, -1), ("tuck", 2, 1)])
                if d >= need or wild:
                    items.append(w)
                    d = max(0, d + eff)
                else:
                    items.append(self.lit())
                    d += 1
            elif c < 0.42:
                w = r.choice(["+", "-", "*", "/", "mod", "/mod", "min", "max", "and", "or", "xor", "=", "<>", ">", ">=",
                              "<", "<=", "lshift", "rshift"])
                if d >= 2 or (wild and d >= 0):
                    if w in ("/", "mod", "/mod") and r.random() < 0.85:
                        items.append("drop " + self.nonzero())
                    if w in ("lshift", "rshift") and r.random() < 0.9:
                        items.append("drop " + str(r.choice([0, 1, 2, 3, 7, 8, 15, 16, 30, 31])))
                    items.append(w)
                    d = max(0, d - 1) if w != "/mod" else max(d, 2)
                else:
                    items.append(self.lit())
                    d += 1
            elif c < 0.50:
                w = r.choice(["negate", "1+", "1-", "abs", "0=", "invert"])
                if d >= 1 or wild:
                    items.append(w)
                    d = max(d, 0)
                else:
                    items.append(r.choice(["true", "false"]))
                    d += 1
            elif c < 0.57 and self.vars:
                v = r.choice(self.vars)
                op = r.choice(["!", "+!", "@", "@"])
                if op == "@":
                    items.append(v + " @")
                    d += 1
                elif d >= 1 or wild:
                    items.append(v + " " + op)
                    d = max(0, d - 1)
            elif c < 0.72 and self.ins:
                x = r.choice(self.ins)
                cc = r.random()
                if cc < 0.15:
                    items.append(x + " " + r.choice(["len", "pos", "end"]))
                    d += 1
                elif cc < 0.25:
                    items.append("%d %s seek" % (r.choice([0, 0, 1, 2, 4, 8]) if r.random() < 0.85 else
                                                 r.choice([16, 64, 70, -1]), x))
                elif cc < 0.33:
                    items.append("%d %s skip" % (r.choice([0, 1, 2, 4, -1]) if r.random() < 0.85 else
                                                 r.choice([-2, -9, 8, 70]), x))
                else:
                    w, rep, size = self.read_word()
                    direct = self.outs and r.random() < 0.5
                    dest = r.choice(self.outs)[0] if direct else "stack"
                    cnt = 1
                    if rep:
                        cnt = r.choice([0, 1, 1, 2, 2, 3, 4, 5]) if r.random() < 0.93 else r.choice([8, 20, 70, 1000])
                        items.append(str(cnt))
                    items.append("%s %s %s" % (x, w, dest))
                    if not direct:
                        d += min(cnt, 12)
            elif c < 0.82 and self.outs:
                y, dt = r.choice(self.outs)
                cc = r.random()
                if cc < 0.50:
                    if d >= 1 or wild:
                        items.append(y + (" <- stack" if r.random() < 0.7 else " +<- stack"))
                        d = max(0, d - 1)
                    else:
                        items.append(self.lit() + " " + y + " <- stack")
                elif cc < 0.65:
                    items.append(y + " len")
                    d += 1
                elif cc < 0.80:
                    items.append("%d %s rewind" % (r.choice([0, 0, 0, 1, 1, 2]) if r.random() < 0.8 else 5, y))
                    if r.random() < 0.7:
                        items.insert(len(items) - 1, "%s %s <- stack" % (self.lit(), y))
                else:
                    if r.random() < 0.75:
                        items.append("%s %s <- stack" % (self.lit(), y))      # dup of an empty output is an error
                    items.append("%d %s dup" % (r.choice([0, 1, 2, 3, 7]), y))
            elif c < 0.86 and self.words:
                name, pops, pushes = r.choice(self.words)
                if d >= pops or wild:
                    items.append(name)
                    d = max(0, d - pops) + pushes
            elif c < 0.96 and ctrl > 0:
                it, d = self.control(d, loopdepth, in_def, ctrl - 1)
                items += it
            else:
                cc = r.random()
                if cc < 0.25 and loopdepth >= 1:
                    items.append(r.choice(["i", "j", "k"][:loopdepth]))
                    d += 1
                elif cc < 0.40:
                    items.append("pause")
                elif cc < 0.47:
                    items.append(r.choice(["s\" abc\"", "s\" two words\"", "s\" \""]))
                    d += 1
                elif cc < 0.55:
                    items.append(r.choice(["cr", ".s", ".\" hi\"", "( a comment )", "( nested ( comment ) )",
                                           "( a comment )", "\\ to the end of the line\n", "\\ to the end\n"]))
                elif cc < 0.60 and d >= 1:
                    items.append(".")
                    d -= 1
                elif cc < 0.64:
                    items.append(["if", ["halt"], None] if r.random() < 0.7 else "halt")
                    if isinstance(items[-1], list):
                        items.insert(len(items) - 1, r.choice(["0", "0", "0", "1"]))
                elif cc < 0.76 and (in_def or r.random() < 0.15):
                    items.insert(len(items), r.choice(["0", "0", "1"]))
                    items.append(["if", ["exit"], None])
                else:
                    items.append(r.choice(["true", "false"]))
                    d += 1
        return items, d

    def neutral(self, body, d):
        """make a body leave the stack as it found it"""
        r = self.rng
        while d > 0:
            if self.outs and r.random() < 0.4:
                body.append(r.choice(self.outs)[0] + " <- stack")
            elif self.vars and r.random() < 0.3:
                body.append(r.choice(self.vars) + r.choice([" !", " +!"]))
            else:
                body.append("drop")
            d -= 1
        return body

    def control(self, d, loopdepth, in_def, ctrl):
        r = self.rng
        c = r.random()
        n = r.randint(1, 5)
        if c < 0.35:
            cond = r.choice(["0", "1", "-1", "true", "false"]) if (d < 1 or r.random() < 0.5) else None
            if cond is None and self.ins and r.random() < 0.3:
                cond = r.choice(self.ins) + " end"
            a, da = self.seq(n, 0, loopdepth, in_def, ctrl)
            a = self.neutral(a, da)
            b = None
            if r.random() < 0.5:
                b, db = self.seq(r.randint(0, 4), 0, loopdepth, in_def, ctrl)
                b = self.neutral(b, db)
            pre = [cond] if cond is not None else []
            if cond is None:
                d -= 1
            return pre + [["if", a, b]], d
        if c < 0.38:
            # three nested loops that use all three indices
            sink = (r.choice(self.outs)[0] + " <- stack") if self.outs else "drop"
            inner = ["i j k", r.choice(["+ +", "* -", "max min", "xor or"]), sink]
            return ["%d 0" % r.choice([1, 2, 3]), ["do", ["%d 1" % r.choice([2, 3]), ["do", ["2 0", ["do", inner, "loop"]],
                                                                             r.choice(["loop", "loop"])]], "loop"]], d
        if c < 0.65:
            body, db = self.seq(n, 0, loopdepth + 1, in_def, ctrl)
            body = self.neutral(body, db)
            stop = r.choice([0, 1, 2, 3, 4, 6])
            start = r.choice([0, 0, 0, 1, -2, 5])
            if r.random() < 0.3:
                body.append(str(r.choice([1, 2, 3, 1, 5])))
                return ["%d %d" % (stop, start), ["do", body, "+loop"]], d
            return ["%d %d" % (stop, start), ["do", body, "loop"]], d
        if not self.vars:
            return [self.lit()], d + 1
        v = r.choice(self.vars)
        k = r.choice([0, 1, 2, 3, 5])
        body, db = self.seq(n, 0, loopdepth, in_def, ctrl)
        body = self.neutral(body, db)
        if in_def and c < 0.74:
            # begin .. again, left through exit (only inside a definition, where exit leaves the word)
            return ["0 %s !" % v, ["begin", body + ["%s @ 1+ dup %s ! %d >=" % (v, v, k), ["if", ["exit"], None]],
                                   "again"]], d
        if c < 0.80:
            return ["0 %s !" % v, ["begin", body + ["%s @ 1+ dup %s ! %d >=" % (v, v, k)], "until"]], d
        if c < 0.93:
            return ["0 %s !" % v, ["while", ["%s @ %d <" % (v, k)], body + ["1 %s +!" % v]]], d
        if self.ins:
            x = r.choice(self.ins)
            return [["while", [x + " end 0="], [x + " b-> stack drop"] + body]], d
        return ["0 %s !" % v, ["while", ["%s @ %d <" % (v, k)], body + ["1 %s +!" % v]]], d

    def program(self, maxitems):
        r = self.rng
        self.budget = maxitems
        decl = []
        for _ in range(r.choice([0, 1, 1, 2, 3])):
            v = self.fresh("v")
            self.vars.append(v)
            decl.append("variable " + v)
        for _ in range(r.choice([0, 1, 1, 1, 2])):
            x = self.fresh("x")
            self.ins.append(x)
            decl.append("input " + x)
        for _ in range(r.choice([0, 1, 1, 2, 3])):
            y = self.fresh("y")
            dt = r.choice(ALL_DTYPES)
            self.outs.append((y, dt))
            decl.append("output %s %s" % (y, dt))
        r.shuffle(decl)
        items = list(decl)
        for _ in range(r.choice([0, 0, 1, 1, 2, 3])):
            name = self.fresh("w")
            pops = r.choice([0, 0, 1, 2])
            kind = r.random()
            if kind < 0.15:
                # bounded recursion: ( n -- )
                body = ["dup 0 >", ["if", ["1- recurse"] if r.random() < 0.6 else ["dup 1- recurse drop"], ["drop"]]]
                # recursion that counts down; leaves nothing
                if body[1][1] == ["1- recurse"]:
                    body = ["dup 0 >", ["if", ["1- recurse"], ["drop"]]]
                items.append(["def", name, body])
                self.words.append((name, 1, 0))
                self.recursive = name
                continue
            body, db = self.seq(r.randint(0, 8), pops, 0, True, 3)
            pushes = r.choice([0, 1]) if db >= 1 else 0
            body = self.neutral(body, db - pushes)
            items.append(["def", name, body])
            self.words.append((name, pops, pushes))
        main, d = self.seq(max(3, self.budget), 0, 0, False, 3)
        # arguments for recursive words are small literals
        fixed = []
        for it in main:
            if isinstance(it, str) and getattr(self, "recursive", None) == it:
                fixed.append(str(r.choice([0, 1, 2, 3, 6])))
            fixed.append(it)
        return items + fixed


def gen_inputs(rng, names):
    out = {}
    for n in names:
        ln = rng.choice([0, 1, 2, 3, 4, 7, 8, 9, 12, 16, 17, 24, 32, 33, 48, 48, 63, 64, 64, 64])
        style = rng.random()
        if style < 0.3:
            b = bytes(rng.choice([0, 1, 1, 2, 3, 0]) for _ in range(ln))
        elif style < 0.45:
            b = bytes(rng.choice([0x80, 0xff, 0x7f, 0x01, 0x00, 0x81]) for _ in range(ln))
        elif style < 0.52:
            b = bytes([rng.choice([0x80, 0xff, 0x81])] * rng.choice([8, 9, 10, 11]) + [rng.choice([0, 1, 0x7f, 2])]
                      + [rng.randrange(256) for _ in range(ln // 4)])
        else:
            b = bytes(rng.randrange(256) for _ in range(ln))
        out[n] = b.hex()
    return out


CORRUPTIONS = ["drop-closer", "stray-closer", "unknown-word", "loop-index-outside", "redefine", "bad-dtype",
               "missing-name", "reserved-name", "dangling-variable", "dangling-input", "dangling-output",
               "unclosed-comment", "recurse-outside", "unclosed-string", "integer-name"]


def corrupt(rng, src, how):
    toks = src.split(" ")
    closers = [k for k, t in enumerate(toks) if t in ("then", "loop", "+loop", "until", "again", "repeat", ";")]
    if how == "drop-closer" and closers:
        del toks[rng.choice(closers)]
    elif how == "stray-closer":
        toks.insert(rng.randint(0, len(toks)), rng.choice(["then", "loop", "+loop", "until", "again", "repeat", ";",
                                                            "else", "while", "stack", "<-", "@", "!", ")"]))
        return " ".join(toks) + " "        # appended at top level (may land inside a comment or string: still fine)
    elif how == "unknown-word":
        toks.insert(rng.randint(0, len(toks)), rng.choice(["bogus", "DUP", "foo", "endif", "2dup", "pick", "?dup"]))
    elif how == "loop-index-outside":
        return rng.choice(["i", "j", "k"]) + " " + src
    elif how == "redefine":
        return src + " variable dupe input dupe"
    elif how == "bad-dtype":
        return "output bad " + rng.choice(["int", "float", "complex64", "Int32", "datetime64"]) + " " + src
    elif how == "missing-name":
        return src + " " + rng.choice(["variable", "input", "output", "output zz", ":", ": ;"])
    elif how == "reserved-name":
        return rng.choice(["variable", "input", ": "]) + " " + rng.choice(["dup", "if", "stack", "i->", "int32", "4bit->",
                                                                        "+", "len", "(", "1+"]) + " " + src
    elif how == "dangling-variable":
        return "variable zz " + src + " zz " + rng.choice(["", "zz @", "dup", "5"])
    elif how == "dangling-input":
        return "input zz " + src + " zz " + rng.choice(["", "stack", "i->", "i-> nothere", "->", "z-> stack", "!b-> stack",
                                                        "0bit-> stack", "65bit-> stack", "#-> stack", "!varint-> stack"])
    elif how == "dangling-output":
        return "output zz int32 " + src + " zz " + rng.choice(["", "<-", "+<-", "<- 5", "stack", "@"])
    elif how == "unclosed-comment":
        return src + " ( never closed"
    elif how == "recurse-outside":
        return "recurse " + src if rng.random() < 0.5 else src + " recurse"
    elif how == "unclosed-string":
        return src + rng.choice([" s\" never closed", " .\" never closed", " s\"", " .\""])
    elif how == "integer-name":
        return rng.choice(["variable 5", "input 0x10", ": 7 ;", "output -3 int8"]) + " " + src
    else:
        toks.insert(rng.randint(0, len(toks)), "bogus")
    return " ".join(toks)


KNOWN_SHAPES = ["neg-count", "min-div", "neg-rewind", "nbit-wide", "wide-read", "abs-wide", "exit-in-loop",
                "wide-literal", "zigzag-wide", "step-do"]


def known_shape(rng, shape):
    """small programs aimed at the recorded defects (a separate, capped stream)"""
    k = rng.choice(["b", "h", "i", "q", "B", "H", "I", "d"])
    inputs = {"x": bytes(rng.randrange(256) for _ in range(rng.choice([8, 16, 24]))).hex()}
    if shape == "neg-count":
        n = rng.choice([-1, -2, -3, -8])
        dest = rng.choice(["stack", "y"])
        return ["input x", "output y int32", "%d x #%s-> %s" % (n, k, dest), "x %s-> stack" % k], inputs
    if shape == "min-div":
        return ["1 %d lshift" % rng.choice([31, 63]), "-1", rng.choice(["/", "mod", "/mod"])], {}
    if shape == "neg-rewind":
        return ["output y %s" % rng.choice(ALL_DTYPES), "1 y <- stack", "%d y rewind" % rng.choice([-1, -3, -2000]),
                "y len"], {}
    if shape == "nbit-wide":
        return ["input x", "x %s%dbit-> stack" % (rng.choice(["", "!"]), rng.choice([32, 33, 40, 48, 63, 64])),
                "x pos"], inputs
    if shape == "wide-read":
        return ["input x", "x %s%s-> stack" % (rng.choice(["", "!"]), rng.choice(["q", "Q", "n", "N", "I", "d"]))], inputs
    if shape == "abs-wide":
        return ["1 %d lshift" % rng.choice([33, 40, 50]), rng.choice(["", "negate"]), "abs"], {}
    if shape == "exit-in-loop":
        return [["def", "w", ["7", rng.choice(["0", "1"]), ["if", ["exit"], None], "8"]],
                "%d 0" % rng.choice([2, 3]), ["do", ["w", "i"], "loop"], "9"], {}
    if shape == "wide-literal":
        return [rng.choice(["5000000000", "-3000000000", "0x100000000", "4294967295"])], {}
    if shape == "zigzag-wide":
        inputs = {"x": bytes([0xfe, 0xff, 0xff, 0xff, 0xff, 0x01, 0xff, 0xff, 0xff, 0xff, 0xff, 0x03]).hex()}
        return ["input x", "output y %s" % rng.choice(["int64", "float64", "uint64"]), "x zigzag-> y", "x zigzag-> y"], inputs
    return ["variable v", "3 0", ["do", ["i v +!"], "loop"], "v @"], {}


def gen_case(rng, tier, index):
    maxitems = 60 if tier == "quick" else 300
    case = {"mode": "valid", "config": {"stack": 1024, "recursion": 1024, "init": 1024, "resize": 1.5},
            "width_for_enumeration": 32 if index % 2 == 0 else 64, "extra_steps": rng.randint(0, 3)}
    if index % 16 == 9:
        shape = KNOWN_SHAPES[(index // 16) % len(KNOWN_SHAPES)]
        tree, inputs = known_shape(rng, shape)
        case.update(mode="known-shape", shape=shape, tree=tree, inputs=inputs)
        return case
    g = Gen(rng, tier)
    n = rng.choice([4, 8, 12, 20, 30, maxitems]) if tier == "quick" else rng.choice([8, 20, 40, 80, 150, maxitems])
    tree = g.program(n)
    case["tree"] = tree
    case["inputs"] = gen_inputs(rng, g.ins)
    c = rng.random()
    if c < 0.10:
        case["config"]["stack"] = rng.choice([1, 2, 3, 4, 6, 8])
    elif c < 0.18:
        case["config"]["recursion"] = rng.choice([1, 2, 3, 4, 6])
    if index % 6 == 5:
        case["mode"] = "invalid"
        case["corruption"] = rng.choice(CORRUPTIONS)
        case["src"] = corrupt(rng, render(tree), case["corruption"])
        del case["tree"]
    return case


# ---------------------------------------------------------------------------------------------- driving machines

class Nonterminating(Exception):
    pass


def machine(ctx, bits, src, cfg):
    return bridge_forth.ForthMachine(ctx.lib, bits, src, stack_max_depth=cfg["stack"],
                                     recursion_max_depth=cfg["recursion"], output_initial_size=cfg["init"],
                                     output_resize_factor=cfg["resize"])


def observe(m, err, inputs):
    st = m.state(sorted(inputs))
    st["error"] = err
    for n in sorted(inputs):
        if not 0 <= st["positions"][n] <= len(inputs[n]):
            st["position_out_of_range"] = n
    return st


def drive_run(m, inputs, cap, extra_steps=0):
    """run, then resume after every pause (optionally with extra single steps first) until done or error"""
    err = m.run(inputs)
    n = 0
    while err == "none" and not m.is_done:
        n += 1
        if n > cap:
            raise Nonterminating("resume")
        for _ in range(extra_steps):
            if m.is_done:
                break
            err = m.step()
            if err != "none":
                return err, n
        if m.is_done:
            break
        err = m.resume()
    return err, n


def drive_step(m, inputs, cap):
    m.begin(inputs)
    err = "none"
    n = 0
    while not m.is_done:
        n += 1
        if n > cap:
            raise Nonterminating("step")
        if n <= 40:
            # the position accessors must be safe at every instruction boundary
            m.current_recursion_depth
            if m.current_bytecode_position >= 0:
                m.current_instruction
        err = m.step()
        if err != "none":
            break
    return err, n


INDEX_KIND = {"int8": "i8", "uint8": "u8", "int32": "i32", "uint32": "u32", "int64": "i64"}
PHRASE = dict((e, "'" + e.replace("_", " ") + "'") for e in ERRORS)


def api_consistency(ctx, m, err, st, bits, src):
    """the accessors agree with each other and the error code maps to the documented exception"""
    bad = None
    if dict(st["variables"]) != m.variables:
        bad = {"what": "variables() map differs from variable_at", "map": m.variables, "at": st["variables"]}
    for name, (dt, n, _hex) in st["outputs"].items():
        for dtype, kind in INDEX_KIND.items():
            try:
                ln = m.output_index_length(name, kind)
                if dtype != dt or ln != n:
                    bad = {"what": "typed Index view", "output": name, "dtype": dt, "view": kind, "length": ln}
            except AkError as e:
                if dtype == dt:
                    bad = {"what": "typed Index view refused", "output": name, "dtype": dt, "error": str(e)[:200]}
    if err != "none":
        e = m.maybe_throw(err)
        if e is None or e.kind != "invalid_argument" or PHRASE[err] not in e.msg:
            bad = {"what": "maybe_throw", "error": err, "raised": None if e is None else str(e)[:200]}
        if m.maybe_throw(err, ignore=(err,)) is not None:
            bad = {"what": "maybe_throw raised an ignored error", "error": err}
    elif m.maybe_throw("none") is not None:
        bad = {"what": "maybe_throw raised without an error"}
    if bad:
        bad.update(bits=bits, src=src[:600])
        ctx.violation("api-inconsistent", bad)
    ctx.count("api_consistency_checks")


def reset_check(ctx, m, bits, src):
    m.reset()
    if m.stack != [] or any(v != 0 for v in m.variables.values()) or m.is_ready or not m.is_done or \
            m.step() != "not_ready" or m.resume() != "not_ready":
        ctx.violation("reset", {"bits": bits, "stack": m.stack, "variables": m.variables, "is_ready": m.is_ready,
                                "is_done": m.is_done, "src": src[:600]})


def drive_call(m, inputs, word, cap):
    """the program has exactly one pause, at top level, where `word` was: run to it, call the word, resume"""
    err = m.run(inputs)
    if err == "none" and not m.is_done:
        err = m.call(word)
        n = 0
        while err == "none" and not m.is_done:
            n += 1
            if n > cap:
                raise Nonterminating("call")
            err = m.resume()
    return err


def drive_call_at_pauses(m, inputs, word, cap):
    """run; at every pause call `word` from outside, then resume"""
    err = m.run(inputs)
    n = 0
    while err == "none" and not m.is_done:
        n += 1
        if n > cap:
            raise Nonterminating("call at pause")
        where = (m.current_bytecode_position, m.current_recursion_depth)
        err = m.call(word)
        if err != "none":
            break
        after = (m.current_bytecode_position, m.current_recursion_depth)
        if after != where:
            # call(word) runs the word and nothing else: the paused program must be where it was
            raise CallMoved(where, after)
        err = m.resume()
    return err, n


class CallMoved(Exception):
    pass


def same_state(a, b):
    keys = ("error", "stack", "variables", "outputs", "positions")
    return [k for k in keys if a.get(k) != b.get(k)]


def brief(st):
    out = dict(st)
    out["stack"] = out["stack"][-12:] if len(out["stack"]) > 12 else out["stack"]
    out["outputs"] = dict((k, [v[0], v[1], v[2][:64]]) for k, v in out.get("outputs", {}).items())
    return out


def agrees(st, res):
    """compare an observed state with one reference Result -> list of differing parts"""
    bad = []
    if forthref.ANY_ERROR in res.errors:
        if st["error"] in ("none", "user_halt"):
            bad.append("error")
    elif st["error"] not in res.errors:
        bad.append("error")
    U = forthref.U
    for part in res.compare:
        if part == "stack":
            if len(st["stack"]) != len(res.stack) or any(w is not U and g != w for g, w in zip(st["stack"], res.stack)):
                bad.append("stack")
        elif part == "variables":
            if len(st["variables"]) != len(res.variables) or any(
                    g[0] != w[0] or (w[1] is not U and g[1] != w[1]) for g, w in zip(st["variables"], res.variables)):
                bad.append("variables")
        elif part == "positions" and st["positions"] != res.positions:
            bad.append("positions")
        elif part == "outputs":
            got = st["outputs"]
            if sorted(got) != sorted(res.outputs):
                bad.append("outputs")
                continue
            for k, v in res.outputs.items():
                if got[k][:2] != [v[0], v[1]] or (k not in res.unknown_outputs and got[k][2] != v[2].hex()):
                    bad.append("outputs")
                    break
    return bad


def differential(st, res):
    best = agrees(st, res)
    if best and res.alternatives:
        for alt in res.alternatives:
            b = agrees(st, alt)
            if not b:
                return []
    return best


def run_case(ctx, case):
    mode = case["mode"]
    ctx.cover("mode", mode)
    cfg = case["config"]
    inputs = dict((k, bytes.fromhex(v)) for k, v in case.get("inputs", {}).items())
    src = case["src"] if "src" in case else render(case["tree"])
    budget = 4000 if ctx.tier == "quick" else 40000

    # ---- the reference's verdict on the source
    try:
        prog = forthref.compile_source(src)
        verdict = "ok"
    except forthref.CompileError as e:
        prog, verdict, why = None, "compile-error", str(e)
    except forthref.Abstain as a:
        prog, verdict, why = None, "abstain", a.reason
        ctx.cover("reference_abstains", "compile: " + re.sub(r"[:'\"].*", "", a.reason))
    ctx.cover("reference_compile", verdict)
    if mode == "invalid":
        ctx.cover("corruption", case["corruption"] + " -> " + verdict)

    # ---- compile on both widths: faults are exceptions, and both widths agree with the reference
    machines = {}
    for bits in (32, 64):
        try:
            machines[bits] = machine(ctx, bits, src, cfg)
            outcome = "ok"
        except AkError as e:
            outcome = "compile-error"
            ctx.cover("compile_error_kind", e.kind)
            msg = e.msg
        if verdict != "abstain" and outcome != verdict:
            ctx.violation("compile-verdict-differs", {"bits": bits, "reference": verdict, "library": outcome,
                                                      "why": why if verdict != "ok" else msg[:300], "src": src[:600]})
            return
    if len(machines) == 1:
        ctx.violation("widths-disagree-on-compile", {"compiled_on": list(machines), "src": src[:600]})
        return
    if not machines:
        ctx.nontrivial(verdict == "compile-error")
        ctx.count("compile_errors_agreed")
        return
    if verdict == "abstain":
        ctx.count("abstained_at_compile_time")
        # termination unknown: only stepping (bounded) is safe
        for bits in (32, 64):
            try:
                drive_step(machines[bits], pad_inputs(machines[bits], inputs), 300)
            except Nonterminating:
                pass
            except AkError:
                pass
        return

    inputs = dict((n, inputs.get(n, b"")) for n in prog.inputs)
    loopfree = not prog.has_loops
    npos = None
    any_opinion = 0

    for bits in (32, 64):
        m = machines[bits]
        # ---- reference run
        ref = None
        events = set()
        try:
            ref = forthref.execute(prog, bits, inputs, stack_max_depth=cfg["stack"],
                                   recursion_max_depth=cfg["recursion"], budget=budget)
            events = ref.events
        except forthref.Abstain as a:
            events = a.events
            ctx.cover("reference_abstains", "run: " + re.sub(r"[:'\"].*", "", a.reason))
            ctx.count("abstained_at_run_time")
        except forthref.Budget:
            ctx.count("reference_budget_exceeded")
            ctx.cover("not_run", "termination unknown")
            continue
        if ref is None and not loopfree:
            # no opinion and termination is not structural: only bounded stepping is safe
            ctx.cover("not_run", "abstained on a program with loops")
            try:
                drive_step(m, inputs, 500)
            except (Nonterminating, AkError):
                pass
            continue
        cap = (ref.steps if ref is not None else prog.ntokens) * 4 + 60
        evl = sorted(events)

        # ---- base schedule: run (+ resume at the program's own pauses)
        try:
            err, nres = drive_run(m, inputs, cap)
        except Nonterminating as e:
            ctx.violation("resume-nonterminating", {"bits": bits, "src": src[:800], "events": evl})
            continue
        base = observe(m, err, inputs)
        ctx.cover("error_kind", err)
        ctx.cover("schedule", "run+resume")
        if "position_out_of_range" in base:
            ctx.violation("input-position-out-of-range", {"bits": bits, "state": brief(base), "src": src[:800],
                                                          "events": evl})
            continue
        for n in sorted(inputs):
            if n in prog.inputs and m.input_bytes(n) != inputs[n]:
                ctx.violation("input-modified", {"bits": bits, "input": n, "src": src[:800], "events": evl})
        api_consistency(ctx, m, err, base, bits, src)
        if ref is not None:
            any_opinion += 1
            for w, k in ref.words.items():
                ctx.cover("words_executed", w, k)
            for e in evl:
                ctx.cover("reference_events", e)
            bad = differential(base, ref)
            ctx.count("differential_comparisons")
            if bad:
                ctx.violation("differs-from-reference", {
                    "bits": bits, "parts": bad, "library": brief(base), "reference": ref.summary(),
                    "failed_at": repr(ref.failed_at)[:80], "src": src[:800], "events": evl,
                    "inputs": case.get("inputs", {}), "config": cfg})
                continue
            if ref.steps >= 5:
                ctx.nontrivial(True)
            if bits == 64:
                ctx.sample({"src": src[:300], "inputs": case.get("inputs", {}), "error": err,
                            "stack": base["stack"][-8:], "outputs": brief(base)["outputs"]}, cap=5)
        npauses = (ref.words.get("pause", 0) if ref is not None else 0)

        def versus(kind, schedule, st, extra=None):
            d = same_state(base, st)
            ctx.count("schedule_comparisons")
            if d:
                det = {"bits": bits, "schedule": schedule, "parts": d, "base": brief(base), "other": brief(st),
                       "src": src[:800], "events": evl, "inputs": case.get("inputs", {}), "config": cfg}
                det.update(extra or {})
                ctx.violation(kind, det)
                return False
            return True

        def fresh(source=src, config=cfg):
            return machine(ctx, bits, source, config)

        # ---- determinism: same machine again, and a fresh machine
        try:
            err2, _ = drive_run(m, inputs, cap)
            versus("rerun-differs", "same machine, run again", observe(m, err2, inputs))
            reset_check(ctx, m, bits, src)
            m2 = fresh()
            err2, _ = drive_run(m2, inputs, cap)
            versus("nondeterministic", "second fresh machine", observe(m2, err2, inputs))
            ctx.cover("schedule", "determinism")
        except Nonterminating:
            ctx.violation("resume-nonterminating", {"bits": bits, "src": src[:800], "events": evl, "schedule": "rerun"})

        # ---- segmentation: begin + step until done
        ms = fresh()
        try:
            errs, nsteps = drive_step(ms, inputs, cap)
            versus("segmentation-differs", "begin+step", observe(ms, errs, inputs))
            ctx.cover("schedule", "begin+step")
        except Nonterminating:
            ctx.violation("step-nonterminating", {"bits": bits, "schedule": "begin+step", "cap": cap, "src": src[:800],
                                                  "events": evl, "inputs": case.get("inputs", {})})
        # ---- segmentation: resume with extra steps after each pause
        if npauses and case.get("extra_steps"):
            mx = fresh()
            try:
                errx, _ = drive_run(mx, inputs, cap, extra_steps=case["extra_steps"])
                versus("segmentation-differs", "resume with %d extra steps" % case["extra_steps"],
                       observe(mx, errx, inputs))
                ctx.cover("schedule", "pause+steps+resume")
            except Nonterminating:
                ctx.violation("step-nonterminating", {"bits": bits, "schedule": "pause+steps+resume", "src": src[:800],
                                                      "events": evl, "inputs": case.get("inputs", {})})

        # ---- configuration: output growth
        rng = random.Random("%s/%s" % (ctx.seed, src))
        for init, resize in [(1, 1.1)] + rng.sample([(1, 1.5), (1, 4.0), (2, 1.1), (2, 1.5), (2, 4.0), (1024, 1.1),
                                                     (1024, 4.0)], 2):
            mc = fresh(config=dict(cfg, init=init, resize=resize))
            try:
                errc, _ = drive_run(mc, inputs, cap)
            except Nonterminating:
                ctx.violation("resume-nonterminating", {"bits": bits, "src": src[:800], "events": evl})
                continue
            versus("growth-dependent", "output_initial_size=%d output_resize_factor=%s" % (init, resize),
                   observe(mc, errc, inputs))
            ctx.cover("config", "init=%d resize=%s" % (init, resize))

        # ---- configuration: limits (differential against the reference under the same limit)
        if ref is not None and "none" in ref.errors and cfg["stack"] == 1024 and cfg["recursion"] == 1024:
            trials = []
            if ref.max_stack >= 1:
                trials += [("stack", ref.max_stack, "exact"), ("stack", ref.max_stack - 1, "one-less")]
            trials += [("recursion", ref.max_blocks, "exact"), ("recursion", ref.max_blocks - 1, "one-less"),
                       ("recursion", max(ref.max_do, 1), "small")]
            for what, limit, tag in trials:
                if limit < 1:
                    continue
                cfg2 = dict(cfg)
                cfg2[what] = limit
                try:
                    ref2 = forthref.execute(prog, bits, inputs, stack_max_depth=cfg2["stack"],
                                            recursion_max_depth=cfg2["recursion"], budget=budget)
                except (forthref.Abstain, forthref.Budget):
                    continue
                ml = fresh(config=cfg2)
                try:
                    errl, _ = drive_run(ml, inputs, cap)
                except Nonterminating:
                    ctx.violation("resume-nonterminating", {"bits": bits, "src": src[:800], "config": cfg2})
                    continue
                stl = observe(ml, errl, inputs)
                ctx.cover("limit", "%s %s -> %s" % (what, tag, errl))
                bad = differential(stl, ref2)
                if bad:
                    ctx.violation("limit-differs-from-reference", {
                        "bits": bits, "limit": [what, limit, tag], "parts": bad, "library": brief(stl),
                        "reference": ref2.summary(), "src": src[:800], "events": sorted(ref2.events | events)})
                elif tag == "exact" and "none" in ref2.errors:
                    versus("limit-dependent", "%s_max_depth=%d (just enough)" % (what, limit), stl)

        # ---- decompile
        try:
            text = m.decompiled
            md = fresh(source=text)
            errd, _ = drive_run(md, inputs, cap)
            if versus("decompiled-differs", "decompiled program", observe(md, errd, inputs), {"decompiled": text[:800]}):
                if md.decompiled != text:
                    ctx.violation("decompile-not-idempotent", {"bits": bits, "first": text[:600],
                                                               "second": md.decompiled[:600], "src": src[:600]})
            ctx.cover("schedule", "decompiled")
        except AkError as e:
            ctx.violation("decompiled-does-not-compile", {"bits": bits, "error": str(e)[:300], "src": src[:800],
                                                          "decompiled": text[:800], "events": evl})
        except Nonterminating:
            ctx.violation("resume-nonterminating", {"bits": bits, "src": src[:800], "schedule": "decompiled"})

        # ---- pause inserted at every item boundary (enumeration), one width per case
        if "tree" in case and bits == case["width_for_enumeration"]:
            pos = positions(case["tree"])
            npos = len(pos)
            for p in pos:
                srcp = render(insert_at(case["tree"], p, "pause"))
                try:
                    mp = fresh(source=srcp)
                    errp, nres = drive_run(mp, inputs, cap + 10)
                except AkError as e:
                    ctx.violation("pause-variant-does-not-compile", {"bits": bits, "error": str(e)[:200], "src": srcp[:800]})
                    break
                except Nonterminating:
                    ctx.violation("resume-nonterminating", {"bits": bits, "src": srcp[:800], "events": evl,
                                                            "schedule": "pause inserted"})
                    break
                ctx.count("pause_points_enumerated")
                if nres:
                    ctx.count("pause_points_reached")
                if not versus("segmentation-differs", "pause inserted", observe(mp, errp, inputs),
                              {"with_pause": srcp[:800], "resumes": nres}):
                    break
            ctx.cover("schedule", "pause at every boundary")

            # ---- call(word): a top-level call of a user word replaced by pause + external call
            if npauses == 0 and "pause" not in src and (cfg["recursion"] > 1 or case.get("extra_steps") == 0):
                tree = case["tree"]
                sites = [k for k, it in enumerate(tree) if isinstance(it, str) and it in prog.words and
                         k + 1 < len(tree) and executable(tree[k + 1])]
                for k in sites[:2]:
                    tree2 = list(case["tree"])
                    word = tree2[k]
                    tree2[k] = "pause"
                    mcall = fresh(source=render(tree2))
                    try:
                        errk = drive_call(mcall, inputs, word, cap)
                    except Nonterminating:
                        ctx.violation("resume-nonterminating", {"bits": bits, "src": render(tree2)[:800],
                                                                "schedule": "call"})
                        continue
                    versus("segmentation-differs", "pause + call(word) + resume", observe(mcall, errk, inputs),
                           {"word": word, "with_pause": render(tree2)[:800]})
                    ctx.cover("schedule", "call(word)")

            # ---- call(word) at a nested pause == the word written at that place
            if "pause" not in src and prog.word_order and cfg["recursion"] > 8:
                tree = case["tree"]
                word = prog.word_order[0]
                kdef = [k for k, it in enumerate(tree) if isinstance(it, list) and it[0] == "def" and it[1] == word][0]
                eligible = [p for p in pos if (p[0][0] if p[0] else p[1]) > kdef and followed(tree, p)]
                for p in rng.sample(eligible, min(2, len(eligible))):
                    src_inline = render(insert_at(tree, p, word))
                    try:
                        refi = forthref.execute(forthref.compile_source(src_inline), bits, inputs,
                                                stack_max_depth=cfg["stack"], recursion_max_depth=cfg["recursion"],
                                                budget=budget)
                    except (forthref.Abstain, forthref.Budget, forthref.CompileError):
                        ctx.count("call_at_pause_skipped")
                        continue
                    if refi.events & CRASHING_EVENTS:
                        # the modified program would exercise a recorded crash that the case descriptor (the
                        # unmodified program) could not be blamed for
                        ctx.count("call_at_pause_skipped_known_crash")
                        continue
                    capi = refi.steps * 4 + 60
                    src_pause = render(insert_at(tree, p, "pause"))
                    try:
                        mi = fresh(source=src_inline)
                        erri, _ = drive_run(mi, inputs, capi)
                        sti = observe(mi, erri, inputs)
                        mq = fresh(source=src_pause)
                        errq, ncalls = drive_call_at_pauses(mq, inputs, word, capi)
                        stq = observe(mq, errq, inputs)
                    except Nonterminating:
                        ctx.violation("resume-nonterminating", {"bits": bits, "src": src_pause[:800], "word": word,
                                                                "schedule": "call at nested pause",
                                                                "events": sorted(refi.events)})
                        continue
                    except CallMoved as e:
                        ctx.violation("call-moved-the-paused-program", {
                            "bits": bits, "src": src_pause[:800], "word": word, "events": sorted(refi.events),
                            "position_and_depth_before": e.args[0], "after": e.args[1]})
                        continue
                    d = same_state(sti, stq)
                    ctx.count("schedule_comparisons")
                    ctx.cover("schedule", "call(word) at a nested pause")
                    if ncalls:
                        ctx.count("external_calls_made", ncalls)
                    if d:
                        ctx.violation("segmentation-differs", {
                            "bits": bits, "schedule": "call(word) at a nested pause vs the word written there",
                            "parts": d, "base": brief(sti), "other": brief(stq), "word": word,
                            "src": src_inline[:800], "with_pause": src_pause[:800], "events": sorted(refi.events),
                            "inputs": case.get("inputs", {}), "config": cfg})

    if npos is not None:
        ctx.cover("pause_points_per_program", min(npos, 100) // 10 * 10)
    if mode == "known-shape":
        ctx.cover("known_shape", case["shape"])


def followed(tree, pos):
    """the boundary has an executable item after it in the same body (a pause there is not the end of a segment)"""
    path, k = pos
    node = tree
    for p in path:
        node = node[p]
    return k < len(node) and executable(node[k])


def executable(it):
    """an item that compiles to at least one instruction (so that a pause before it is not the end of the program)"""
    if isinstance(it, list):
        return it[0] != "def"
    return not it.startswith(("(", "\\", "variable ", "input ", "output "))


def pad_inputs(m, inputs):
    out = dict(inputs)
    for n in m.input_names:
        out.setdefault(n, b"")
    return out


# ---------------------------------------------------------------------------------------------- known findings
# Mechanism predicates for genuine defects of ForthMachine in 1.4.0 (see /verif/c19_findings.md).  They look at the
# *mechanism*: the events the reference interpreter records for the program of the violating case (recomputed here
# from the case descriptor), the schedule, the machine width and the kind of violation - never at seeds or hashes.

def _events(vio):
    det = vio.get("detail") or {}
    if isinstance(det, dict) and "events" in det:
        return set(det["events"])
    case = vio.get("case") or {}
    src = case["src"] if "src" in case else render(case.get("tree", []))
    inputs = dict((k, bytes.fromhex(v)) for k, v in case.get("inputs", {}).items())
    ev = set()
    try:
        prog = forthref.compile_source(src)
    except Exception:
        return ev
    for n in prog.inputs:
        inputs.setdefault(n, b"")
    for bits in (32, 64):
        try:
            ev |= forthref.execute(prog, bits, inputs, budget=40000).events
        except forthref.Abstain as a:
            ev |= a.events
        except Exception:
            pass
    return ev


def _report(vio):
    det = vio.get("detail") or {}
    return (det.get("report") if isinstance(det, dict) else "") or ""


def _bits(vio):
    det = vio.get("detail") or {}
    return det.get("bits") if isinstance(det, dict) else None


MISMATCH = ("differs-from-reference", "limit-differs-from-reference")
# a wrong value on the stack can steer the control flow anywhere: besides a mismatch, not ending is a symptom too
WRONG_VALUE = MISMATCH + ("hang", "resume-nonterminating", "step-nonterminating")
CRASHING_EVENTS = {"exit-inside-callers-do-loop", "exit-from-inside-own-do-loop", "min-int-divided-by-minus-one"}


def _k_negative_count(vio):
    # a repeated fixed-width read `#x->` given a negative count moves the input position backwards unchecked
    return any(e == "negative-repeat-count:fixed" for e in _events(vio)) and vio["kind"] in (
        "process-death", "input-position-out-of-range", "segmentation-differs", "nondeterministic", "rerun-differs",
        "growth-dependent", "decompiled-differs", "input-modified")


def _k_min_div(vio):
    # INT_MIN / -1, INT_MIN mod -1, INT_MIN /mod -1: hardware trap
    rep = _report(vio)
    return "min-int-divided-by-minus-one" in _events(vio) and vio["kind"] == "process-death" and (
        "FPE" in rep or "Floating point exception" in rep or (vio.get("detail") or {}).get("signal") == "SIGFPE")


def _k_step_do(vio):
    # step() that executes the last instruction of a do-loop body never advances the loop index
    det = vio.get("detail") or {}
    sched = det.get("schedule", "")
    return "do-body-completed" in _events(vio) and vio["kind"] in ("step-nonterminating", "segmentation-differs") and \
        (sched == "begin+step" or "extra steps" in sched or sched == "pause+steps+resume")


def _k_exit_loop(vio):
    # `exit` inside a word that was called from within a do-loop also discards the caller's loop (a later `i` then
    # reads before the loop stack: heap-buffer-overflow READ in internal_run)
    ev = _events(vio)
    # once a loop has been dropped or left behind the interpreter mis-reads bytecodes: any run-time symptom
    return ("exit-inside-callers-do-loop" in ev or "exit-from-inside-own-do-loop" in ev) and (
        vio["kind"] in MISMATCH or vio["kind"] in ("hang", "resume-nonterminating", "step-nonterminating",
                                                   "segmentation-differs", "decompiled-differs", "growth-dependent",
                                                   "limit-dependent", "call-moved-the-paused-program") or
        (vio["kind"] == "process-death" and "internal_run" in _report(vio)))


def _k_step_exit(vio):
    # step() that executes `exit` leaves the enclosing control structures but not the word itself
    det = vio.get("detail") or {}
    sched = det.get("schedule", "")
    return "exit-executed" in _events(vio) and vio["kind"] in ("step-nonterminating", "segmentation-differs") and \
        (sched == "begin+step" or "extra steps" in sched or sched == "pause+steps+resume")


def _k_call_limit(vio):
    # call(word) pushes a segment without testing recursion_max_depth
    rep = _report(vio)
    return vio["kind"] == "process-death" and "bytecodes_pointer_push" in rep and re.search(r"ForthMachineOf<\w+, int>::call\(", rep)


def _k_float_swap(vio):
    # byteswap32/64 applied to a float/double local through an integer pointer (strict-aliasing UB): clang drops the swap
    det = vio.get("detail") or {}
    return vio["kind"] in MISMATCH and "big-endian-float-single-direct" in _events(vio) and \
        "outputs" in det.get("parts", [])


def _k_mod_overflow(vio):
    return vio["kind"] in WRONG_VALUE and "modulo-of-large-divisor" in _events(vio)


def _k_wide_push(vio):
    # ForthMachine64 pushes values read from inputs (and i j k) through a cast to the 32-bit bytecode type
    ev = _events(vio)
    return _bits(vio) in (64, None) and vio["kind"] in WRONG_VALUE and (
        "read-to-stack-beyond-int32" in ev or "loop-index-beyond-int32" in ev)


def _k_abs64(vio):
    return _bits(vio) in (64, None) and vio["kind"] in WRONG_VALUE and "abs-beyond-int32" in _events(vio)


def _k_nbit(vio):
    return vio["kind"] in WRONG_VALUE and "nbit-32-or-more" in _events(vio)


def _k_zigzag(vio):
    return _bits(vio) == 32 and vio["kind"] in MISMATCH and "zigzag-direct-beyond-int32" in _events(vio)


def _k_neg_rewind(vio):
    return "negative-rewind" in _events(vio) and vio["kind"] in (
        "process-death", "nondeterministic", "rerun-differs", "segmentation-differs", "growth-dependent",
        "decompiled-differs")


def _k_semicolon_in_comment(vio):
    det = vio.get("detail") or {}
    if vio["kind"] != "compile-verdict-differs" or det.get("library") != "compile-error" or det.get("reference") != "ok":
        return False
    if "is missing its closing ')'" not in str(det.get("why")):
        return False
    depth = 0
    for tok in str(det.get("src") or "").split():
        if tok == "(":
            depth += 1
        elif tok == ")" and depth:
            depth -= 1
        elif depth and tok in (";", "then", "else", "loop", "+loop", "until", "again", "repeat", "while"):
            return True
    return False


LOCAL_KNOWN = [
    ("FF86-forth-semicolon-inside-comment", _k_semicolon_in_comment,
     "a structure-closing word (`;`, `then`, `else`, `loop`, `until`, `repeat`, ...) inside a `( ... )` comment within "
     "that structure ends it (the compiler looks for the closing word before it skips comments): `: w 1 ( a ; b ) 2 ;` "
     "and `1 if ( a then b ) 2 then` are refused with \"'(' is missing its closing ')'\""),
    ("FF72-forth-negative-repeat-count", _k_negative_count,
     "AwkwardForth repeated read `n x #T-> ...` with a negative count n moves the input position backwards "
     "without a bounds check (ForthInputBuffer::read only tests the upper end): later reads run before the "
     "buffer (heap-buffer-overflow READ) / input position negative"),
    ("FF73-forth-min-int-div-minus-one", _k_min_div,
     "AwkwardForth `/`, `mod`, `/mod` of the minimum integer by -1 (e.g. `1 63 lshift -1 /`, 32-bit machine "
     "`1 31 lshift -1 /`) executes the hardware division: SIGFPE kills the process instead of wrapping"),
    ("FF74-forth-step-at-end-of-do-body", _k_step_do,
     "ForthMachine::step() that executes the last instruction of a `do .. loop` body pops the body but never "
     "increments the loop index (only run/resume and `pause` do): single-stepping a do-loop repeats the first "
     "iteration forever, so results depend on the segmentation"),
    ("FF75-forth-exit-discards-callers-do-loop", _k_exit_loop,
     "`exit` cleans the do-loop stack with `depth != current` instead of `depth >= current`: it discards the loops "
     "of the *callers* (`: f exit ; 3 0 do 7 f loop` gives 7 7; a later `i` reads before the loop stack) and keeps "
     "the loops of the word it leaves (a stale loop then re-interprets the next word entered at that depth: "
     "garbage bytecodes, heap-buffer-overflow READ in internal_run)"),
    ("FF76-forth-machine64-pushes-through-int32", _k_wide_push,
     "ForthMachine64 pushes typed reads (q Q n N I f d -> stack) and loop indices i j k through a cast to the 32-bit "
     "bytecode type I instead of the stack type T: `x q-> stack` of 2**32 gives 0, `x I-> stack` of 0xffffffff "
     "gives -1"),
    ("FF77-forth-abs-is-int-abs", _k_abs64,
     "`abs` on ForthMachine64 calls the C int abs(int): values beyond 32 bits are truncated (`1 40 lshift abs` "
     "gives 0)"),
    ("FF78-forth-nbit-32-or-more", _k_nbit,
     "`Nbit->` with N >= 32 (accepted up to 64) computes its mask as `(1 << N) - 1` in 32-bit int arithmetic and "
     "keeps a 64-bit window: `x 32bit-> stack` always gives 0"),
    ("FF79-forth-zigzag-direct-through-stack-type", _k_zigzag,
     "ForthMachine32 `zigzag-> output` casts the decoded value to the 32-bit stack type before writing it to a "
     "64-bit or floating-point output"),
    ("FF81-forth-call-ignores-recursion-limit", _k_call_limit,
     "ForthMachine::call(word) pushes the word's segment without testing recursion_max_depth: with the machine "
     "paused at the limit (recursion_max_depth=1 and a paused program) it writes past current_which_/current_where_ "
     "(heap-buffer-overflow WRITE) instead of returning recursion_depth_exceeded"),
    ("FF82-forth-float-byteswap-strict-aliasing", _k_float_swap,
     "`!f->`/`!d->` (one item) directly to an output: write_one_float32/64 swap the float/double local through a "
     "uint32_t*/uint64_t* (strict-aliasing UB); clang drops the swap, the value is written in the wrong byte order"),
    ("FF83-forth-modulo-large-divisor", _k_mod_overflow,
     "`mod` and `/mod` compute (b + a % b) % b: the sum overflows when the divisor is near the type's limits "
     "(`16 2147483647 mod` gives -2147483633 on ForthMachine32)"),
    ("FF84-forth-step-on-exit", _k_step_exit,
     "ForthMachine::step() that executes `exit` unwinds the enclosing control structures but does not leave the "
     "word (or the program): single-stepping continues after the `if .. then` that contains the exit"),
    ("FF80-forth-negative-rewind", _k_neg_rewind,
     "`n out rewind` with negative n extends the output's length past its reservation without allocating: the "
     "output exposes uninitialised / out-of-bounds memory"),
]


def classify(vio):
    for name, pred, _ in LOCAL_KNOWN:
        try:
            if pred(vio):
                return name
        except Exception:
            continue
    from vlib import known
    return known.classify(vio)


VOCABULARY = (
    ["literal", "call", "if", "if-else", "do", "+loop", "begin-until", "begin-again", "begin-while-repeat", "exit", "halt",
     "pause", "s\"", ".\"", "variable !", "variable +!", "variable @", "input len", "input pos", "input end",
     "input seek", "input skip", "output <-", "output +<-", "output len", "output rewind", "output dup"] +
    forthref.PLAIN +
    [rep + big + k + "-> " + dest for rep in ("", "#") for big in ("", "!") for k in READ_KINDS
     for dest in ("stack", "output") if not (big and k in ("?", "b", "B"))] +
    [rep + k + "-> " + dest for rep in ("", "#") for k in ("varint", "zigzag", "Nbit", "!Nbit")
     for dest in ("stack", "output")])


def finish(merged, ev):
    """vocabulary coverage of this run, from the reference interpreter's execution counts"""
    seen = merged["cover"].get("words_executed", {})
    ev["coverage"]["vocabulary_size"] = len(VOCABULARY)
    ev["coverage"]["vocabulary_executed"] = sum(1 for w in VOCABULARY if seen.get(w))
    ev["coverage"]["vocabulary_not_executed"] = [w for w in VOCABULARY if not seen.get(w)]
    c = merged["counters"]
    ev["coverage"]["pause_points"] = {"enumerated": c.get("pause_points_enumerated", 0),
                                      "reached_at_run_time": c.get("pause_points_reached", 0)}
    ev["coverage"]["reference_abstentions"] = {"at_compile_time": c.get("abstained_at_compile_time", 0),
                                               "at_run_time": c.get("abstained_at_run_time", 0),
                                               "budget_exceeded": c.get("reference_budget_exceeded", 0)}


def signature(vio):
    det = vio.get("detail") or {}
    if vio["kind"] == "process-death":
        return None
    parts = ",".join(det.get("parts", [])) if isinstance(det, dict) else ""
    sched = det.get("schedule", "") if isinstance(det, dict) else ""
    sched = re.sub(r"\d+", "N", sched)
    ev = ",".join(e for e in det.get("events", []) if e not in ("do-body-completed", "do-zero-iterations")) \
        if isinstance(det, dict) else ""
    return "%s[%s|%s|%s|%s]" % (vio["kind"], det.get("bits") if isinstance(det, dict) else "", parts, sched, ev[:60])


if __name__ == "__main__":
    from vlib import runner
    sys.exit(runner.main(sys.modules[__name__]))
