"""C16 - buffers, pickle, NumPy and Arrow conversions are lossless (lane P: the repository's Python layer).

Round-trip monitors on generated layouts (every node class and index width, non-zero-based offsets, unreachable
content, all primitive dtypes, strings, categoricals), values read through the bridge's structural dump:

  buffers : from_buffers(*to_buffers(a)) has a's value, type string and parameters for several form_key / key_format
            choices, also when every buffer of the container is replaced by its raw bytes, and for partitioned input
            (same partition lengths)
  pickle  : pickle.loads(pickle.dumps(ak.Array)) - value and type
  numpy   : from_numpy / to_numpy are mutually inverse on generated NumPy arrays (n-d, strided, masked, structured,
            strings) and to_numpy(a).tolist() equals the value of a for rectilinear a
  arrow   : from_arrow(to_arrow(a)) has a's value (missing values preserved below the top level) for the Arrow options
            list_to32 / string_to32 / bytestring_to32 / allow_tensor, and pyarrow's own to_pylist() of the intermediate
            equals it too
"""
from __future__ import print_function

import pickle
import sys

import numpy as np

from vlib import gen, model

PROPERTY = "C16"
LEVEL = "exploration"
RULE = ("a case is (generated layout or NumPy array, conversion family, options); non-trivial = length > 0 and the "
        "round trip returned (no refusal); distinct = SHA-1 of the case descriptor")
VARIANTS = {"quick": ["plain"], "thorough": ["plain", "asan"]}
BUDGET = {"quick": dict(cases=30000, seconds=70), "thorough": dict(cases=300000, seconds=1500)}
MIN_NONTRIVIAL = {"quick": 1500, "thorough": 15000}
ASSUMPTIONS = [
    "lane P: awkward._ext is the akext stand-in (akext/README.md), calibrated against the repository's own tests",
    "pyarrow 25 and NumPy 2.5 are what the sandbox provides (the sources target pyarrow 2-4 / NumPy 1.x); API drift is "
    "shimmed in vlib/lanep.py and anything that cannot be shimmed is reported as excluded, not as held",
    "virtual arrays are exercised in C18 (lane L); here they appear only as partitioned/plain inputs",
]

FAMS = ["buffers", "buffers", "pickle", "numpy", "from_numpy", "arrow", "arrow"]
ARROW_DTYPES = ["bool", "int8", "int16", "int32", "int64", "uint8", "uint16", "uint32", "uint64", "float32", "float64"]


NODATE = [d for d in gen.ALL_DTYPES if not (d.startswith("datetime") or d.startswith("timedelta"))]


def gen_case(rng, tier, index):
    """streams: 'core' (contiguous leaf buffers, no datetime/timedelta) and, one case in eight, 'wide' (strided and
    reversed leaf buffers, datetime/timedelta leaves: conversions of these are recorded known findings)"""
    fam = FAMS[index % len(FAMS)]
    cfg = gen.Cfg(tier)
    wide = (index // len(FAMS)) % 8 == 7
    gen.CONTIGUOUS_LEAVES = not wide
    if not wide:
        cfg.dtypes = NODATE
    try:
        case = _gen_case(rng, tier, fam, cfg, wide)
    finally:
        gen.CONTIGUOUS_LEAVES = False
    case["stream"] = "wide" if wide else "core"
    return case


def _gen_case(rng, tier, fam, cfg, wide):
    case = {"fam": fam}
    if fam == "from_numpy":
        dt = rng.choice(["bool", "int8", "uint16", "int32", "int64", "uint64", "float32", "float64", "complex128",
                         "str", "bytes", "struct"] + (["datetime64[s]", "timedelta64[ms]"] * 3 if wide else []))
        nd = rng.choice([1, 1, 2, 3]) if dt != "struct" else 1
        shape = [rng.choice([0, 1, 2, 3, 5]) for _ in range(nd)]
        case.update({"dtype": dt, "shape": shape, "seed": rng.randrange(1 << 30),
                     "strided": wide and rng.random() < 0.6, "masked": rng.random() < 0.25,
                     "regulararray": rng.random() < 0.5})
        return case
    if fam == "arrow":
        cfg.dtypes = ARROW_DTYPES if not wide else ARROW_DTYPES + ["datetime64[s]"]
        cfg.categorical = rng.random() < 0.2
        cfg.unknown = False
    if fam == "numpy":
        cfg.unions = False
        cfg.records = rng.random() < 0.2
        cfg.categorical = False
    T, vals, d = gen.layout(rng, cfg)
    case.update({"T": T, "layout": d})
    if fam == "buffers":
        case["form_key"] = rng.choice(["node{id}", "x{id}", "default"])
        case["key_format"] = rng.choice(["{form_key}-{attribute}", "part{partition}-{form_key}-{attribute}", "default"])
        case["raw"] = rng.random() < 0.5
        n = len(vals)
        if n >= 2 and rng.random() < 0.3:
            cuts = sorted(rng.randint(0, n) for _ in range(rng.randint(1, 2)))
            stops = cuts + [n]
            parts, a = [], 0
            for s in stops:
                parts.append(gen.encode(rng, T, vals[a:s], "canonical", cfg))     # partitions must share one Form
                a = s
            case["parts"] = parts
            case["key_format"] = rng.choice(["part{partition}-{form_key}-{attribute}", "default", "{form_key}:{attribute}:{partition}"])
    if fam == "arrow":
        case["opts"] = {"list_to32": rng.random() < 0.5, "string_to32": rng.random() < 0.5,
                        "bytestring_to32": rng.random() < 0.5, "allow_tensor": rng.random() < 0.5}
    return case


# ---------------------------------------------------------------------------------------------------------------------

def _params_of(d):
    out = []
    for p, n in model.walk(d):
        out.append(sorted((n.get("params") or {}).items()))
    return out


def run_case(ctx, case):
    from vlib import lanep_util
    ak, P = lanep_util.setup(ctx)
    fam = case["fam"]
    ctx.cover("family", fam)
    ctx.cover("stream", case.get("stream"))
    if fam == "from_numpy":
        return run_from_numpy(ctx, ak, P, case)
    d = case["layout"]
    for c in model.classes(d):
        ctx.cover("input_classes", c)
    expected = model.value(d)
    a = P.array(d)
    n = len(expected)
    det = {"family": fam, "type": gen.typestr(case["T"]), "classes": sorted(model.classes(d))}
    if fam == "buffers":
        return run_buffers(ctx, ak, P, case, a, expected, det)
    if fam == "pickle":
        try:
            b = pickle.loads(pickle.dumps(a, protocol=pickle.HIGHEST_PROTOCOL))
        except Exception as e:     # noqa
            ctx.violation("pickle-raised", dict(det, error="%s: %s" % (type(e).__name__, str(e)[:200])))
            return
        ctx.nontrivial(n > 0)
        return _same(ctx, P, det, "pickle", a, b, expected)
    if fam == "numpy":
        return run_to_numpy(ctx, ak, P, case, a, expected, det)
    return run_arrow(ctx, ak, P, case, a, expected, det)


def _same(ctx, P, det, what, a, b, expected, check_type=True):
    try:
        got = P.value(b)
    except Exception as e:     # noqa  (the rebuilt layout cannot be read: it is not a valid layout)
        ctx.violation(what + "-invalid-layout", dict(det, error="%s: %s" % (type(e).__name__, str(e)[:120])))
        return False
    if not model.same(got, expected):
        ctx.violation(what + "-value-changed", dict(det, expected=model.brief(expected, 300), got=model.brief(got, 300)))
        return False
    if check_type:
        ta, tb = P.typestr(a), P.typestr(b)
        if ta != tb:
            ctx.violation(what + "-type-changed", dict(det, before=ta, after=tb))
            return False
    ctx.count(what + "_round_trips_equal")
    return True


def run_buffers(ctx, ak, P, case, a, expected, det):
    kw = {}
    if case["form_key"] != "default":
        kw["form_key"] = case["form_key"]
    if case["key_format"] != "default":
        kw["key_format"] = case["key_format"]
    src = a
    lens = None
    if case.get("parts"):
        parts = [P.layout(p) for p in case["parts"]]
        src = ak.Array(ak.partition.IrregularlyPartitionedArray(parts))
        lens = [len(p) for p in parts]
        expected = []
        for p in case["parts"]:
            expected.extend(model.value(p))
        ctx.cover("buffers_input", "partitioned")
    else:
        ctx.cover("buffers_input", "single")
    det = dict(det, options=kw, raw=case["raw"], partitioned=bool(lens))
    try:
        form, length, container = ak.to_buffers(src, **kw)
    except Exception as e:     # noqa
        ctx.violation("to_buffers-raised", dict(det, error="%s: %s" % (type(e).__name__, str(e)[:200])))
        return
    if case["raw"]:
        container = dict((k, np.asarray(v).tobytes()) for k, v in container.items())
    kw2 = {}
    if "key_format" in kw:
        kw2["key_format"] = kw["key_format"]
    try:
        b = ak.from_buffers(form, length, container, **kw2)
    except Exception as e:     # noqa
        ctx.violation("from_buffers-raised", dict(det, error="%s: %s" % (type(e).__name__, str(e)[:200]),
                                                  form=str(form)[:300]))
        return
    ctx.nontrivial(len(expected) > 0)
    if not _same(ctx, P, det, "buffers", src, b, expected):
        return
    if lens is not None:
        lay = b.layout
        got = [len(p) for p in lay.partitions] if isinstance(lay, ak.partition.PartitionedArray) else None
        if got != lens:
            ctx.violation("buffers-partitioning-changed", dict(det, before=lens, after=got))
            return
    else:
        pb = _params_of(P.describe(b.layout))
        pa = _params_of(P.describe(src.layout))
        if pa != pb:
            ctx.violation("buffers-parameters-changed", dict(det, before=str(pa)[:300], after=str(pb)[:300]))
            return
    ctx.sample(dict(det, n=len(expected)), cap=4)


def _rectilinear(T):
    t = T["t"]
    if t == "prim":
        return True
    if t == "regular":
        return _rectilinear(T["e"])
    return False


def _numeric_lists(T):
    t = T["t"]
    if t == "prim":
        return True
    if t in ("list", "regular", "option"):
        return _numeric_lists(T["e"])
    return False


def run_to_numpy(ctx, ak, P, case, a, expected, det):
    T = case["T"]
    rect = _rectilinear(T)
    try:
        arr = ak.to_numpy(a)
        kind = "value"
    except Exception as e:     # noqa
        kind, err = "error", "%s: %s" % (type(e).__name__, str(e)[:160])
    ctx.cover("to_numpy", ("rectilinear" if rect else "other") + ":" + kind)
    if kind == "value" and not isinstance(arr, np.ndarray):
        ctx.violation("to_numpy-returned-non-ndarray", dict(det, returned=type(arr).__name__))
        return
    if rect:
        if kind == "error":
            ctx.violation("to_numpy-raised-on-rectilinear", dict(det, error=err))
            return
        got = _np_tolist(arr)
        ctx.nontrivial(len(expected) > 0)
        if not model.same(got, expected):
            ctx.violation("to_numpy-differs-from-value", dict(det, expected=model.brief(expected, 300),
                                                              got=model.brief(got, 300), dtype=str(arr.dtype)))
            return
        ctx.count("to_numpy_equal_value")
        # and back
        try:
            back = ak.from_numpy(arr)
        except Exception as e:     # noqa
            ctx.violation("from_numpy-raised", dict(det, error="%s: %s" % (type(e).__name__, str(e)[:160])))
            return
        if not model.same(P.value(back), expected):
            ctx.violation("numpy-round-trip-changed", dict(det, expected=model.brief(expected, 300),
                                                           got=model.brief(P.value(back), 300)))
        return
    if kind == "value" and not _numeric_lists(T):
        ctx.count("to_numpy_of_strings_or_records_not_compared")     # fixed-width strings / structured dtypes: NumPy's
        return                                                        # own conventions (NUL stripping, ...) apply
    if kind == "value":
        # non-rectilinear input that NumPy could still hold (equal-length var lists, options -> masked): to_numpy must
        # agree with the value where it returns
        got = _np_tolist(arr)
        exp2 = _records_as_tuples(expected)
        if isinstance(arr, np.ma.MaskedArray) and arr.ndim > 1:
            exp2 = _expand_missing_rows(exp2, arr.shape[1:])     # a missing row is a row of masked items
        ctx.nontrivial(len(expected) > 0)
        if not model.same(got, exp2):
            ctx.violation("to_numpy-differs-from-value", dict(det, expected=model.brief(exp2, 300),
                                                              got=model.brief(got, 300), dtype=str(arr.dtype)))
            return
        ctx.count("to_numpy_equal_value")


def _expand_missing_rows(v, shape):
    if not shape:
        return v
    if v is None:
        out = None
        for n in reversed(shape):
            out = [out] * n
        return out
    if isinstance(v, list):
        return [_expand_missing_rows(x, shape[1:]) if False else _expand_missing_rows_at(x, shape) for x in v]
    return v


def _expand_missing_rows_at(x, shape):
    """x is one element below the first axis; shape = the array's shape below the first axis"""
    if x is None:
        out = None
        for n in reversed(shape):
            out = [out] * n
        return out
    if isinstance(x, list) and len(shape) > 1:
        return [_expand_missing_rows_at(y, shape[1:]) for y in x]
    return x


def _records_as_tuples(v):
    if isinstance(v, list):
        return [_records_as_tuples(x) for x in v]
    if isinstance(v, dict):
        return tuple(_records_as_tuples(x) for x in v.values())
    if isinstance(v, tuple):
        return tuple(_records_as_tuples(x) for x in v)
    return v


def _np_tolist(arr):
    if isinstance(arr, np.ma.MaskedArray):
        data = arr.tolist()        # masked entries -> None
        return _norm(data, arr.dtype)
    return _norm(arr.tolist(), arr.dtype)


def _norm(x, dtype=None):
    if isinstance(x, list):
        return [_norm(y, dtype) for y in x]
    if isinstance(x, tuple):
        return tuple(_norm(y) for y in x)
    if isinstance(x, np.generic):
        return x.item()
    return x


def run_from_numpy(ctx, ak, P, case):
    rng = np.random.RandomState(case["seed"] % (1 << 31))
    dt, shape = case["dtype"], list(case["shape"])
    full = [s * 2 for s in shape] if case["strided"] else shape
    n = int(np.prod(full)) if full else 1
    if dt == "str":
        base = np.array([rng.choice(["a", "bc", "", "déf", "xyz!"]) for _ in range(n)]).reshape(full)
    elif dt == "bytes":
        base = np.array([rng.choice([b"a", b"bc", b"", b"\xff\x00q"]) for _ in range(n)]).reshape(full)
    elif dt == "struct":
        base = np.zeros(full, dtype=[("x", "i4"), ("y", "f8")])
        base["x"] = rng.randint(-5, 5, size=full)
        base["y"] = rng.randint(-5, 5, size=full) / 2.0
    elif dt.startswith("datetime") or dt.startswith("timedelta"):
        base = rng.randint(-100, 100, size=full).astype(dt)
    elif dt == "bool":
        base = rng.randint(0, 2, size=full).astype(bool)
    elif dt == "complex128":
        base = (rng.randint(-5, 5, size=full) + 1j * rng.randint(-5, 5, size=full)).astype(dt)
    else:
        base = rng.randint(0 if dt.startswith("u") else -50, 50, size=full).astype(dt)
    x = base[tuple(slice(None, None, 2) for _ in shape)] if case["strided"] else base
    masked = case["masked"] and dt not in ("str", "bytes", "struct")
    if masked:
        x = np.ma.MaskedArray(x, mask=rng.randint(0, 2, size=x.shape).astype(bool))
    ctx.cover("from_numpy_dtype", dt)
    ctx.cover("from_numpy_kind", ("masked" if masked else "plain") + ("+strided" if case["strided"] else "") +
              ":%dd" % len(shape))
    det = {"family": "from_numpy", "dtype": dt, "shape": list(x.shape), "strided": case["strided"], "masked": masked,
           "regulararray": case["regulararray"]}
    try:
        a = ak.from_numpy(x, regulararray=case["regulararray"])
    except Exception as e:     # noqa
        ctx.violation("from_numpy-raised", dict(det, error="%s: %s" % (type(e).__name__, str(e)[:200])))
        return
    expected = _expected_from_numpy(x, dt)
    got = P.value(a)
    ctx.nontrivial(x.size > 0)
    if dt == "struct":
        expected = _struct_to_records(x)
    if not model.same(got, expected):
        ctx.violation("from_numpy-value-differs", dict(det, expected=model.brief(expected, 300), got=model.brief(got, 300)))
        return
    ctx.count("from_numpy_equal_tolist")
    if dt in ("str", "bytes"):
        return
    try:
        back = ak.to_numpy(a)
    except Exception as e:     # noqa
        ctx.violation("to_numpy-raised-after-from_numpy", dict(det, error="%s: %s" % (type(e).__name__, str(e)[:200])))
        return
    if not isinstance(back, np.ndarray):
        ctx.violation("to_numpy-returned-non-ndarray", dict(det, returned=type(back).__name__))
        return
    ok = back.shape == x.shape and (back.dtype == x.dtype or dt == "struct")
    if ok:
        if masked:
            ok = isinstance(back, np.ma.MaskedArray) and np.array_equal(np.ma.getmaskarray(back), np.ma.getmaskarray(x)) \
                and np.array_equal(np.ma.filled(back, 0), np.ma.filled(x, 0))
        elif dt == "struct":
            ok = back.tolist() == x.tolist()
        else:
            ok = np.array_equal(np.asarray(back), np.asarray(x))
    if not ok:
        ctx.violation("numpy-round-trip-changed", dict(det, back_dtype=str(back.dtype), back_shape=list(back.shape),
                                                       back=str(back.tolist())[:200], x=str(x.tolist())[:200]))
        return
    ctx.count("numpy_round_trips_equal")


def _expected_from_numpy(x, dt):
    if isinstance(x, np.ma.MaskedArray):
        lst = x.tolist()
    else:
        lst = x.tolist()
    if dt.startswith("datetime") or dt.startswith("timedelta"):
        unit = dt[dt.index("[") + 1:-1]
        pre = ("M8[%s]" if dt.startswith("datetime") else "m8[%s]") % unit
        raw = np.ma.filled(x, 0).astype("int64").tolist() if isinstance(x, np.ma.MaskedArray) else x.astype("int64").tolist()
        mask = np.ma.getmaskarray(x).tolist() if isinstance(x, np.ma.MaskedArray) else None

        def rec(v, m):
            if isinstance(v, list):
                return [rec(a, (m[i] if m is not None else None)) for i, a in enumerate(v)]
            return None if m else "%s:%d" % (pre, v)
        return rec(raw, mask)
    return lst


def _struct_to_records(x):
    def rec(v):
        if isinstance(v, list):
            return [rec(a) for a in v]
        return {"x": v[0], "y": v[1]}
    return rec(x.tolist())


# ---------------------------------------------------------------------------------------------------------------------

def _pylist_norm(v):
    """pyarrow's to_pylist -> model value conventions"""
    if isinstance(v, list):
        return [_pylist_norm(x) for x in v]
    if isinstance(v, dict):
        return dict((k, _pylist_norm(x)) for k, x in v.items())
    return v


def _tuples_as_dicts(v):
    if isinstance(v, list):
        return [_tuples_as_dicts(x) for x in v]
    if isinstance(v, tuple):
        return dict((str(i), _tuples_as_dicts(x)) for i, x in enumerate(v))
    if isinstance(v, dict):
        return dict((k, _tuples_as_dicts(x)) for k, x in v.items())
    return v


def run_arrow(ctx, ak, P, case, a, expected, det):
    opts = case["opts"]
    det = dict(det, options=opts)
    try:
        arr = ak.to_arrow(a, **opts)
    except Exception as e:     # noqa
        msg = "%s: %s" % (type(e).__name__, str(e)[:200])
        ctx.cover("to_arrow", "raised")
        ctx.violation("to_arrow-raised", dict(det, error=msg))
        return
    ctx.cover("to_arrow", type(arr).__name__)
    ctx.cover("arrow_type", str(arr.type)[:40])
    # pyarrow's own reading
    try:
        pl = _pylist_norm(arr.to_pylist())
    except Exception as e:     # noqa
        pl = None
        ctx.cover("to_pylist", "unavailable:" + type(e).__name__)
    exp_d = _tuples_as_dicts(expected)
    if pl is not None:
        ctx.count("to_pylist_compared")
        if not model.same(pl, exp_d):
            ctx.violation("arrow-to_pylist-differs", dict(det, expected=model.brief(exp_d, 300), got=model.brief(pl, 300),
                                                          arrow_type=str(arr.type)[:200]))
            return
    try:
        b = ak.from_arrow(arr)
    except Exception as e:     # noqa
        ctx.violation("from_arrow-raised", dict(det, error="%s: %s" % (type(e).__name__, str(e)[:200]),
                                                arrow_type=str(arr.type)[:200]))
        return
    try:
        got = _tuples_as_dicts(P.value(b))
    except Exception as e:     # noqa  (the layout from_arrow built cannot be read: an invalid layout)
        ctx.violation("from_arrow-invalid-layout", dict(det, error="%s: %s" % (type(e).__name__, str(e)[:120]),
                                                        arrow_type=str(arr.type)[:200]))
        return
    ctx.nontrivial(len(expected) > 0)
    if not model.same(got, exp_d):
        ctx.violation("arrow-round-trip-changed", dict(det, expected=model.brief(exp_d, 300), got=model.brief(got, 300),
                                                       arrow_type=str(arr.type)[:200]))
        return
    ctx.count("arrow_round_trips_equal")
    ctx.sample(dict(det, arrow_type=str(arr.type)[:80]), cap=4)


def signature(vio):
    det = vio.get("detail") or {}
    return "%s:%s" % (vio["kind"], (det.get("error") or "")[:60])


def classify(vio):
    from vlib import known
    return known.classify(vio)


if __name__ == "__main__":
    from vlib import runner
    sys.exit(runner.main(sys.modules[__name__]))
