"""C03 - reducers combine exactly the elements that differ only along the reduced axis (lane L: Content::reduce)."""
from __future__ import print_function

import sys

import numpy as np

from vlib import gen, model, ops, oracles, check_common as cc

PROPERTY = "C03"
LEVEL = "exploration"
RULE = ("cases are (layout of uniform depth, reducer in the 10 reducers, axis positive or negative, mask_identity, "
        "keepdims) with bool / all integer widths / float32/64 / complex / datetime leaves, options at any level, "
        "empty lists, all-missing groups, unequal list lengths under a non-innermost axis, length-0 arrays; expected "
        "value = reducer applied to each group of leaves agreeing on all coordinates but the reduced one; non-trivial "
        "= at least one group with >= 1 element; one case in eight uses a branching type (records at any level whose "
        "fields have equal depth) under the law reduce(x)[f] == reduce(x[f]) at the innermost axis; distinct = SHA-1 of the case descriptor")
VARIANTS = {"quick": ["asan"], "thorough": ["asan"]}
BUDGET = {"quick": dict(cases=150000, seconds=55), "thorough": dict(cases=2000000, seconds=1200)}
MIN_NONTRIVIAL = {"quick": 2000, "thorough": 30000}
ASSUMPTIONS = ["integer sum/prod wrap at 64 bits; float sums are accumulated left to right in the leaf precision and "
               "compared with rel 1e-5 (float32) / 1e-12 (float64)",
               "NaN is kept out of min/max/argmin/argmax inputs (the statement is silent on NaN ordering for reducers)",
               "where the statement does not fix a value (identity of min/max without mask_identity for narrow "
               "integers, reducers the library does not define for datetimes) the oracle abstains (counted)"]

DT = {"plain": ["bool"] + gen.INT_DTYPES + gen.FLOAT_DTYPES}


def _gen_records(rng, tier, name):
    """branching types: records (at any level) whose fields all have the same depth; innermost axis"""
    cfg = gen.Cfg(tier, unions=False, strings=False, categorical=False)
    cfg.nan = False
    cfg.unknown = False
    cfg.inf = False
    cfg.dtypes = DT["plain"]
    for _ in range(30):
        T, vals, d = gen.layout(rng, cfg, min_depth=2 if rng.random() < 0.7 else None)
        lo, hi = gen.depth_of(T)
        if lo == hi and _has_record(T) and not _has_empty_record(T):
            op = {"op": "reduce", "name": name, "axis": -1, "mask": rng.random() < 0.5, "keepdims": rng.random() < 0.3}
            return {"T": T, "layout": d, "op": op, "mode": "records"}
    return None


def _has_record(T):
    t = T["t"]
    if t == "record":
        return True
    if t in ("list", "regular", "option"):
        return _has_record(T["e"])
    return False


def _has_empty_record(T):
    t = T["t"]
    if t == "record":
        return not T["fields"] or any(_has_empty_record(f) for f in T["fields"])
    if t in ("list", "regular", "option"):
        return _has_empty_record(T["e"])
    return False


def _first_record(T, path=()):
    """-> keys of the outermost record type"""
    t = T["t"]
    if t == "record":
        return T["keys"] if T["keys"] is not None else [str(i) for i in range(len(T["fields"]))]
    return _first_record(T["e"])


def run_records(ctx, case):
    """reducers see through records: reduce(x)[f] must equal reduce(x[f]) for every field f of the outermost record"""
    b = ctx.lib
    d, op = case["layout"], case["op"]
    h = b.build(d)
    v = model.value(d)
    ctx.cover("mode", "records")
    ctx.cover("reducer", op["name"])
    for c in model.classes(d):
        ctx.cover("input_classes", c)
    ctx.nontrivial(len(v) > 0)
    whole = ops.run_op(b, h, op)
    for key in _first_record(case["T"]):
        fh = ops.run_op(b, h, {"op": "getitem_field", "key": key})
        if fh.kind != "value":
            raise RuntimeError("field projection of the input failed: %r" % (fh.brief(),))
        part = ops.run_op(b, fh.handle, op)
        ctx.count("fields_compared")
        ctx.cover("records_outcome", "%s/%s" % (whole.kind, part.kind))
        if whole.kind != "value":
            if part.kind == "value":
                ctx.violation("records-reduce-differs", {"op": op, "key": key, "whole": whole.brief(), "field": part.brief(),
                                                         "type": gen.typestr(case["T"])})
                return
            continue
        got = ops.run_op(b, whole.handle, {"op": "getitem_field", "key": key})
        if got.kind != part.kind or (got.kind == "value" and not model.same(got.value, part.value, rel=1e-5)):
            ctx.violation("records-reduce-differs", {"op": op, "key": key, "whole_field": got.brief(), "field": part.brief(),
                                                     "type": gen.typestr(case["T"])})
            return


NONE_REDUCERS = ["sum", "prod", "count", "count_nonzero", "any", "all", "min", "max"]


def _gen_axis_none(rng, tier):
    """lane P only: ak.<reducer>(x, axis=None) combines every leaf of the array, whatever lists, records, unions or
    options lie above them (the Python layer flattens completely and combines the pieces)"""
    cfg = gen.Cfg(tier, strings=False, categorical=False)
    cfg.nan = cfg.inf = cfg.unknown = cfg.extremes = False
    cfg.dtypes = ["int64", "int32", "int8", "uint8"]
    cfg.records = rng.random() < 0.6
    cfg.unions = rng.random() < 0.3
    if rng.random() < 0.5:
        # several pieces for certain: a record of 2-3 fields, possibly inside lists
        k = rng.choice([2, 2, 3])
        T = {"t": "record", "keys": ["x", "y", "z"][:k], "fields": [gen.gen_type(rng, cfg) for _ in range(k)]}
        for _ in range(rng.choice([0, 1, 1, 2])):
            T = {"t": "list", "e": T}
        T, vals, d = gen.layout(rng, cfg, T=T)
    else:
        T, vals, d = gen.layout(rng, cfg)
    return {"T": T, "layout": d, "lane": "P", "mode": "axis-none",
            "op": {"op": "reduce", "name": rng.choice(NONE_REDUCERS), "axis": None}}


def _all_leaves(v, out):
    if v is None:
        return out
    if isinstance(v, (list, tuple)):
        for x in v:
            _all_leaves(x, out)
    elif isinstance(v, dict):
        for x in v.values():
            _all_leaves(x, out)
    else:
        out.append(v)
    return out


def run_axis_none(ctx, case):
    from vlib import lanep_util
    ak, P = lanep_util.setup(ctx)
    d, name = case["layout"], case["op"]["name"]
    v = model.value(d)
    leaves = [int(x) for x in _all_leaves(v, [])]
    ctx.cover("lane", "P-axis-none")
    ctx.cover("reducer", name)
    ctx.cover("axis_none_pieces", ("records" if _has_record(case["T"]) else "") + ("+union" if "U[" in gen.typestr(case["T"]) else "") or "plain")
    for c in model.classes(d):
        ctx.cover("input_classes", c)
    ctx.nontrivial(len(leaves) > 0)
    try:
        got = getattr(ak, name)(P.array(d), axis=None)
    except Exception as e:     # noqa
        ctx.violation("unexpected-error", {"op": case["op"], "lane": "P", "got": "%s: %s" % (type(e).__name__, " ".join(str(e).split())[:200]),
                                           "type": gen.typestr(case["T"]), "input": model.brief(v, 200)})
        return

    def wrap(x):
        x &= (1 << 64) - 1
        return x - (1 << 64) if x >= (1 << 63) else x
    if name == "sum":
        exp = wrap(sum(leaves))
    elif name == "prod":
        exp = 1
        for x in leaves:
            exp = wrap(exp * x)
    elif name == "count":
        exp = len(leaves)
    elif name == "count_nonzero":
        exp = sum(1 for x in leaves if x != 0)
    elif name == "any":
        exp = any(x != 0 for x in leaves)
    elif name == "all":
        exp = all(x != 0 for x in leaves)
    else:
        exp = (min(leaves) if name == "min" else max(leaves)) if leaves else None
    if got is not None and not isinstance(got, (bool, np.bool_)):
        got = int(got)
    elif got is not None:
        got = bool(got)
    if got != exp:
        ctx.violation("wrong-value", {"op": case["op"], "lane": "P", "expected": exp, "got": got,
                                      "type": gen.typestr(case["T"]), "input": model.brief(v, 300)})
        return
    ctx.count("axis_none_values_agree")


def gen_case(rng, tier, index):
    if index % 9 == 4:
        return _gen_axis_none(rng, tier)
    if index % 8 == 5:
        case = _gen_records(rng, tier, rng.choice(ops.REDUCERS))
        if case:
            return case
    cfg = cc.uniform_cfg(tier)
    cfg.nan = False
    cfg.unknown = False
    r = rng.random()
    name = rng.choice(ops.REDUCERS)
    if r < 0.12 and name in ("count", "count_nonzero", "sum", "prod", "argmin", "argmax"):
        cfg.dtypes = gen.COMPLEX_DTYPES
    elif r < 0.22 and name in ("count", "min", "max", "argmin", "argmax"):
        cfg.dtypes = gen.TIME_DTYPES
    else:
        cfg.dtypes = DT["plain"]
    if name in ("sum", "prod"):
        cfg.inf = False
    cfg.extremes = rng.random() < 0.3
    clean_outer = index % 8 == 1
    if clean_outer:
        # axis=0 of an array of lists: the sub-domain of outer-axis reduction that is correct on the unchanged tree
        cfg.maxdepth = 1
        cfg.regular = False
    T, vals, d = gen.layout(rng, cfg, min_depth=2 if (clean_outer or rng.random() < 0.85) else None)
    hi = gen.depth_of(T)[1]
    if clean_outer and hi == 2:
        axis = rng.choice([0, -2])
    elif index % 16 != 0:
        axis = rng.choice([-1, hi - 1])
    else:
        # outer axes run the non-local pipeline, which has recorded crashes on ragged data (F10): capped stream
        axis = ops.gen_axis(rng, T, wild=0.03)
    op = {"op": "reduce", "name": name, "axis": axis, "mask": rng.random() < 0.5, "keepdims": rng.random() < 0.3}
    case = {"T": T, "layout": d, "op": op}
    if index % 9 == 8 and index % 16 != 0 and cfg.dtypes is DT["plain"]:
        case["lane"] = "P"        # the same case through ak.sum / ak.min / ... (src/awkward/operations/reducers.py)
    return case


def _leaf(T):
    while T["t"] in ("list", "regular", "option"):
        T = T["e"]
    return T["d"]


def run_case(ctx, case):
    if case.get("mode") == "records":
        return run_records(ctx, case)
    if case.get("mode") == "axis-none":
        return run_axis_none(ctx, case)
    b = ctx.lib
    d = case["layout"]
    v = model.value(d)
    op = case["op"]
    T = case["T"]
    hi = gen.depth_of(T)[1]
    dtype = _leaf(T)
    lk = oracles.LeafKind(dtype)
    if case.get("lane") == "P":
        out = _run_python(ctx, d, op)
        ctx.cover("lane", "P")
    else:
        h = b.build(d)
        out = ops.run_op(b, h, op)
    k = op["axis"] if op["axis"] >= 0 else hi + op["axis"]
    ctx.cover("reducer", op["name"])
    ctx.cover("reducer_x_leafkind", "%s/%s" % (op["name"], lk.kind))
    ctx.cover("axis_kind", "innermost" if k == hi - 1 else ("out-of-range" if not (0 <= k < hi) else "outer"))
    ctx.cover("mask/keepdims", "%s/%s" % (op["mask"], op["keepdims"]))
    for c in model.classes(d):
        ctx.cover("input_classes", c)
    try:
        g = oracles.groups(v, hi, k) if 0 <= k < hi else {}
    except oracles.Refuse:
        g = {}
    ctx.nontrivial(any(any(x is not None for _, x in m) for m in g.values()))
    rel = 1e-5 if dtype in ("float32", "complex64") else 1e-12
    cc.compare(ctx, case, out, lambda: oracles.reduce(v, op["name"], op["axis"], op["mask"], op["keepdims"], hi, lk),
               rel=rel, refusal_required=False)
    ctx.sample({"type": gen.typestr(T), "op": op, "input": model.brief(v, 200), "out": out.brief()})


def _run_python(ctx, d, op):
    from vlib import lanep_util
    ak, P = lanep_util.setup(ctx)
    fn = getattr(ak, op["name"])
    try:
        r = fn(P.array(d), axis=op["axis"], keepdims=op["keepdims"], mask_identity=op["mask"])
        return ops.Outcome("value", P.value(r), None, None)
    except Exception as e:     # noqa
        return ops.Outcome("error", err=type(e).__name__, msg=" ".join(str(e).split())[:300])


def classify(vio):
    from vlib import known
    return known.classify(vio)


def signature(vio):
    det = vio.get("detail") or {}
    op = det.get("op") or {}
    if vio["kind"] in ("wrong-value", "unexpected-error", "missing-error", "records-reduce-differs"):
        return "%s:%s" % (vio["kind"], op.get("name"))
    return None


if __name__ == "__main__":
    from vlib import runner
    sys.exit(runner.main(sys.modules[__name__]))
