"""C07 - combinations enumerate exactly the itertools tuples, in order (lane L: Content::combinations).

(argcombinations / cartesian / argcartesian are compositions in the Python layer - lane P.)
"""
from __future__ import print_function

import sys

from vlib import gen, model, ops, oracles, check_common as cc

PROPERTY = "C07"
LEVEL = "exploration"
RULE = ("cases are (layout, n in 1..4, replacement, axis, optional field names) over every list encoding incl. "
        "RegularArray size 0/1/n, lists shorter than n, empty arrays, missing lists, element types that are records, "
        "lists or options; expected value = itertools.combinations / combinations_with_replacement per list at the "
        "axis; non-trivial = some list at the axis has length >= 1; distinct = SHA-1 of the case descriptor")
VARIANTS = {"quick": ["asan"], "thorough": ["asan"]}
BUDGET = {"quick": dict(cases=120000, seconds=45), "thorough": dict(cases=1500000, seconds=900)}
MIN_NONTRIVIAL = {"quick": 2000, "thorough": 30000}
ASSUMPTIONS = ["itertools is the reference; tuples are read through the layout model (RecordArray without keys)"]


def gen_case(rng, tier, index):
    if index % 9 == 8:         # the Python-only half of the property (lane P)
        from checks import pstreams
        return pstreams.gen_p(rng, tier, PROPERTY)
    records_below = index % 4 == 3
    if records_below:
        cfg = gen.Cfg(tier, unions=False, strings=False, categorical=False)
    else:
        cfg = cc.uniform_cfg(tier)
    cfg.maxlen = 5
    T, vals, d = gen.layout(rng, cfg, min_depth=2 if rng.random() < 0.85 else None)
    nlev, branches = cc.levels_above_branch(T)
    hi = gen.depth_of(T)[1]
    if branches:
        axis = rng.randint(0, nlev - 1)
    else:
        axis = ops.gen_axis(rng, T, wild=0.05)
    n = rng.choice([1, 2, 2, 2, 3, 3, 4])
    op = {"op": "combinations", "n": n, "replacement": rng.random() < 0.4, "axis": axis, "keys": None}
    if rng.random() < 0.2:
        op["keys"] = ["k%d" % i for i in range(n)]
    na = cc.maybe_negaxis(rng, T)
    if na:
        return {"T": T, "layout": d, "op": dict(op, axis=na[0]), "negaxis": na[1], "depth": None, "nlev": nlev}
    return {"T": T, "layout": d, "op": op, "depth": None if branches else hi, "nlev": nlev}


def run_case(ctx, case):
    if case.get("lane") == "P":
        from checks import pstreams
        return pstreams.run_p(ctx, case)
    b = ctx.lib
    d = case["layout"]
    v = model.value(d)
    op = case["op"]
    h = b.build(d)
    depth = case["depth"] if case["depth"] is not None else case["nlev"] + 50
    out = ops.run_op(b, h, op)
    ctx.cover("n_x_replacement", "%d/%s" % (op["n"], op["replacement"]))
    ctx.cover("axis", op["axis"])
    for k in model.classes(d):
        ctx.cover("input_classes", k)

    if "negaxis" in case:
        ctx.nontrivial(len(v) > 0)
        return cc.check_negaxis(ctx, b, h, case, out)

    def expected():
        e = oracles.combinations(v, op["n"], op["replacement"], op["axis"], depth)
        if op["keys"]:
            e = _name(e, op["keys"])
        return e
    lens = []
    try:
        k = oracles.posaxis(op["axis"], depth)
        oracles.map_level(v, k, lambda l: lens.append(len(l)) if isinstance(l, list) else None)
    except oracles.Refuse:
        pass
    ctx.nontrivial(any(x >= 1 for x in lens))
    if lens:
        ctx.cover("shortest_list_vs_n", "shorter" if min(lens) < op["n"] else "long-enough")
    cc.compare(ctx, case, out, expected, refusal_required=False)
    ctx.sample({"type": gen.typestr(case["T"]), "op": op, "out": out.brief()})


def _name(e, keys):
    if isinstance(e, tuple):
        return dict(zip(keys, e))
    if isinstance(e, list):
        return [_name(x, keys) for x in e]
    return e


def classify(vio):
    from vlib import known
    return known.classify(vio)


def signature(vio):
    if vio["kind"] == "negative-axis-differs":
        return cc.negaxis_signature(vio)
    return vio["kind"] if vio["kind"] in ("wrong-value", "unexpected-error", "missing-error") else None


if __name__ == "__main__":
    from vlib import runner
    sys.exit(runner.main(sys.modules[__name__]))
