"""C13 - every compiled CPU kernel against its Python definition (lane K).

See DESIGN.md section "C13".  Executable specification: vlib/kernelspec.py;
argument model: vlib/kernel_args.py; per-kernel overrides with their
justification: vlib/kernel_overrides.py.
"""
from __future__ import print_function

import ctypes
import os
import sys

HERE = os.path.dirname(os.path.dirname(os.path.abspath(__file__)))
if HERE not in sys.path:
    sys.path.insert(0, HERE)

from vlib import kernelspec as ks          # noqa: E402
from vlib import kernel_args as ka         # noqa: E402
from vlib import kernel_overrides as ko    # noqa: E402

PROPERTY = "C13"
LEVEL = "exploration"
RULE = (
    "case i of a stream addresses specialization (i mod 690) of kernel-specification.yml and carries a "
    "complete argument tuple built by the per-role argument model (vlib/kernel_args.py): lengths 0..12 "
    "(quick) / 0..40 (thorough), monotone offsets with arbitrary origin, start<=stop<=lencontent, sorted "
    "parents with outlength>=max+1, indexes in [-1|0,lencontent), tags/masks in range, width-extreme values, "
    "unsigned specializations; a fraction of tuples carries one injected precondition violation and is used "
    "only when the definition answers it with ValueError (error-status comparison).  A tuple is ACCEPTED iff the "
    "kernel's YAML definition, run on typed index-recording lists, completes (or raises ValueError) without "
    "touching an index outside its lists, reading an unwritten output, dividing by zero, an undefined C cast or "
    "exhausting the iteration budget; rejected tuples never reach the compiled kernel.  Each accepted tuple is "
    "also run on up to 3 sibling specializations in which it is representable.  distinct = sha1 of the case "
    "descriptor (specialization + all argument values); non-trivial = accepted and (some length/array non-empty "
    "or a designated zero-length corner case, covered separately under 'corner')."
)
VARIANTS = {"quick": ["plain", "asan"], "thorough": ["plain", "asan"]}
BUDGET = {"quick": dict(cases=480000, seconds=150), "thorough": dict(cases=4000000, seconds=1100)}
MIN_NONTRIVIAL = {"quick": 50000, "thorough": 500000}
ASSUMPTIONS = [
    "the Python definition in kernel-specification.yml is the specification; for the 30 kernels whose YAML says "
    "'Insert Python definition here' a harness-written reference (kernel_overrides.HARNESS_DEFINITIONS) or only the "
    "extent and cross-specialisation monitors apply, and that is reported per kernel in coverage.definition_origin",
    "extents: an input array's extent is its list length as built by the argument model from the kernel's length "
    "arguments; an output's extent is (largest index the definition wrote)+1 unless kernel_overrides.EXTENT says otherwise",
    "reads outside the extents are observable only in the asan variant; the plain variant sees writes (canaries, sentinel holes)",
    "out-of-range float->integer conversions are undefined in C; tuples needing one are rejected",
    "kernels are called in-process through ctypes; the struct Error is returned by value (libffi)",
    "error status: only error/no-error is compared (the definitions carry no id/attempt/message); when the definition "
    "ends in ValueError the kernel's outputs are unspecified: not compared, and given 4096 elements of slack",
    "a tuple with an injected violation on a specialization with unsigned arrays is dropped when the definition's "
    "answer depends on whether uint32-uint32 wraps (C) or goes negative (Python): outside the contract and ambiguous",
    "definitions patched/replaced because the YAML text is wrong or not executable, in/out arguments, scratch outputs "
    "and the genuine defects of the 1.4.0 snapshot that are suppressed (KNOWN_DEFECTS, each active only while its "
    "faulty source text is present; VERIF_C13_STRICT=1 reports them) are all listed in coverage.overrides",
    "the cross-specialisation monitor compares two specialisations only at outputs where their references predict the "
    "same logical value (no wrap in the narrower integer type, same rounding in the narrower float type)",
]

CANARY = 64
CANARY_BYTE = 0xCB
SENTINEL_BYTE = 0xA5
ERROR_SLACK = 4096      # elements of slack given to outputs when the definition ends in ValueError


class ERROR(ctypes.Structure):
    _fields_ = [("str", ctypes.c_char_p), ("filename", ctypes.c_char_p), ("identity", ctypes.c_int64),
                ("attempt", ctypes.c_int64), ("pass_through", ctypes.c_bool)]


_libc = ctypes.CDLL(None)
_libc.malloc.restype = ctypes.c_void_p
_libc.malloc.argtypes = [ctypes.c_size_t]
_libc.free.restype = None
_libc.free.argtypes = [ctypes.c_void_p]


class Buffer(object):
    """A malloc'ed block; plain build: [canary | payload | canary], asan build: exactly the payload."""
    __slots__ = ("base", "ptr", "nbytes", "guard")

    def __init__(self, nbytes, guard):
        self.nbytes = nbytes
        self.guard = guard
        if guard:
            self.base = _libc.malloc(nbytes + 2 * CANARY)
            if not self.base:
                raise MemoryError("malloc")
            ctypes.memset(self.base, CANARY_BYTE, nbytes + 2 * CANARY)
            self.ptr = self.base + CANARY
        else:
            self.base = _libc.malloc(nbytes)
            if not self.base:
                raise MemoryError("malloc")
            self.ptr = self.base

    def fill(self, byte):
        if self.nbytes:
            ctypes.memset(self.ptr, byte, self.nbytes)

    def canaries_intact(self):
        if not self.guard:
            return True, None
        pat = bytes([CANARY_BYTE]) * CANARY
        before = ctypes.string_at(self.base, CANARY)
        after = ctypes.string_at(self.ptr + self.nbytes, CANARY)
        if before != pat:
            bad = [i for i in range(CANARY) if before[i] != CANARY_BYTE]
            return False, {"where": "before", "byte_offsets": [b - CANARY for b in bad][:8]}
        if after != pat:
            bad = [i for i in range(CANARY) if after[i] != CANARY_BYTE]
            return False, {"where": "after", "byte_offsets": bad[:8]}
        return True, None

    def free(self):
        if self.base:
            _libc.free(self.base)
            self.base = None


def _store(buf, t, values, offset=0):
    n = len(values)
    if n:
        arr = (t.ctype * n).from_address(buf.ptr + offset * t.size)
        if t.kind == "bool":
            arr[:] = [1 if v else 0 for v in values]
        else:
            arr[:] = values


def _load(buf, t, n):
    if n <= 0:
        return []
    arr = (t.ctype * n).from_address(buf.ptr)
    return list(arr)


_LIBS = {}


def _lib(builddir):
    lib = _LIBS.get(builddir)
    if lib is None:
        lib = ctypes.CDLL(os.path.join(builddir, "libawkward-cpu-kernels.so"))
        _LIBS[builddir] = lib
    return lib


_FUNCS = {}


def _func(builddir, spec):
    key = (builddir, spec.name)
    f = _FUNCS.get(key)
    if f is None:
        try:
            f = getattr(_lib(builddir), spec.name)
        except AttributeError:
            _FUNCS[key] = False
            return None
        f.restype = ERROR
        f.argtypes = [ctypes.c_void_p if a.is_list else ks.SCALAR_CTYPE[a.t.name] for a in spec.args]
        _FUNCS[key] = f
    return f or None


def _same(t, got, want):
    """Equality of two values of C type t (got: read from memory, want: cast by the reference)."""
    if t.kind == "bool":
        return (got != 0) == bool(want) and got in (0, 1)
    if t.kind == "float":
        if want != want:
            return got != got
        return got == want
    return got == want


class Outcome(object):
    """Result of running one specialization on one tuple through all monitors."""
    __slots__ = ("spec", "ref", "called", "status", "outputs", "violations", "skipped", "known")

    def __init__(self, spec):
        self.spec = spec
        self.ref = None
        self.called = False
        self.status = None
        self.outputs = {}
        self.violations = []
        self.skipped = None
        self.known = []


def evaluate(builddir, spec, args, asan, valid=True, maxreport=6):
    """Reference run, then (if accepted) the compiled kernel under the extent monitor."""
    out = Outcome(spec)
    kname = spec.kernel.name
    if spec.kernel.has_definition:
        ref = ks.run_definition(spec, args)
    else:
        ref = ka.declared_extents(spec, args)      # no definition: extents from the argument model
    out.ref = ref
    if ref.status in ("rejected", "broken"):
        return out
    if ref.status == "ok" and not valid:
        out.skipped = "injected-violation-not-detected-by-definition"
        return out
    if not valid and spec.kernel.has_definition and ks.has_unsigned_inputs(spec):
        # invalid input + unsigned element type: the YAML's unbounded integers and C's modular uint32 arithmetic
        # may part (stops - starts < 0); such a tuple is outside the contract *and* ambiguous -> not used
        ref2 = ks.run_definition(spec, args, unsigned_wrap=True)
        if not ks.same_result(ref, ref2):
            out.skipped = "invalid-input-and-definition-depends-on-unsigned-wrap"
            return out
    known = ko.KNOWN_DEFECTS.get(kname) if not ko.strict() else None
    if known is not None and known.get("avoid") is not None and known["avoid"](spec.name, args):
        out.skipped = "known-defect-would-crash:" + known["mechanism"]
        return out
    func = _func(builddir, spec)
    if func is None:
        out.skipped = "symbol-not-exported"
        return out

    ext_over = ko.EXTENT.get(kname, {})
    no_compare = ko.NO_COMPARE.get(kname, {})
    guard = not asan
    bufs = []            # (Buffer, label, TypeInfo)
    call = []
    outbufs = []         # (arg, label, Buffer, nelements, written-map, init)

    def new_buffer(nelem, t, label, values=None, sentinel=False):
        b = Buffer(nelem * t.size, guard)
        bufs.append((b, label, t))
        if sentinel:
            b.fill(SENTINEL_BYTE)
        if values:
            _store(b, t, values)
        return b

    def table_of(subs):
        pb = Buffer(len(subs) * 8, guard)
        bufs.append((pb, "pointer table", ks.TYPES["int64_t"]))
        if subs:
            (ctypes.c_void_p * len(subs)).from_address(pb.ptr)[:] = [sb.ptr for sb in subs]
        return pb

    try:
        for a in spec.args:
            if not a.is_list:
                call.append(bool(args[a.name]) if a.t.kind == "bool" else ks.cast(a.t, args[a.name]))
                continue
            if a.is_out and a.depth == 2:
                sub_ext = ref.extents.get(a.name + "[]", [])
                sub_w = ref.outputs.get(a.name + "[]", [])
                subs = []
                for jx, n in enumerate(sub_ext):
                    if ref.status == "error":
                        n += ERROR_SLACK
                    label = "%s[%d]" % (a.name, jx)
                    b = new_buffer(n, a.t, label, sentinel=True)
                    subs.append(b)
                    outbufs.append((a, label, b, n, sub_w[jx], None))
                call.append(table_of(subs).ptr)
            elif a.is_out:
                n = ref.extents.get(a.name, 0)
                if a.name in ext_over:
                    n = max(n, int(ext_over[a.name]["extent"](args, ref)))
                if ref.status == "error":
                    n += ERROR_SLACK
                init = args.get(a.name)
                vals = [ks.cast(a.t, x) for x in init] if init is not None else None
                b = new_buffer(n, a.t, a.name, vals, sentinel=True)
                outbufs.append((a, a.name, b, n, ref.outputs.get(a.name, {}), vals))
                call.append(b.ptr)
            elif a.depth == 2:
                subs = [new_buffer(len(sub), a.t, "%s[%d]" % (a.name, jx), [ks.cast(a.t, x) for x in sub])
                        for jx, sub in enumerate(args[a.name])]
                call.append(table_of(subs).ptr)
            else:
                vals = [ks.cast(a.t, x) for x in args[a.name]]
                call.append(new_buffer(len(vals), a.t, a.name, vals).ptr)

        err = func(*call)
        out.called = True
        failed = bool(err.str)
        out.status = "error" if failed else "ok"
        vio = []

        # ---- monitor 2: extents (plain build: canaries; asan build: the red zones did the work)
        if guard:
            for b, label, t in bufs:
                ok, where = b.canaries_intact()
                if not ok:
                    vio.append(("canary", dict(where, argument=label, specialization=spec.name,
                                               extent_elements=b.nbytes // t.size)))
        # ---- monitor 1: status
        want_fail = ref.status == "error"
        if failed != want_fail:
            vio.append(("status-mismatch", {
                "specialization": spec.name,
                "definition": "ValueError(%s)" % ref.detail if want_fail else "success",
                "kernel": ("error: %s (id=%d attempt=%d)" % (err.str.decode(errors="replace")[:80],
                                                              err.identity, err.attempt)) if failed else "success"}))
        # ---- monitor 1: outputs, and sentinel holes
        if not failed and not want_fail:
            for a, label, b, n, written, init in outbufs:
                got = _load(b, a.t, n)
                out.outputs[label] = got
                _compare(vio, spec, a, label, got, written, no_compare.get(a.name), maxreport, init=init,
                         allow_extra=ext_over.get(a.name))
            pred = ko.PREDICATES.get(kname)
            if pred is not None:
                for prob in pred(spec, args, out.outputs)[:maxreport]:
                    vio.append(("output-mismatch", dict(prob, specialization=spec.name, oracle="predicate")))
        for kind, detail in vio:
            if known is not None and known["match"](spec.name, kind, detail, args):
                out.known.append((known["mechanism"], kind))
            else:
                out.violations.append((kind, detail))
        return out
    finally:
        for b, _label, _t in bufs:
            b.free()


def _sentinel_value(t):
    raw = bytes([SENTINEL_BYTE]) * t.size
    return (t.ctype).from_buffer_copy(raw).value


def _compare(vio, spec, a, name, got, want, skip, maxreport, init=None, allow_extra=None):
    t = a.t
    sent = _sentinel_value(t)
    bad = []
    holes = []
    skip_all = skip is not None and skip.get("all")
    for i, g in enumerate(got):
        if i in want:
            if skip_all:
                continue
            w = want[i]
            if t.kind == "bool":
                ok = g in (0, 1) and (g != 0) == bool(w)
            elif t.kind == "float":
                ok = (g != g) if (w != w) else (g == w)
            else:
                ok = g == w
            if not ok:
                bad.append({"index": i, "kernel": g, "definition": w})
        elif allow_extra is None:
            if init is not None and i < len(init):
                expect = init[i]
                same = (g == expect) or (t.kind == "bool" and (g != 0) == bool(expect)) or \
                       (t.kind == "float" and g != g and expect != expect)
            else:
                same = (g == sent) or (t.kind == "float" and g != g and sent != sent)
            if not same:
                holes.append({"index": i, "kernel": g})
    if bad:
        vio.append(("output-mismatch", {"specialization": spec.name, "argument": name,
                                        "ctype": t.name, "count": len(bad), "first": bad[:maxreport]}))
    if holes:
        vio.append(("unwritten-output-touched", {"specialization": spec.name, "argument": name,
                                                 "ctype": t.name, "count": len(holes),
                                                 "first": holes[:maxreport]}))


# ----------------------------------------------------------------- the check

_SPEC = None


def spec():
    global _SPEC
    if _SPEC is None:
        _SPEC = ks.load()
    return _SPEC


def gen_case(rng, tier, index):
    S = spec()
    sp = S.specializations[index % len(S.specializations)]
    return ka.gen_case(rng, S, sp, tier, index)


def _nonempty(args, ref):
    """Some array is non-empty, or the definition wrote more than a lone scalar result."""
    for v in args.values():
        if isinstance(v, list) and len(v) > 0:
            return True
    n = 0
    for e in ref.extents.values():
        n += sum(e) if isinstance(e, list) else e
    return n >= 2 or ref.status == "error"


def _values_equal_across(ta, va, tb, vb):
    """Cross-specialisation equality of one output element held in types ta and tb (None: not comparable)."""
    fa, fb = ta.kind == "float", tb.kind == "float"
    if fa != fb or (ta.kind == "bool") != (tb.kind == "bool"):
        return None     # bool vs number, integer vs float: different logical outputs
    if fa:
        if va != va or vb != vb:
            return (va != va) and (vb != vb)
        if ta.bits == tb.bits:
            return va == vb
        return ks.cast(ks.TYPES["float"], va) == ks.cast(ks.TYPES["float"], vb)
    if ta.kind == "bool":
        return bool(va) == bool(vb)
    bits = min(ta.bits, tb.bits)
    m = (1 << bits) - 1
    return (int(va) & m) == (int(vb) & m)


def _report(ctx, kname, names, kind, detail):
    """A violation, unless it is a recorded defect of the unchanged tree (kernel_overrides.KNOWN_DEFECTS)."""
    known = ko.KNOWN_DEFECTS.get(kname) if not ko.strict() else None
    args = (ctx.case or {}).get("args", {})
    if known is not None and any(known["match"](n, kind, detail, args) for n in names):
        ctx.cover("known-defect-reobserved", known["mechanism"])
        return
    ctx.violation(kind, detail)


_POISONED = None


def _poisoned():
    """Specializations on which an earlier incarnation of this worker stream died (sanitizer report, signal).

    The runner restarts a worker right after the case that killed it and reports that case; calling the same
    broken specialization again and again only burns the budget (every death costs a restart and a confirm-alone
    run), so the rest of the stream leaves it alone.  Read from this stream's own journal: "C i <case>" lines that
    never got their "R i".  Best effort; any surprise means "nothing poisoned".
    """
    global _POISONED
    if _POISONED is not None:
        return _POISONED
    _POISONED = set()
    try:
        av = sys.argv
        if len(av) >= 12 and av[1] == "--worker":
            jp = os.path.join(av[10], "journal.%s" % av[6])
            import json
            open_case = None
            with open(jp) as f:
                for line in f:
                    if line.startswith("C "):
                        if open_case is not None:
                            _POISONED.add(open_case)
                        try:
                            open_case = json.loads(line.split(" ", 2)[2]).get("spec")
                        except Exception:
                            open_case = None
                    elif line.startswith("R "):
                        open_case = None
            # the last open "C" line is the case being run right now, not a death
    except Exception:
        pass
    return _POISONED


def run_case(ctx, case):
    S = spec()
    sp = S.byspec.get(case["spec"])
    if sp is None:
        ctx.count("unknown_specialization")
        return
    if _poisoned():
        dead = _poisoned()
        if sp.name in dead:
            ctx.cover("outcome", "skipped:specialization-already-killed-this-worker-stream")
            return
        if any(n in dead for n in case.get("siblings", [])):
            case = dict(case, siblings=[n for n in case["siblings"] if n not in dead])
    asan = ctx.variant == "asan"
    args = case["args"]
    valid = case.get("valid", True)
    kname = sp.kernel.name
    res = evaluate(ctx.builddir, sp, args, asan, valid)
    ref = res.ref
    ctx.count("candidates")
    if ref.status in ("rejected", "broken"):
        ctx.cover("outcome", "rejected")
        ctx.cover("rejected-by", ref.reason)
        ctx.cover("rejected-kernel", kname)
        if ref.status == "broken":
            ctx.cover("definition-broken", "%s: %s" % (kname, ref.reason))
        if case.get("corner"):
            ctx.cover("corner-rejected", "%s/%s" % (case["corner"], kname))
        return
    if res.skipped:
        ctx.cover("outcome", "skipped:" + res.skipped)
        return
    ctx.cover("kernel", kname)
    ctx.cover("specialization", sp.name)
    ctx.cover("outcome", "accepted-error" if ref.status == "error" else "accepted-ok")
    ctx.cover("definition-origin", sp.kernel.origin)
    if ref.status == "error":
        ctx.cover("error-kernel", kname)
    for name, tight in ref.tight.items():
        if tight and ref.inputs[name].n > 0:
            ctx.cover("input-read-to-its-end", "%s/%s" % (kname, name))
    if case.get("corner"):
        ctx.cover("corner", case["corner"])
        ctx.nontrivial(True)
    elif _nonempty(args, ref):
        ctx.nontrivial(True)
    else:
        ctx.cover("corner", "all-arrays-empty")
        ctx.nontrivial(True)
    for kind, detail in res.violations:
        detail = dict(detail, kernel=kname)
        ctx.violation(kind, detail)
    for mech, _kind in res.known:
        ctx.cover("known-defect-reobserved", mech)
    # ---- monitor 3: sibling specialisations on the same logical tuple
    for sibname in case.get("siblings", []):
        sib = S.byspec.get(sibname)
        if sib is None or sib is sp:
            continue
        if not ka.representable_in(sib, args):
            ctx.cover("sibling", "not-representable")
            continue
        r2 = evaluate(ctx.builddir, sib, args, asan, valid)
        if r2.ref.status in ("rejected", "broken") or r2.skipped:
            ctx.cover("sibling", "rejected-in-sibling")
            continue
        ctx.cover("sibling", "ran")
        ctx.cover("specialization-as-sibling", sib.name)
        for kind, detail in r2.violations:
            ctx.violation(kind, dict(detail, kernel=kname, as_sibling_of=sp.name))
        for mech, _kind in r2.known:
            ctx.cover("known-defect-reobserved", mech)
        if res.called and r2.called:
            if res.status != r2.status:
                _report(ctx, kname, (sp.name, sib.name), "cross-specialisation",
                        {"kernel": kname, "a": sp.name, "b": sib.name, "status_a": res.status, "status_b": r2.status})
            elif res.status == "ok":
                _cross(ctx, kname, sp, res, sib, r2)
    if res.called:
        ctx.sample({"specialization": sp.name, "args": args, "definition_status": ref.status,
                    "kernel_status": res.status,
                    "outputs": dict((k, v[:16]) for k, v in res.outputs.items())}, cap=2)


def _cross(ctx, kname, sp, ra, sib, rb):
    if ko.NO_CROSS.get(kname):
        return
    for a in sp.args:
        if not (a.is_out and a.is_list) or a.depth != 1:
            continue
        b = sib.byname.get(a.name)
        if b is None:
            continue
        ga, gb = ra.outputs.get(a.name), rb.outputs.get(a.name)
        if ga is None or gb is None:
            continue
        wa = ra.ref.outputs.get(a.name, {})
        wb = rb.ref.outputs.get(a.name, {})
        diffs = []
        for i in range(min(len(ga), len(gb))):
            if i not in wa or i not in wb:
                continue
            # only where the logical value is held exactly by both element types
            if not _fits_both(a.t, b.t, wa[i], wb[i]):
                continue
            eq = _values_equal_across(a.t, ga[i], b.t, gb[i])
            if eq is False:
                diffs.append({"index": i, sp.name: ga[i], sib.name: gb[i]})
        if diffs:
            _report(ctx, kname, (sp.name, sib.name), "cross-specialisation",
                    {"kernel": kname, "argument": a.name, "a": sp.name, "b": sib.name, "count": len(diffs),
                     "first": diffs[:6]})
        else:
            ctx.count("cross_specialisation_outputs_compared")


def _fits_both(ta, tb, va, vb):
    # compared only where the references of the two specialisations predict the same logical value (no wrap in
    # the narrower integer type, no different accumulated rounding in the narrower float type)
    return _values_equal_across(ta, va, tb, vb) is True


def signature(vio):
    """Violations of one kernel/argument/kind are one finding."""
    d = vio.get("detail") or {}
    if not isinstance(d, dict) or "report" in d:
        return None
    return "%s:%s:%s" % (vio["kind"], d.get("kernel", "?"), d.get("argument", d.get("specialization", "")))


def classify(vio):
    """Mechanism id for known_findings.json: one per kernel and kind of disagreement."""
    d = vio.get("detail") or {}
    case = vio.get("case") or {}
    k = (d.get("kernel") if isinstance(d, dict) else None) or case.get("kernel")
    if not k:
        return None
    return "C13:%s:%s" % (k, vio["kind"])


def finish(merged, ev):
    S = spec()
    cov = ev["coverage"]
    maps = merged["cover"]
    reached_k = set(maps.get("kernel", {}))
    reached_s = set(maps.get("specialization", {}))
    sib_s = set(maps.get("specialization-as-sibling", {}))
    allk = [k.name for k in S.kernels]
    alls = [s.name for s in S.specializations]
    cov["kernels_reached"] = "%d / %d" % (len(reached_k), len(allk))
    cov["specializations_reached"] = "%d / %d" % (len(reached_s), len(alls))
    cov["specializations_reached_incl_sibling_runs"] = "%d / %d" % (len(reached_s | sib_s), len(alls))
    rej = maps.get("rejected-kernel", {})
    notreached = []
    for s in S.specializations:
        if s.name not in reached_s:
            k = s.kernel
            why = "no accepted tuple (%d candidates rejected)" % rej.get(k.name, 0)
            if ka.model_of(k) is None:
                why = "no argument model"
            notreached.append({"specialization": s.name, "reason": why})
    cov["specializations_not_reached"] = notreached
    cov["definition_origin"] = {
        "yaml, as written (plus the mechanical repairs)": sum(1 for k in S.kernels if k.origin == "yaml"),
        "yaml, patched (kernel_overrides.DEFINITION_PATCHES)": sorted(k.name for k in S.kernels if k.origin == "yaml-patched"),
        "yaml, replaced (kernel_overrides.DEFINITION_OVERRIDES)": sorted(k.name for k in S.kernels if k.origin == "yaml-replaced"),
        "harness reference, YAML has none (kernel_overrides.HARNESS_DEFINITIONS)": sorted(
            k.name for k in S.kernels if k.origin == "harness"),
        "none (extent monitor with declared extents only)": sorted(k.name for k in S.kernels if k.origin == "none"),
    }
    errk = set(maps.get("error-kernel", {}))
    cov["kernels_whose_error_path_was_never_taken"] = sorted(
        k.name for k in S.kernels if "raise ValueError" in k.source and k.name not in errk)
    cov["overrides"] = ko.summary()
    cov["mechanical_repairs"] = ks.REPAIRS
    tight = maps.get("input-read-to-its-end", {})
    loose = []
    for k in S.kernels:
        if k.name not in reached_k or not k.has_definition:
            continue
        for a in k.specializations[0].args:
            if a.is_list and not a.is_out and ("%s/%s" % (k.name, a.name)) not in tight:
                loose.append("%s/%s" % (k.name, a.name))
    cov["inputs_never_read_to_their_last_element"] = loose
    # keep the evidence file small: per-specialization counts collapse to min/median/max + the 10 least visited
    spmap = maps.get("specialization", {})
    counts = sorted(spmap.values())
    if counts:
        cov["accepted_tuples_per_specialization"] = {
            "min": counts[0], "median": counts[len(counts) // 2], "max": counts[-1],
            "least_visited": dict(sorted(spmap.items(), key=lambda kv: kv[1])[:10])}
    cmaps = cov.get("maps", {})
    for big in ("specialization", "specialization-as-sibling", "input-read-to-its-end"):
        if big in cmaps:
            cmaps[big] = {"distinct_keys": len(cmaps[big]), "total": sum(cmaps[big].values())}


if __name__ == "__main__":
    from vlib import runner
    sys.exit(runner.main(sys.modules[__name__]))
