"""C11 - the validity check is exact, and operations on valid arrays return valid arrays.

Monitors (lane L):
  exact/accept : a layout valid by construction (and by the independent model) must give validityerror == ""
  exact/reject : a layout with exactly one documented rule broken must give a non-empty validityerror
  closure      : every Content returned by every catalogue operation on a valid layout (chains of 1-3
                 operations) must pass validityerror and the model's validity
"""
from __future__ import print_function

import os
import sys

from vlib import gen, model, ops, invalid
from vlib.bridge import AkError

PROPERTY = "C11"
LEVEL = "exploration"
RULE = ("cases are (a) generated valid layouts over every node class/width/encoding, (b) the same with exactly one "
        "documented rule broken at a random node, (c) valid layouts followed by a chain of 1-3 catalogue "
        "operations; a case is non-trivial when the layout has length > 0 (a) / the broken rule is confirmed by the "
        "independent model (b) / at least one operation returned a Content that was validated (c); distinct = "
        "distinct SHA-1 of the case descriptor")
VARIANTS = {"quick": ["asan"], "thorough": ["asan"]}
BUDGET = {"quick": dict(cases=30000, seconds=60), "thorough": dict(cases=400000, seconds=900)}
MIN_NONTRIVIAL = {"quick": 1500, "thorough": 20000}
ASSUMPTIONS = [
    "the layout model (vlib/model.py) transcribes the documented validity rules correctly; a disagreement between "
    "generator label and model is reported as a harness error (inconclusive), never as a violation",
    "the bridge constructs nodes exactly as the pybind11 binding would (no validation added)",
]


def gen_case(rng, tier, index):
    cfg = gen.Cfg(tier, cat_empty=(rng.random() < 0.1), categorical=(rng.random() < 0.5))
    mode = ["valid", "invalid", "closure"][index % 3]
    T, vals, d = gen.layout(rng, cfg)
    case = {"mode": mode, "T": T, "layout": d}
    if mode == "closure" and index % 15 == 2:
        return _union_closure_case(rng, cfg, case)
    if mode == "invalid":
        out = invalid.invalidate(rng, d)
        if out is None:
            case["mode"] = "valid"
        else:
            case["layout"], case["rule"], case["path"] = out
    elif mode == "closure":
        v = gen.plain(vals)
        k = rng.choice([1, 1, 2, 3])
        case["ops"] = [ops.gen_op(rng, T, v, cfg, families=[f for f in ops.ALL_FAMILIES
                                                             if f not in ("convert", "queries", "unique")])]
        case["chain"] = [rng.random() for _ in range(k - 1)]
        case["seed"] = rng.randrange(1 << 30)
    return case


def _union_closure_case(rng, cfg, case):
    """inputs on which operations must call simplify_uniontype to stay canonical: unions of records whose same-named fields are unions themselves, unions of option-type arms"""
    P = gen.P
    num = lambda: P(rng.choice(["int64", "int32", "float64", "float32", "bool", "uint8", "complex128"]))  # noqa: E731
    pool = [num(), num(), {"t": "string"}, {"t": "list", "e": num()}, {"t": "option", "e": num()}]
    rng.shuffle(pool)
    kind = rng.choice(["records", "records", "options"])   # (a union directly inside a union is itself invalid)
    if kind == "records":
        inner = {"t": "union", "arms": pool[:2]}
        arms = [{"t": "record", "fields": [num()], "keys": ["x"]},
                {"t": "record", "fields": [inner], "keys": ["x"]}]
        if rng.random() < 0.4:
            arms.append({"t": "record", "fields": [pool[2], num()], "keys": ["x", "y"]})
        rng.shuffle(arms)
        T = {"t": "union", "arms": arms}
        op = {"op": "getitem_field", "key": "x"}
    else:
        arms = [{"t": "option", "e": a} if a["t"] != "option" else a for a in pool[:rng.choice([2, 3])]]
        T = {"t": "union", "arms": arms}
        op = {"op": "fillna", "value": rng.choice([0, 3.5])}
    if not gen._can_gen(T):
        return case_fallback(rng, cfg, case)
    vals = gen.gen_values(rng, T, rng.choice([1, 3, 5, 8]), cfg)
    case["T"], case["layout"] = T, gen.encode(rng, T, vals, "random", cfg)
    case["ops"], case["chain"], case["seed"] = [op], [rng.random()] * rng.choice([0, 1]), rng.randrange(1 << 30)
    case["union_stream"] = kind
    return case


def case_fallback(rng, cfg, case):
    v = gen.plain(gen.gen_values(rng, case["T"], 0, cfg))
    case["ops"] = [ops.gen_op(rng, case["T"], v, cfg, families=["structure"])]
    case["chain"], case["seed"] = [], 0
    return case


def run_case(ctx, case):
    b = ctx.lib
    d = case["layout"]
    mode = case["mode"]
    mv = model.validity(d)
    if mode == "valid":
        if mv is not None:
            raise RuntimeError("generator produced a layout the model calls invalid: %s" % mv)
        h = b.build(d)
        try:
            ve = b.validityerror(h)
        except AkError as e:
            ctx.violation("validity-check-raised", {"chain": [], "error": str(e)[:200], "type": gen.typestr(case["T"])})
            return
        ctx.count("accept_checked")
        for k in model.classes(d):
            ctx.cover("accepted_classes", k)
        if ve != "":
            ctx.violation("valid-array-rejected", {"validityerror": ve[:300], "type": gen.typestr(case["T"])})
        ctx.nontrivial(model.length(d) > 0)
        ctx.sample({"mode": mode, "type": gen.typestr(case["T"]), "validityerror": ve})
    elif mode == "invalid":
        if mv is None:
            raise RuntimeError("invalidate(%s) produced a layout the model calls valid" % case["rule"])
        try:
            h = b.build(d)
            ve = b.validityerror(h)
        except AkError as e:
            ve = "constructor refused: " + e.msg[:100]
            ctx.count("rejected_by_constructor")
        ctx.count("reject_checked")
        node = model.get_at(d, [tuple(p) if isinstance(p, list) else p for p in case["path"]])
        ctx.cover("rejected_rule_x_class", case["rule"] + "@" + node["c"] + node.get("w", ""))
        if ve == "":
            ctx.violation("invalid-array-accepted", {"rule": case["rule"], "path": case["path"], "model": mv})
        ctx.nontrivial(True)
        ctx.sample({"mode": mode, "rule": case["rule"], "validityerror": ve[:160]}, cap=6)
    else:
        if mv is not None:
            raise RuntimeError("generator produced a layout the model calls invalid: %s" % mv)
        import random
        rng = random.Random(case["seed"])
        cfg = gen.Cfg(ctx.tier)
        h = b.build(d)
        cur_h, cur_T = h, case["T"]
        op = case["ops"][0]
        chain = [op]
        steps = 1 + len(case["chain"])
        for step in range(steps):
            if os.environ.get("VERIF_TRACE"):
                print("TRACE op", op, flush=True)
            out = ops.run_op(b, cur_h, op)
            if os.environ.get("VERIF_TRACE"):
                print("TRACE out", out.brief(), flush=True)
            ctx.cover("closure_op", op["op"] + (":" + op["name"] if "name" in op else ""))
            if step == 0 and case.get("union_stream"):
                ctx.cover("union_stream", case["union_stream"] + ":" + out.kind)
            ctx.cover("closure_outcome", out.kind if out.kind == "value" else "error:" + str(out.err))
            if out.kind != "value" or out.desc is None or out.handle is None:
                break
            rd = out.desc
            if rd["c"] in ("None",) or rd.get("scalar"):
                break
            try:
                ve = b.validityerror(out.handle)
            except AkError as e:
                ctx.violation("validity-check-raised", {"chain": [c["op"] for c in chain], "error": str(e)[:200]})
                break
            try:
                mv2 = model.validity(rd)
            except Exception as e:     # the model cannot even read it
                mv2 = "model cannot read the result: %r" % (e,)
            ctx.count("closure_results_validated")
            for k in model.classes(rd):
                ctx.cover("closure_result_classes", k)
            ctx.nontrivial(True)
            if ve != "" or mv2 is not None:
                ctx.violation("invalid-result", {"chain": [c["op"] for c in chain], "op": _slim(chain[-1]),
                                                 "validityerror": ve[:300],
                                                 "model": mv2, "result_classes": sorted(model.classes(rd))})
                break
            if rd["c"] == "Record" or step == steps - 1:
                break
            # next operation applies to the result; its arguments are drawn from the result's own value/shape
            try:
                v2 = out.value
                T2 = infer_T(rd)
                if not isinstance(v2, list):
                    break
                op = ops.gen_op(rng, T2, v2, cfg, families=[f for f in ops.ALL_FAMILIES
                                                            if f not in ("convert", "queries", "unique", "merge")])
            except Exception:
                break
            chain.append(op)
            cur_h = out.handle
        ctx.sample({"mode": mode, "chain": [c["op"] for c in chain]})


def _slim(op):
    out = dict(op)
    out.pop("others", None)
    if "items" in out:
        out["items"] = [{k: v for k, v in it.items() if k != "layout"} for it in out["items"]]
    return out


def infer_T(d):
    """abstract type of a (valid) descriptor, good enough to draw arguments for the next operation"""
    c = d["c"]
    arr = model.param(d, "__array__")
    if arr == "string":
        return {"t": "string"}
    if arr == "bytestring":
        return {"t": "bytes"}
    if c == "NumpyArray":
        T = gen.P(str(model.np_dtype(d)) if d["dtype"] not in ("datetime64", "timedelta64") else "int64")
        for s in reversed(d["shape"][1:]):
            T = {"t": "regular", "e": T, "size": s}
        return T
    if c == "EmptyArray":
        return {"t": "unknown"}
    if c == "RegularArray":
        return {"t": "regular", "e": infer_T(d["content"]), "size": d["size"]}
    if c in ("ListArray", "ListOffsetArray"):
        return {"t": "list", "e": infer_T(d["content"])}
    if c == "IndexedArray":
        return infer_T(d["content"])
    if c in model.OPTION:
        e = infer_T(d["content"])
        return e if e["t"] == "option" else {"t": "option", "e": e}
    if c == "RecordArray":
        return {"t": "record", "fields": [infer_T(x) for x in d["contents"]], "keys": d["keys"]}
    if c == "UnionArray":
        return {"t": "union", "arms": [infer_T(x) for x in d["contents"]]}
    raise ValueError(c)


def signature(vio):
    import re
    det = vio.get("detail") or {}
    if vio["kind"] == "invalid-result":
        msg = det.get("validityerror") or str(det.get("model"))
        msg = re.sub(r"\(https:[^)]*\)", "", msg)
        msg = re.sub(r"at layout[\w.()]*", "at <path>", msg)
        msg = re.sub(r"\d+", "N", msg).strip()
        return "invalid-result:%s:%s" % (det.get("chain", ["?"])[-1], msg[:90])
    if vio["kind"] == "valid-array-rejected":
        msg = re.sub(r"at layout[\w.()]*", "at <path>", det.get("validityerror", ""))
        return "valid-array-rejected:" + re.sub(r"\d+", "N", msg)[:90]
    if vio["kind"] == "invalid-array-accepted":
        return "invalid-array-accepted:" + str(det.get("rule"))
    return None


KNOWN = {
    "F3": "validityerror segfaults when a string/bytestring list's content is not a NumpyArray (null raw->classname())",
    "F6": "is_unique() miscounts the empty string, so a categorical with '' among its categories is rejected",
    "F7": "NumpyArray::is_unique()/unique_data() ignore strides: wrong answer and out-of-bounds read on "
          "non-contiguous categorical content",
}


def classify(vio):
    from vlib import known
    return known.classify(vio)


if __name__ == "__main__":
    from vlib import runner
    sys.exit(runner.main(sys.modules[__name__]))
