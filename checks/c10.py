"""C10 - record fields: projection commutes with positional slices; setitem_field changes exactly one field (lane L).

(ak.zip / ak.unzip / ak.with_field / array.x live in the Python layer - lane P.)
"""
from __future__ import print_function

import sys

import numpy as np

from vlib import gen, model, ops, oracles, oracle_slice, check_common as cc
from vlib.bridge import AkError

PROPERTY = "C10"
LEVEL = "exploration"
RULE = ("streams: (a) for a record-bearing layout (records under lists, options, IndexedArray; tuples; zero fields; "
        "contents longer than the record length), a field or field list f and a positional slice s over the levels "
        "above the record: a[f][s], a[s][f] and every insertion of f into the tuple s must agree and equal the "
        "nested-list projection; (b) getitem_field(s) vs the same Slice item; (c) setitem_field(name, value) on a "
        "RecordArray: reading name gives value, other fields, length, parameters unchanged; (d) keys/haskey/"
        "fieldindex/numfields agree with the declared fields, dict keys come in declaration order; non-trivial = "
        "length > 0; distinct = SHA-1 of the case descriptor")
VARIANTS = {"quick": ["asan"], "thorough": ["asan"]}
BUDGET = {"quick": dict(cases=80000, seconds=55), "thorough": dict(cases=1000000, seconds=1200)}
MIN_NONTRIVIAL = {"quick": 2000, "thorough": 30000}
ASSUMPTIONS = ["a field name commutes to the left through row indexes only for slices that address levels at or above "
               "the record node (documented rule); slices are generated for those levels only"]


def _record_type(rng, cfg, depth_above):
    nf = rng.choice([0, 1, 2, 2, 3]) if rng.random() < 0.9 else 0
    istuple = rng.random() < 0.25
    sub = gen.Cfg(cfg.__dict__.get("tier", "quick"), records=False, unions=False, strings=True, categorical=False)
    sub.maxdepth = 2
    fields = [gen.gen_type(rng, sub, depth=1) for _ in range(nf)]
    keys = None if istuple else rng.sample(["x", "y", "z", "a b", "w"], nf)
    T = {"t": "record", "fields": fields, "keys": keys}
    if rng.random() < 0.3:
        T["name"] = rng.choice(["Point", "Vec"])
    for _ in range(depth_above):
        r = rng.random()
        if r < 0.6:
            T = {"t": "list", "e": T}
        elif r < 0.75:
            T = {"t": "regular", "e": T, "size": rng.choice([1, 2])}
        else:
            T = {"t": "list", "e": {"t": "option", "e": T}} if T["t"] != "option" else {"t": "list", "e": T}
    if rng.random() < 0.2 and T["t"] != "option":
        T = {"t": "option", "e": T}
    return T


def _basic_items(rng, v, nlev):
    """positional items for the first nlev levels (ints, ranges, arrays), valid by construction where cheap"""
    items = []
    lv = ops.levels(v)
    k = rng.randint(0, nlev)
    for dim in range(k):
        lens = lv.get(dim, [0])
        m = min(lens) if lens else 0
        r = rng.random()
        if r < 0.35 and m > 0:
            items.append({"t": "at", "i": rng.randint(-m, m - 1)})
        elif r < 0.8:
            items.append(ops.gen_range(rng, max(lens) if lens else 0))
        elif dim == 0 and m > 0:
            items.append({"t": "array", "data": [rng.randint(-m, m - 1) for _ in range(rng.randint(1, 3))]})
        else:
            items.append(ops.gen_range(rng, max(lens) if lens else 0))
    return items


def gen_case(rng, tier, index):
    if index % 10 == 9:         # the Python-only half of the property (lane P)
        from checks import pstreams
        return pstreams.gen_p(rng, tier, PROPERTY)
    stream = ["commute", "commute", "api", "setitem", "queries"][index % 5]
    cfg = gen.Cfg(tier, zero_fields=True, unions=False, categorical=False)
    cfg.tier = tier
    if stream == "setitem":
        T = _record_type(rng, cfg, 0)
        if T["t"] == "option":
            T = T["e"]
    else:
        T = _record_type(rng, cfg, rng.choice([0, 1, 1, 2]))
    n = rng.choice([0, 1, 2, 3, 4])
    vals = gen.gen_values(rng, T, n, cfg)
    d = gen.encode(rng, T, vals, "random", cfg, no_indexed=(stream == "setitem"))
    v = gen.plain(vals)
    keys = ops.type_keys(T) or []
    case = {"stream": stream, "T": T, "layout": d}
    nlev, _ = cc.levels_above_branch(T)
    if stream in ("commute", "api"):
        if keys and rng.random() < 0.7:
            f = {"t": "field", "key": rng.choice(keys)}
        elif keys:
            f = {"t": "fields", "keys": rng.sample(keys, rng.randint(1, len(keys)))}
        else:
            f = {"t": "fields", "keys": []} if False else {"t": "field", "key": "nope"}
        case["f"] = f
        case["s"] = _basic_items(rng, v, nlev)
    elif stream == "setitem":
        sub = gen.Cfg(tier, records=False, unions=False, categorical=False)
        Tv = gen.gen_type(rng, sub, depth=1)
        extra = 0      # setitem_field requires a value of exactly the record array's length (documented refusal otherwise)
        vv = gen.gen_values(rng, Tv, n + extra, sub)       # value longer than the record array stays aligned
        case["value"] = gen.encode(rng, Tv, vv, "random", sub)
        case["name"] = rng.choice((keys or []) + ["new1", "new2"]) if T["keys"] is not None else rng.choice(["0", "1", "9"])
        if T["keys"] is not None and rng.random() < 0.4 and str(len(T["fields"]) + 3) not in (keys or []):
            # the integer-slot overload: the new field is inserted at that slot under the name str(slot)
            case["slot"] = rng.randint(0, len(T["fields"]) + 1)
    return case


def run_case(ctx, case):
    if case.get("lane") == "P":
        from checks import pstreams
        return pstreams.run_p(ctx, case)
    b = ctx.lib
    d = case["layout"]
    T = case["T"]
    v = model.value(d)
    h = b.build(d)
    stream = case["stream"]
    ctx.cover("stream", stream)
    for c in model.classes(d):
        ctx.cover("input_classes", c)
    ctx.nontrivial(len(v) > 0)
    keys = ops.type_keys(T) or []
    lo = gen.depth_of(T)[0]

    if stream == "commute":
        f, s = case["f"], case["s"]
        variants = []
        for pos in range(len(s) + 1):
            variants.append(s[:pos] + [f] + s[pos:])
        outs = [ops.run_op(b, h, {"op": "getitem", "items": items}) for items in variants]
        # two-step forms
        o1 = ops.run_op(b, h, {"op": "getitem", "items": [f]})
        two_a = ops.run_op(b, o1.handle, {"op": "getitem", "items": s}) if (o1.kind == "value" and o1.handle and s) else o1
        o2 = ops.run_op(b, h, {"op": "getitem", "items": s}) if s else None
        two_b = None
        if o2 is not None and o2.kind == "value" and o2.handle is not None:
            fkeys = [f["key"]] if f["t"] == "field" else f["keys"]
            if o2.desc is not None and o2.desc["c"] == "None":
                # a missing entry stays missing whatever *existing* field is projected from it
                two_b = o2 if all(k in keys for k in fkeys) else None
            elif o2.desc is not None and o2.desc["c"] == "Record":
                # a scalar record: the binding projects it with getitem_field(s), not with a Slice
                two_b = ops.run_op(b, o2.handle, {"op": "getitem_field", "key": f["key"]} if f["t"] == "field"
                                   else {"op": "getitem_fields", "keys": f["keys"]})
            else:
                two_b = ops.run_op(b, o2.handle, {"op": "getitem", "items": [f]})
        allouts = [("tuple@%d" % i, o) for i, o in enumerate(outs)] + [("a[f][s]", two_a)]
        if two_b is not None:
            allouts.append(("a[s][f]", two_b))
        ctx.cover("field_item", f["t"])
        ctx.cover("n_positional", len(s))
        ref_name, ref = allouts[0]
        for name, o in allouts[1:]:
            if o.kind != ref.kind:
                if "FIXME" in str(o.msg) + str(ref.msg):
                    continue
                ctx.violation("commutation-outcome", {"f": f, "s": s, ref_name: ref.brief(), name: o.brief()})
                return
            if o.kind == "value" and not model.same(o.value, ref.value):
                ctx.violation("commutation-value", {"f": f, "s": s, ref_name: ref.brief(), name: o.brief(),
                                                    "input": model.brief(v, 300)})
                return
        ctx.count("commutations_checked", len(allouts) - 1)
        # and against the nested-list projection
        case2 = dict(case, op={"op": "getitem", "items": variants[-1]})

        def expected():
            for it in [f]:
                ks = [it["key"]] if it["t"] == "field" else it["keys"]
                if any(k not in keys for k in ks):
                    raise oracles.Refuse("no such field")
            return oracle_slice.apply(v, variants[-1], lo)
        cc.compare(ctx, case2, outs[-1], expected, refusal_required=True)
        ctx.sample({"type": gen.typestr(T), "f": f, "s": s, "out": outs[-1].brief()})
        return

    if stream == "api":
        f = case["f"]
        o_item = ops.run_op(b, h, {"op": "getitem", "items": [f]})
        if f["t"] == "field":
            o_api = ops.run_op(b, h, {"op": "getitem_field", "key": f["key"]})
        else:
            o_api = ops.run_op(b, h, {"op": "getitem_fields", "keys": f["keys"]})
        if o_item.kind != o_api.kind or (o_item.kind == "value" and not model.same(o_item.value, o_api.value)):
            ctx.violation("api-vs-slice-item", {"f": f, "item": o_item.brief(), "api": o_api.brief()})
        return

    if stream == "queries":
        try:
            got = {"keys": b.keys(h), "numfields": b.numfields(h)}
        except AkError as e:
            ctx.violation("unexpected-error", {"op": {"op": "keys"}, "got": str(e)[:200]})
            return
        want_keys = keys
        if got["keys"] != want_keys or got["numfields"] != len(want_keys):
            ctx.violation("field-queries", {"declared": want_keys, "got": got})
            return
        for i, k in enumerate(want_keys):
            if not b.haskey(h, k) or b.fieldindex(h, k) != i or b.key(h, i) != k:
                ctx.violation("field-queries", {"declared": want_keys, "key": k,
                                                "haskey": b.haskey(h, k), "fieldindex": b.fieldindex(h, k)})
                return
        if b.haskey(h, "definitely not a key"):
            ctx.violation("field-queries", {"declared": want_keys, "haskey(nonexistent)": True})
        # declaration order in the value
        rec = ops.first_record_keys(v)
        if rec is not None and T.get("keys") is not None and list(rec) != list(want_keys):
            ctx.violation("field-order", {"declared": want_keys, "value_keys": list(rec)})
        return

    # setitem_field
    name = case["name"]
    if case.get("slot") is not None:
        return run_setitem_slot(ctx, b, h, d, T, v, case)
    try:
        vh = b.build(case["value"])
        r = b.setitem_field(h, name, vh)
    except AkError as e:
        ctx.cover("setitem_outcome", "error:" + e.kind)
        if T["keys"] is not None:
            ctx.violation("unexpected-error", {"op": {"op": "setitem_field"}, "name": name, "got": str(e)[:300]})
        return
    ctx.cover("setitem_outcome", "value")
    rd = b.describe(r)
    rv = model.value(rd)
    newval = model.value(case["value"])[:len(v)]
    if len(rv) != len(v):
        ctx.violation("setitem-length", {"before": len(v), "after": len(rv)})
        return
    for i, (old, new) in enumerate(zip(v, rv)):
        if isinstance(old, dict):
            if not isinstance(new, dict) or not model.same(new.get(name), newval[i]):
                ctx.violation("setitem-readback", {"name": name, "at": i, "expected": model.brief(newval[i]),
                                                   "got": model.brief(new)})
                return
            for k in old:
                if k != name and not model.same(old[k], new.get(k)):
                    ctx.violation("setitem-other-field-changed", {"name": name, "field": k, "at": i})
                    return
            if [k for k in new if k != name] != [k for k in old if k != name]:
                ctx.violation("setitem-field-order", {"before": list(old), "after": list(new)})
                return
    if model.param(d, "__record__") != model.param(rd, "__record__"):
        ctx.violation("setitem-record-name", {"before": model.param(d, "__record__"), "after": model.param(rd, "__record__")})
    ctx.count("setitem_checked")


def run_setitem_slot(ctx, b, h, d, T, v, case):
    slot = case["slot"]
    keys = list(T["keys"])
    name = str(slot)
    if name in keys:
        ctx.count("setitem_slot_skipped_name_exists")
        return
    try:
        r = b.setitem_field_at(h, slot, b.build(case["value"]))
    except AkError as e:
        ctx.cover("setitem_slot_outcome", "error:" + e.kind)
        ctx.violation("unexpected-error", {"op": {"op": "setitem_field(slot)"}, "slot": slot, "got": str(e)[:300]})
        return
    ctx.cover("setitem_slot_outcome", "value")
    ctx.cover("setitem_slot_position", "front" if slot == 0 else ("append" if slot >= len(keys) else "middle"))
    rv = model.value(b.describe(r))
    newval = model.value(case["value"])[:len(v)]
    want_keys = keys[:slot] + [name] + keys[slot:]
    if len(rv) != len(v):
        ctx.violation("setitem-length", {"before": len(v), "after": len(rv)})
        return
    for i, (old, new) in enumerate(zip(v, rv)):
        if not isinstance(new, dict) or list(new) != want_keys:
            ctx.violation("setitem-field-order", {"slot": slot, "before": keys, "after": list(new) if isinstance(new, dict) else str(new)[:80],
                                                  "expected": want_keys})
            return
        if not model.same(new[name], newval[i]):
            ctx.violation("setitem-readback", {"name": name, "slot": slot, "at": i, "expected": model.brief(newval[i]),
                                               "got": model.brief(new)})
            return
        for k in keys:
            if not model.same(old[k], new[k]):
                ctx.violation("setitem-other-field-changed", {"name": name, "slot": slot, "field": k, "at": i})
                return
    ctx.count("setitem_slot_checked")


def classify(vio):
    from vlib import known
    return known.classify(vio)


def signature(vio):
    return vio["kind"]


if __name__ == "__main__":
    from vlib import runner
    sys.exit(runner.main(sys.modules[__name__]))
