"""C01 - slicing selects exactly the elements Python/NumPy indexing would select (lane L: Content::getitem)."""
from __future__ import print_function

import sys

import numpy as np

from vlib import gen, model, ops, oracles, oracle_slice, check_common as cc

PROPERTY = "C01"
LEVEL = "exploration"
RULE = ("cases are (layout, slice tuple of 1-3 items) with items drawn from ints (in range, negative, +-len, beyond), "
        "ranges (missing/negative/overshooting bounds, steps +-1..3 and huge), Ellipsis, newaxis, 1-d/2-d integer "
        "arrays with repeats and negatives, boolean arrays, several advanced arrays at once, field names and lists, "
        "missing-value index arrays and jagged integer/boolean arrays (both through Content::asslice); expected value "
        "= recursive nested-list slicer, cross-checked against NumPy on rectilinear inputs; non-trivial = length > 0 "
        "and at least one item other than ':'; distinct = SHA-1 of the case descriptor")
VARIANTS = {"quick": ["asan"], "thorough": ["asan"]}
BUDGET = {"quick": dict(cases=150000, seconds=55), "thorough": dict(cases=2000000, seconds=1200)}
MIN_NONTRIVIAL = {"quick": 2000, "thorough": 30000}
ASSUMPTIONS = ["the reference slicer (vlib/oracle_slice.py); it abstains (counted) on combinations whose placement "
               "rules the statement does not fix: advanced arrays separated by basic items, newaxis together with "
               "advanced arrays, missing/jagged indexes combined with other advanced indexes, multidimensional "
               "boolean indexes, more items than dimensions",
               "the pybind11 `toslice` is replaced by vlib.bridge.Bridge.slice (same item-by-item translation)"]


def gen_case(rng, tier, index):
    if index % 4 == 3:
        cfg = gen.Cfg(tier, unions=False, strings=False, categorical=False)
    else:
        cfg = cc.uniform_cfg(tier)
    cfg.unknown = False
    T, vals, d = gen.layout(rng, cfg, min_depth=2 if rng.random() < 0.7 else None)
    v = gen.plain(vals)
    items = ops.gen_slice_items(rng, T, v, cfg)
    return {"T": T, "layout": d, "op": {"op": "getitem", "items": items}}


def _rect(v):
    try:
        a = np.array(v)
    except Exception:
        return None
    if a.dtype == object or a.ndim == 0:
        return None
    return a


def _np_index(items):
    out = []
    for it in items:
        t = it["t"]
        if t == "at":
            out.append(it["i"])
        elif t == "range":
            out.append(slice(it.get("start"), it.get("stop"), it.get("step")))
        elif t == "ellipsis":
            out.append(Ellipsis)
        elif t == "newaxis":
            out.append(None)
        elif t == "array":
            out.append(np.array(it["data"], dtype=bool if it.get("bool") else np.int64))
        else:
            return None
    return tuple(out)


def run_case(ctx, case):
    b = ctx.lib
    d = case["layout"]
    v = model.value(d)
    T = case["T"]
    items = case["op"]["items"]
    lo, hi = gen.depth_of(T)
    h = b.build(d)
    out = ops.run_op(b, h, case["op"])
    for it in items:
        ctx.cover("item_kind", it["t"] + ("/bool" if it.get("bool") else "") +
                  ("/missing" if "missing" in it else "") + ("/jagged" if "jagged" in it else ""))
    ctx.cover("n_items", len(items))
    for c in model.classes(d):
        ctx.cover("input_classes", c)
    ctx.nontrivial(len(v) > 0 and any(not (it["t"] == "range" and it.get("start") is None and it.get("stop") is None
                                           and it.get("step") in (None, 1)) for it in items))

    def expected():
        keys = ops.type_keys(T) or []
        for it in items:
            if it["t"] == "field" and it["key"] not in keys:
                raise oracles.Refuse("no such field")
            if it["t"] == "fields" and any(k not in keys for k in it["keys"]):
                raise oracles.Refuse("no such field")
        if lo != hi and any(it["t"] == "ellipsis" for it in items):
            raise oracles.NoOpinion("Ellipsis over a structure of different depths is a documented refusal")
        e = oracle_slice.apply(v, items, lo)
        # oracle self-check on rectilinear data: reference slicer and NumPy must agree, else abstain
        a = _rect(v)
        ix = _np_index(items)
        if a is not None and ix is not None and a.size > 0:
            try:
                r = a[ix]
                if not model.same(e, r.tolist() if isinstance(r, np.ndarray) else r.item()):
                    ctx.count("oracle_self_check_disagreements")
                    raise oracles.NoOpinion("reference slicer and NumPy disagree")
                ctx.count("oracle_self_check_agreements")
            except IndexError:
                pass
        return e
    ok = cc.compare(ctx, case, out, expected, refusal_required=True)
    ctx.sample({"type": gen.typestr(T), "items": [{k: x for k, x in it.items() if k != "layout"} for it in items],
                "input": model.brief(v, 160), "out": out.brief()})


def classify(vio):
    from vlib import known
    return known.classify(vio)


def signature(vio):
    det = vio.get("detail") or {}
    op = det.get("op") or {}
    kinds = "+".join(it["t"] + ("/m" if "missing" in it else "") + ("/j" if "jagged" in it else "") +
                     ("/b" if it.get("bool") else "") for it in op.get("items", []))
    if vio["kind"] in ("wrong-value", "unexpected-error", "missing-error"):
        return "%s:%s" % (vio["kind"], kinds)
    return None


if __name__ == "__main__":
    from vlib import runner
    sys.exit(runner.main(sys.modules[__name__]))
