"""C05 - flatten, num, local_index (and their round trip) obey the list-structure laws.

Lane L: Content::num / offsets_and_flattened / localindex against their definitions on nested lists.
"""
from __future__ import print_function

import sys

from vlib import gen, model, ops, oracles, check_common as cc

PROPERTY = "C05"
LEVEL = "exploration"
RULE = ("cases are (layout, operation in {num, flatten, localindex, flatten-all}, axis) with axes drawn from all legal "
        "positive and negative values plus out-of-range ones; layouts cover every list/option encoding, regular "
        "dimensions, n-d NumPy leaves, records below the axis; for records/unions of uniform depth a negative axis "
        "must act as its non-negative equivalent; non-trivial = array length > 0; distinct = SHA-1 of the "
        "case descriptor")
VARIANTS = {"quick": ["asan"], "thorough": ["asan"]}
BUDGET = {"quick": dict(cases=200000, seconds=45), "thorough": dict(cases=600000, seconds=900)}
MIN_NONTRIVIAL = {"quick": 2000, "thorough": 30000}
ASSUMPTIONS = ["reference semantics in vlib/oracles.py (num = len, flatten = concatenation skipping missing lists, "
               "localindex = range(len)) transcribe the property statement",
               "strings are excluded from the axis-addressed stream (a string is itself a list level in this "
               "library; the statement speaks of lists)"]


def gen_case(rng, tier, index):
    if index % 9 == 8:         # the Python-only half of the property (lane P)
        from checks import pstreams
        return pstreams.gen_p(rng, tier, PROPERTY)
    records_below = index % 5 == 4
    if records_below:
        cfg = gen.Cfg(tier, unions=False, strings=False, categorical=False)
    else:
        cfg = cc.uniform_cfg(tier)
    T, vals, d = gen.layout(rng, cfg, min_depth=2 if rng.random() < 0.8 else None)
    nlev, branches = cc.levels_above_branch(T)
    hi = gen.depth_of(T)[1]
    name = rng.choice(["num", "flatten", "localindex"])
    na = cc.maybe_negaxis(rng, T)
    if na:
        return {"T": T, "layout": d, "op": {"op": name, "axis": na[0]}, "negaxis": na[1], "depth": None, "nlev": nlev}
    if branches:
        axis = rng.randint(0, nlev - 1)           # only levels above the record: positive axes
    else:
        axis = ops.gen_axis(rng, T, wild=0.1)
    case = {"T": T, "layout": d, "op": {"op": name, "axis": axis}, "depth": None if branches else hi, "nlev": nlev}
    return case


def run_case(ctx, case):
    if case.get("lane") == "P":
        from checks import pstreams
        return pstreams.run_p(ctx, case)
    b = ctx.lib
    d = case["layout"]
    v = model.value(d)
    op = case["op"]
    h = b.build(d)
    depth = case["depth"] if case["depth"] is not None else case["nlev"] + 50   # levels below a record are not probed
    out = ops.run_op(b, h, op)
    ctx.cover("op", op["op"])
    if "negaxis" in case:
        ctx.nontrivial(len(v) > 0)
        return cc.check_negaxis(ctx, b, h, case, out)
    for k in model.classes(d):
        ctx.cover("input_classes", k)
    ctx.nontrivial(len(v) > 0)
    if case["depth"] is None and op["axis"] >= case["nlev"]:
        return
    fn = {"num": oracles.num, "flatten": oracles.flatten, "localindex": oracles.localindex}[op["op"]]
    ok = cc.compare(ctx, case, out, lambda: fn(v, op["axis"], depth), refusal_required=False)
    if ok and out.kind == "value" and op["op"] == "flatten" and case["depth"] is not None:
        # the round trip: unflatten(flatten(x), num(x)) - here: sum of num == len(flatten) at the addressed level
        k = oracles.posaxis(op["axis"], depth)
        try:
            counts = oracles.num(v, op["axis"], depth)
            tot_counts = sum(x for x in oracles.leaves(counts) if x is not None) if isinstance(counts, list) else counts
            flat_level = oracles.leaves(oracles.num(out.value, k - 1, depth - 1)) if k - 1 > 0 else [len(out.value)]
            if sum(flat_level) != tot_counts:
                ctx.violation("flatten-num-mismatch", {"op": op, "sum_num": tot_counts, "len_flat": sum(flat_level)})
        except (oracles.Refuse, TypeError):
            pass
    ctx.sample({"type": gen.typestr(case["T"]), "op": op, "out": out.brief()})


def classify(vio):
    from vlib import known
    return known.classify(vio)


def signature(vio):
    det = vio.get("detail") or {}
    op = det.get("op") or {}
    if vio["kind"] == "negative-axis-differs":
        return cc.negaxis_signature(vio)
    return "%s:%s" % (vio["kind"], op.get("op")) if vio["kind"] in ("wrong-value", "unexpected-error", "missing-error") else None


if __name__ == "__main__":
    from vlib import runner
    sys.exit(runner.main(sys.modules[__name__]))
