"""Lane-P streams of lane-L checks: the operations of C05, C07, C08, C09 and C10 that exist only in the repository's
Python layer (ak.unflatten / ravel, ak.cartesian / argcartesian / argcombinations, ak.concatenate at a deeper axis /
values_astype, ak.is_none / fill_none / mask, ak.zip / unzip / with_field), run on the akext stand-in and compared
with definitions on nested lists taken from the property statements.

A check takes one case in N from here:   if index % N == k: return pstreams.gen_p(rng, tier, "C05")
                                        if case.get("lane") == "P": return pstreams.run_p(ctx, case)
Results are read through the bridge's structural dump (vlib/lanep_util.py), never through ak.to_list.
"""
from __future__ import print_function

import itertools

import numpy as np

from vlib import gen, model, oracles
from vlib.oracles import Refuse, NoOpinion

INTS = ["int8", "int32", "int64", "uint8", "uint32"]
NUMS = INTS + ["float32", "float64", "bool"]


def _cfg(tier, **kw):
    cfg = gen.Cfg(tier, unions=False, strings=False, categorical=False, unknown=False)
    cfg.dtypes = NUMS
    cfg.nan = cfg.inf = cfg.extremes = False
    for k, v in kw.items():
        setattr(cfg, k, v)
    return cfg


def _lists(rng, cfg, depth, leafT=None, option_p=0.0, regular_p=0.0):
    """type with `depth` list levels below the top"""
    T = leafT or gen.P(rng.choice(cfg.dtypes))
    for _ in range(depth):
        if rng.random() < option_p and T["t"] != "option":
            T = {"t": "option", "e": T}
        if rng.random() < regular_p:
            T = {"t": "regular", "e": T, "size": rng.choice([1, 2, 3])}
        else:
            T = {"t": "list", "e": T}
    return T


def gen_p(rng, tier, prop):
    case = globals()["gen_" + prop.lower()](rng, tier)
    case["lane"] = "P"
    case["prop"] = prop
    return case


def run_p(ctx, case):
    from vlib import lanep_util
    ak, P = lanep_util.setup(ctx)
    ctx.cover("lane", "P")
    ctx.cover("p_op", case["pop"])
    return globals()["run_" + case["prop"].lower()](ctx, ak, P, case)


def _call(P, fn):
    try:
        return "value", fn()
    except Exception as e:     # noqa  (whatever the library raises is the operation's error outcome)
        return "error", "%s: %s" % (type(e).__name__, " ".join(str(e).split())[:240])


def _verdict(ctx, case, kind, got, expected_fn, det, rel=0.0):
    try:
        exp = expected_fn()
    except NoOpinion:
        ctx.count("p_no_opinion")
        return
    except Refuse as e:
        if kind != "error":
            ctx.violation("missing-error", dict(det, why=str(e), got=model.brief(got, 300)))
        else:
            ctx.count("p_errors_agree")
        return
    if kind == "error":
        ctx.violation("unexpected-error", dict(det, expected=model.brief(exp, 300), got=got))
        return
    if not model.same(got, exp, rel=rel):
        ctx.violation("wrong-value", dict(det, expected=model.brief(exp, 400), got=model.brief(got, 400)))
        return
    ctx.count("p_values_agree")
    ctx.nontrivial(True)


# ====================================================================================================== C05

def gen_c05(rng, tier):
    cfg = _cfg(tier, records=False)
    pop = rng.choice(["unflatten", "unflatten", "unflatten_axis1", "unflatten_axis1", "ravel", "flatten_none", "num",
                      "flatten", "local_index"])
    depth = rng.choice([1, 2, 2, 3])
    if pop == "unflatten_axis1":
        # lists of lists of items, no missing lists at levels 1 and 2 (the law's precondition)
        T = {"t": "list", "e": {"t": "list", "e": _lists(rng, cfg, rng.choice([0, 0, 1]), option_p=0.3)}}
        n = rng.choice([0, 1, 2, 3, 5])
        vals = gen.gen_values(rng, T, n, cfg)
        # (a count of zero could belong to either neighbour when outer lists are empty: the law is only well-defined
        #  with non-empty inner lists)
        vals = [[y if len(y) else [gen.gen_value(rng, T["e"]["e"], cfg)] for y in x] for x in vals]
        # the argument of unflatten in its own (possibly non-compact) encoding: the lists of x merged one level up
        Ty = {"t": "list", "e": T["e"]["e"]}
        yvals = [[z for y in x for z in y] for x in vals]
        counts = [len(y) for x in vals for y in x]
        return {"pop": pop, "T": T, "layout": gen.encode(rng, T, vals, "random", cfg), "axis": 1,
                "y_layout": gen.encode(rng, Ty, yvals, "random", cfg), "counts": counts}
    T = _lists(rng, cfg, depth, option_p=0.25 if pop != "unflatten" else 0.0, regular_p=0.15)
    if pop == "unflatten":
        # no missing lists at level 1 (the law's precondition); options further down are fine
        inner = _lists(rng, cfg, depth - 1, option_p=0.3, regular_p=0.15)
        T = {"t": "list", "e": inner}
    n = rng.choice([0, 1, 2, 3, 5])
    vals = gen.gen_values(rng, T, n, cfg)
    return {"pop": pop, "T": T, "layout": gen.encode(rng, T, vals, "random", cfg),
            "axis": rng.choice([0, 1, 1, 2, -1, -2, 3])}


def run_c05(ctx, ak, P, case):
    d = case["layout"]
    v = model.value(d)
    x = P.array(d)
    pop = case["pop"]
    depth = gen.depth_of(case["T"])[1]
    det = {"lane": "P", "op": {"op": pop, "axis": case["axis"]}, "type": gen.typestr(case["T"]),
           "input": model.brief(v, 300)}
    if pop == "unflatten":
        kind, got = _call(P, lambda: P.value(ak.unflatten(ak.flatten(x, axis=1), ak.num(x, axis=1))))
        return _verdict(ctx, case, kind, got, lambda: v, det)
    if pop == "unflatten_axis1":
        kind, got = _call(P, lambda: P.value(ak.unflatten(ak.flatten(x, axis=2), ak.flatten(ak.num(x, axis=2), axis=None),
                                                          axis=1)))
        _verdict(ctx, case, kind, got, lambda: v, det)
        y = P.array(case["y_layout"])
        counts = np.array(case["counts"], dtype=np.int64)
        kind, got = _call(P, lambda: P.value(ak.unflatten(y, counts, axis=1)))
        return _verdict(ctx, case, kind, got, lambda: v, dict(det, counts=case["counts"][:20]))
    if pop in ("ravel", "flatten_none"):
        fn = (lambda: P.value(ak.ravel(x))) if pop == "ravel" else (lambda: P.value(ak.flatten(x, axis=None)))
        kind, got = _call(P, fn)
        return _verdict(ctx, case, kind, got, lambda: oracles.leaves(v), det)
    axis = case["axis"]
    lib = {"num": ak.num, "flatten": ak.flatten, "local_index": ak.local_index}[pop]
    ref = {"num": oracles.num, "flatten": oracles.flatten, "local_index": oracles.localindex}[pop]
    kind, got = _call(P, lambda: P.value(lib(x, axis=axis)))

    def expected():
        try:
            return ref(v, axis, depth)
        except Refuse:
            raise NoOpinion("axis outside the array's depth")       # (as in lane L: not fixed by the statement)
    return _verdict(ctx, case, kind, got, expected, det)


# ====================================================================================================== C07

def gen_c07(rng, tier):
    cfg = _cfg(tier, records=False)
    pop = rng.choice(["cartesian", "cartesian", "argcartesian", "argcombinations", "cartesian_nested",
                      "cartesian_dict_nested", "argcartesian_dict_nested"])
    k = rng.choice([2, 2, 3])
    n = rng.choice([0, 1, 2, 3])
    arrays = []
    for _ in range(k if pop != "argcombinations" else 1):
        T = {"t": "list", "e": gen.P(rng.choice(INTS + ["float64"]))}
        if rng.random() < 0.2:
            T = {"t": "list", "e": {"t": "option", "e": T["e"]}}
        vals = [[gen.gen_value(rng, T["e"], cfg) for _ in range(rng.choice([0, 1, 2, 3]))] for _ in range(n)]
        arrays.append({"T": T, "layout": gen.encode(rng, T, vals, "random", cfg)})
    return {"pop": pop, "arrays": arrays, "n": rng.choice([1, 2, 3]), "replacement": rng.random() < 0.4,
            "named": rng.random() < 0.3}


def run_c07(ctx, ak, P, case):
    pop = case["pop"]
    vs = [model.value(a["layout"]) for a in case["arrays"]]
    xs = [P.array(a["layout"]) for a in case["arrays"]]
    det = {"lane": "P", "op": {"op": pop}, "types": [gen.typestr(a["T"]) for a in case["arrays"]],
           "inputs": [model.brief(v, 160) for v in vs]}
    if pop == "argcombinations":
        n, rep = case["n"], case["replacement"]
        kind, got = _call(P, lambda: P.value(ak.argcombinations(xs[0], n, replacement=rep, axis=1)))

        def expected():
            it = itertools.combinations_with_replacement if rep else itertools.combinations
            return [[tuple(t) for t in it(range(len(row)), n)] for row in vs[0]]
        return _verdict(ctx, case, kind, got, expected, dict(det, n=n, replacement=rep))
    if pop == "argcartesian":
        kind, got = _call(P, lambda: P.value(ak.argcartesian(xs, axis=1)))
        return _verdict(ctx, case, kind, got,
                        lambda: [[tuple(t) for t in itertools.product(*[range(len(v[i])) for v in vs])]
                                 for i in range(len(vs[0]))], det)
    if pop in ("cartesian_dict_nested", "argcartesian_dict_nested"):
        keys = ["a", "b", "c"][:len(xs)]
        fn = ak.cartesian if pop == "cartesian_dict_nested" else ak.argcartesian
        kind, got = _call(P, lambda: P.value(fn(dict(zip(keys, xs)), axis=1, nested=True)))

        def nested_d(rows):
            def rec(prefix, rest):
                if len(rest) == 1:
                    return [dict(zip(keys, prefix + [y])) for y in rest[0]]
                return [rec(prefix + [y], rest[1:]) for y in rest[0]]
            return rec([], rows)
        if pop == "cartesian_dict_nested":
            return _verdict(ctx, case, kind, got, lambda: [nested_d([v[i] for v in vs]) for i in range(len(vs[0]))], det)
        return _verdict(ctx, case, kind, got,
                        lambda: [nested_d([list(range(len(v[i]))) for v in vs]) for i in range(len(vs[0]))], det)
    if pop == "cartesian_nested":
        kind, got = _call(P, lambda: P.value(ak.cartesian(xs, axis=1, nested=True)))

        def nested(rows):
            # nested=True: one more list level per array but the last, grouping by the earlier arrays' items
            def rec(prefix, rest):
                if len(rest) == 1:
                    return [tuple(prefix + [y]) for y in rest[0]]
                return [rec(prefix + [y], rest[1:]) for y in rest[0]]
            return rec([], rows)
        return _verdict(ctx, case, kind, got, lambda: [nested([v[i] for v in vs]) for i in range(len(vs[0]))], det)
    if case["named"]:
        keys = ["a", "b", "c"][:len(xs)]
        kind, got = _call(P, lambda: P.value(ak.cartesian(dict(zip(keys, xs)), axis=1)))
        return _verdict(ctx, case, kind, got,
                        lambda: [[dict(zip(keys, t)) for t in itertools.product(*[v[i] for v in vs])]
                                 for i in range(len(vs[0]))], det)
    kind, got = _call(P, lambda: P.value(ak.cartesian(xs, axis=1)))
    return _verdict(ctx, case, kind, got,
                    lambda: [[tuple(t) for t in itertools.product(*[v[i] for v in vs])] for i in range(len(vs[0]))], det)


# ====================================================================================================== C08

def gen_c08(rng, tier):
    cfg = _cfg(tier, records=False)
    pop = rng.choice(["concatenate_axis1", "concatenate_axis1", "concatenate_axis1_missing", "concatenate_axis0",
                      "values_astype"])
    n = rng.choice([0, 1, 2, 4])
    if pop == "values_astype":
        T = _lists(rng, cfg, rng.choice([0, 1, 2]), option_p=0.3)
        vals = gen.gen_values(rng, T, n, cfg)
        return {"pop": pop, "arrays": [{"T": T, "layout": gen.encode(rng, T, vals, "random", cfg)}],
                "to": rng.choice(["int8", "int64", "uint16", "float32", "float64", "bool"])}
    k = rng.choice([2, 2, 3])
    deep = rng.random() < 0.3
    arrays = []
    for _ in range(k):
        leaf = gen.P(rng.choice(INTS + ["float64", "float32"]))
        inner = {"t": "list", "e": leaf} if deep else leaf
        T = {"t": "list", "e": inner}
        if pop == "concatenate_axis1_missing" and rng.random() < 0.7:
            T = {"t": "option", "e": T}           # some of the lists are missing (every option encoding)
        m = n if pop.startswith("concatenate_axis1") else rng.choice([0, 1, 3])
        vals = gen.gen_values(rng, T, m, cfg)
        arrays.append({"T": T, "layout": gen.encode(rng, T, vals, "random", cfg)})
    return {"pop": pop, "arrays": arrays}


def _cast(v, to):
    if v is None:
        return None
    if isinstance(v, list):
        return [_cast(x, to) for x in v]
    with np.errstate(all="ignore"):
        return np.array(v).astype(to).item()


def _leafdtype(T):
    while T["t"] in ("list", "regular", "option"):
        T = T["e"]
    return T["d"]


def run_c08(ctx, ak, P, case):
    pop = case["pop"]
    vs = [model.value(a["layout"]) for a in case["arrays"]]
    xs = [P.array(a["layout"]) for a in case["arrays"]]
    det = {"lane": "P", "op": {"op": pop}, "types": [gen.typestr(a["T"]) for a in case["arrays"]],
           "inputs": [model.brief(v, 160) for v in vs]}
    if pop == "values_astype":
        to = case["to"]
        src = np.dtype(_leafdtype(case["arrays"][0]["T"]))
        kind, got = _call(P, lambda: P.value(ak.values_astype(xs[0], to)))

        def expected():
            if src.kind == "f" and np.dtype(to).kind in "iub":
                for x in oracles.leaves(vs[0]):
                    if np.dtype(to).kind != "b" and not (np.iinfo(to).min <= x <= np.iinfo(to).max):
                        raise NoOpinion("float outside the integer range")
            return _cast(vs[0], to)
        return _verdict(ctx, case, kind, got, expected, dict(det, to=to))
    axis = 1 if pop.startswith("concatenate_axis1") else 0
    kind, got = _call(P, lambda: P.value(ak.concatenate(xs, axis=axis)))
    res = np.result_type(*[np.dtype(_leafdtype(a["T"])) for a in case["arrays"]])

    def expected():
        if axis == 0:
            out = []
            for v in vs:
                out.extend(v)
        else:
            out = []
            for i in range(len(vs[0])):
                rows = [v[i] for v in vs]
                if all(r is None for r in rows):
                    raise NoOpinion("every operand's list is missing at this position")
                out.append(sum((r for r in rows if r is not None), []))      # a missing list contributes nothing
        return _cast(out, res)
    return _verdict(ctx, case, kind, got, expected, det, rel=1e-6)


# ====================================================================================================== C09

def gen_c09(rng, tier):
    cfg = _cfg(tier, records=False)
    pop = rng.choice(["is_none", "is_none", "fill_none", "fill_none_axis", "fill_none_axis", "mask", "pad_none"])
    depth = rng.choice([0, 1, 1, 2])
    leaf = None
    if pop == "fill_none_axis" and rng.random() < 0.5:
        k = rng.choice([1, 2])
        leaf = {"t": "option", "e": {"t": "record", "keys": ["x", "y"][:k],
                                     "fields": [{"t": "option", "e": gen.P(rng.choice(INTS))} for _ in range(k)]}}
    union_leaf = pop == "is_none" and rng.random() < 0.3
    if union_leaf:
        # the node at the axis is a union one of whose contents is option-type (hand-built layouts; from_iter puts the
        # option outside the union)
        leaf = {"t": "union", "arms": [{"t": "option", "e": gen.P(rng.choice(INTS))}, gen.P(rng.choice(["float64", "bool"]))]}
        if rng.random() < 0.3:
            leaf["arms"].append({"t": "option", "e": gen.P("complex128")})      # (arms of one depth: the axis is unambiguous)
        rng.shuffle(leaf["arms"])
    T = _lists(rng, cfg, depth, leafT=leaf, option_p=0.0 if union_leaf else 0.5)
    if T["t"] != "option" and rng.random() < 0.5 and not (union_leaf and depth == 0):
        T = {"t": "option", "e": T}
    n = rng.choice([0, 1, 3, 5])
    vals = gen.gen_values(rng, T, n, cfg)
    case = {"pop": pop, "T": T, "layout": gen.encode(rng, T, vals, "random", cfg),
            "axis": rng.choice([0, 0, 1, -1, 2]), "value": rng.choice([0, -1, 99]),
            "target": rng.choice([0, 1, 2, 4]), "clip": rng.random() < 0.5}
    if pop == "mask":
        case["mask"] = [rng.random() < 0.5 for _ in range(n)]
        case["valid_when"] = rng.random() < 0.5
    return case


def _none_at(v, k):
    """is_none(axis=k): True at positions k levels down that are None; a None higher up stays None"""
    if k == 0:
        return [x is None for x in v]
    out = []
    for x in v:
        if x is None:
            out.append(None)
        elif isinstance(x, list):
            out.append(_none_at(x, k - 1))
        else:
            raise Refuse("axis exceeds depth")
    return out


def _fill_all(v, value):
    if v is None:
        return value
    if isinstance(v, list):
        return [_fill_all(x, value) for x in v]
    return v


def _fill_here(x, value):
    """one position at the addressed level: records do not add a level, so their missing fields belong to it"""
    if x is None:
        return value
    if isinstance(x, dict):
        return dict((k, _fill_here(y, value)) for k, y in x.items())
    if isinstance(x, tuple):
        return tuple(_fill_here(y, value) for y in x)
    return x


def _fill_at(v, k, value):
    if k == 0:
        return [_fill_here(x, value) for x in v]
    out = []
    for x in v:
        if x is None:
            out.append(None)
        elif isinstance(x, list):
            out.append(_fill_at(x, k - 1, value))
        elif isinstance(x, dict):
            raise NoOpinion("lists inside records")
        else:
            raise Refuse("axis exceeds depth")
    return out


def run_c09(ctx, ak, P, case):
    d = case["layout"]
    v = model.value(d)
    x = P.array(d)
    pop, axis = case["pop"], case["axis"]
    depth = gen.depth_of(case["T"])[1]
    det = {"lane": "P", "op": {"op": pop, "axis": axis}, "type": gen.typestr(case["T"]), "input": model.brief(v, 300)}

    def pos(axis):
        a = axis + depth if axis < 0 else axis
        if a < 0 or a >= depth:
            raise NoOpinion("axis outside the array's depth")
        return a
    if pop == "is_none":
        kind, got = _call(P, lambda: P.value(ak.is_none(x, axis=axis)))
        return _verdict(ctx, case, kind, got, lambda: _none_at(v, pos(axis)), det)
    if pop == "fill_none":
        kind, got = _call(P, lambda: P.value(ak.fill_none(x, case["value"], axis=None)))
        return _verdict(ctx, case, kind, got, lambda: _fill_all(v, case["value"]), det)
    if pop == "fill_none_axis":
        kind, got = _call(P, lambda: P.value(ak.fill_none(x, case["value"], axis=axis)))
        return _verdict(ctx, case, kind, got, lambda: _fill_at(v, pos(axis), case["value"]), det)
    if pop == "mask":
        m, vw = case["mask"], case["valid_when"]
        kind, got = _call(P, lambda: P.value(ak.mask(x, ak.Array(np.array(m, dtype=bool)), valid_when=vw)))
        return _verdict(ctx, case, kind, got, lambda: [y if (mm == vw) else None for y, mm in zip(v, m)], det)
    target, clip = case["target"], case["clip"]
    kind, got = _call(P, lambda: P.value(ak.pad_none(x, target, axis=axis, clip=clip)))

    def expected():
        try:
            return oracles.rpad(v, target, axis, clip, depth)
        except Refuse:
            raise NoOpinion("axis outside the array's depth")
    return _verdict(ctx, case, kind, got, expected, dict(det, target=target, clip=clip))


# ====================================================================================================== C10

def gen_c10_path(rng, tier):
    """ak.with_field with a path of field names into nested records {id, a: {k, b: {x}}}"""
    cfg = _cfg(tier, records=False)
    n = rng.choice([0, 1, 2, 3, 5])
    T = gen.P("int64")

    def flat():
        dt = rng.choice(["int64", "int32", "float64", "bool", "uint8"])
        Tn = gen.P(dt)
        vals = [gen.gen_value(rng, Tn, cfg) for _ in range(n)]
        return {"T": Tn, "layout": gen.encode(rng, Tn, vals, "random", cfg)}
    path = rng.choice([["a", "b", "c"], ["a", "b", "c"], ["a", "b", "x"], ["a", "c"], ["a", "k"], ["c"], ["id"], ["a", "b"]])
    return {"pop": "with_field_path", "fields": [flat(), flat(), flat()], "new": flat(), "path": path,
            "scalar_value": rng.choice([None, None, 7]), "as_tuple": rng.random() < 0.7}


def run_c10_path(ctx, ak, P, case):
    f_id, f_k, f_x = [f["layout"] for f in case["fields"]]
    n = model.length(f_id)
    vid, vk, vx = [model.value(f) for f in (f_id, f_k, f_x)]

    def rec(keys, contents):
        return {"c": "RecordArray", "length": n, "keys": keys, "contents": contents, "params": {}}
    base_d = rec(["id", "a"], [f_id, rec(["k", "b"], [f_k, rec(["x"], [f_x])])])
    path = case["path"]
    newv = None if case["scalar_value"] is not None else model.value(case["new"]["layout"])
    what = case["scalar_value"] if newv is None else P.array(case["new"]["layout"])
    where = tuple(path) if (case["as_tuple"] or len(path) > 1) else path[0]
    det = {"lane": "P", "op": {"op": "with_field_path"}, "where": path, "scalar": case["scalar_value"], "n": n}
    ctx.cover("p_with_field_path", "/".join(path))
    kind, got = _call(P, lambda: _sorted_keys(P.value(ak.with_field(P.array(base_d), what, where))))

    def expected():
        out = []
        for i in range(n):
            r = {"id": vid[i], "a": {"k": vk[i], "b": {"x": vx[i]}}}
            at = r
            for key in path[:-1]:
                at = at[key]
            at[path[-1]] = case["scalar_value"] if newv is None else newv[i]
            out.append(r)
        return _sorted_keys(out)
    return _verdict(ctx, case, kind, got, expected, det)


def gen_c10(rng, tier):
    if rng.random() < 0.2:
        return gen_c10_path(rng, tier)
    cfg = _cfg(tier, records=False)
    pop = rng.choice(["zip_unzip", "zip_unzip", "with_field", "with_field", "zip_depth"])
    depth = rng.choice([0, 1, 1, 2])
    n = rng.choice([0, 1, 2, 4])
    # equal structure for all fields: one skeleton, fresh leaves
    T0 = _lists(rng, cfg, depth, option_p=0.0)
    skel = gen.gen_values(rng, T0, n, cfg)

    def fresh(dt):
        leafT = gen.P(dt) if dt not in ("string", "bytes") else {"t": dt}

        def rec(T, v):
            if T["t"] == "prim":
                if dt == "string":
                    return rng.choice(["", "a", "bc", "h\u00e9llo"])
                if dt == "bytes":
                    return rng.choice([b"", b"a", b"bc", b"\xff\x00z"])
                return gen.gen_value(rng, leafT, cfg)
            return [rec(T["e"], y) for y in v]
        T = _retype(T0, leafT)
        vals = [rec(T0, y) for y in skel]
        return {"T": T, "layout": gen.encode(rng, T, vals, "random", cfg)}
    k = rng.choice([1, 2, 3])
    fields = [fresh(rng.choice(cfg.dtypes + ["string", "bytes"])) for _ in range(k)]
    names = rng.sample(["x", "y", "z", "a b"], k)
    case = {"pop": pop, "fields": fields, "names": names, "tuple": rng.random() < 0.25,
            "newname": rng.choice(["w", names[0], "q"]), "new": fresh(rng.choice(cfg.dtypes)),
            "scalar_value": rng.choice([None, None, 7])}
    return case


def _retype(T, leafT):
    if T["t"] == "prim":
        return leafT
    out = dict(T)
    out["e"] = _retype(T["e"], leafT)
    return out


def _zipvals(vs, names, depth, istuple):
    """records at the deepest common level"""
    if depth == 0:
        return tuple(vs) if istuple else dict(zip(names, vs))
    return [_zipvals([v[i] for v in vs], names, depth - 1, istuple) for i in range(len(vs[0]))]


def run_c10(ctx, ak, P, case):
    pop = case["pop"]
    if pop == "with_field_path":
        return run_c10_path(ctx, ak, P, case)
    vs = [model.value(f["layout"]) for f in case["fields"]]
    xs = [P.array(f["layout"]) for f in case["fields"]]
    names, istuple = case["names"], case["tuple"]
    depth = gen.depth_of(case["fields"][0]["T"])[1]
    det = {"lane": "P", "op": {"op": pop}, "types": [gen.typestr(f["T"]) for f in case["fields"]], "names": names,
           "tuple": istuple, "inputs": [model.brief(v, 120) for v in vs]}
    zipped_arg = xs if istuple else dict(zip(names, xs))
    if pop in ("zip_unzip", "zip_depth"):
        kind, got = _call(P, lambda: P.value(ak.zip(zipped_arg)))
        stringy = any(gen.typestr(f["T"]).endswith(("string", "bytes")) for f in case["fields"])

        def exp():
            if stringy:       # at which level the records of string fields sit is not fixed by the statement (the round
                raise NoOpinion("zip depth with string fields")      # trip through unzip below is)
            return _zipvals(vs, names, depth, istuple)
        _verdict(ctx, case, kind, got, exp, det)
        if kind == "value":
            kind2, got2 = _call(P, lambda: [P.value(y) for y in ak.unzip(ak.zip(zipped_arg))])
            _verdict(ctx, case, kind2, got2, lambda: vs, dict(det, op={"op": "unzip(zip)"}))
        return
    # with_field
    if any(gen.typestr(f["T"]).endswith(("string", "bytes")) for f in case["fields"] + [case["new"]]):
        return ctx.count("p_with_field_with_strings_skipped")
    kind0, base = _call(P, lambda: ak.zip(zipped_arg))
    if kind0 == "error":
        return _verdict(ctx, case, kind0, base, lambda: _zipvals(vs, names, depth, istuple), dict(det, op={"op": "zip_unzip"}))
    newv = model.value(case["new"]["layout"])
    where = case["newname"]
    if istuple:
        return ctx.count("p_with_field_on_tuples_skipped")
    if case["scalar_value"] is not None:
        what, newv = case["scalar_value"], None
    else:
        what = P.array(case["new"]["layout"])
    kind, got = _call(P, lambda: _sorted_keys(P.value(ak.with_field(base, what, where))))

    def expected():
        def rec(vs_at, new_at, d):
            if d == 0:
                out = dict(zip(names, vs_at))
                out[where] = case["scalar_value"] if newv is None else new_at
                return out
            return [rec([v[i] for v in vs_at], None if newv is None else new_at[i], d - 1) for i in range(len(vs_at[0]))]
        return _sorted_keys(rec(vs, newv, depth))     # (where a replaced field ends up in the order is not fixed)
    return _verdict(ctx, case, kind, got, expected, dict(det, where=where, scalar=case["scalar_value"]))


def _sorted_keys(v):
    if isinstance(v, list):
        return [_sorted_keys(x) for x in v]
    if isinstance(v, dict):
        return dict((k, _sorted_keys(v[k])) for k in sorted(v))
    return v


# ====================================================================================================== C18
# The Python half of C18: ak.partitioned / ak.repartition (src/awkward/partition.py applies every operation partition
# by partition) and ak.virtual / ak.materialized (PyArrayGenerator / PyArrayCache over a MutableMapping).  The oracle
# is the property's own statement: every operation gives the value it gives on the eager, concatenated array - so the
# same operation sequence runs on both and outcome kind and model value must agree.

# (sort/argsort, pad_none and jagged masks are left to C06/C09/C01: their own known findings on sliced option lists
#  would otherwise show up here as differences between a partition and the whole)
# (boolean-array slices of a *re*partitioned array were seen to raise "index out of range" where the eager array
#  gives a value - not triaged yet, so that operation is not drawn and nothing is claimed about it)
C18_OPS = ["at", "range", "intarray", "field", "num", "flatten1", "flatten_none", "is_none", "fill_none",
           "local_index", "reduce_inner", "reduce_none", "add1", "self_mul",
           "concat_self", "concat_eager", "zip_self", "with_field", "astype", "combinations", "mask", "tojson",
           "len", "firsts", "singletons", "iter", "repartition", "to_list", "count0"]


def gen_c18(rng, tier):
    pop = rng.choice(["partitioned", "partitioned", "virtual"])
    # (records only under ak.virtual: on partitioned records ak.num(axis=0), ak.where and integer-array slices were
    #  seen to differ from the eager array in the first runs - not triaged yet, so not drawn and not claimed)
    cfg = _cfg(tier, records=pop == "virtual")
    cfg.dtypes = ["int8", "int32", "int64", "uint8", "uint32", "float32", "float64", "bool"]
    T = gen.gen_type(rng, cfg)
    n = rng.choice([0, 1, 2, 3, 4, 5, 6, 7, 9, 12])
    vals = gen.gen_values(rng, T, n, cfg)
    case = {"pop": pop, "T": T, "eager": gen.encode(rng, T, vals, "canonical", cfg), "seed": rng.randrange(1 << 30)}
    if pop == "partitioned":
        k = rng.randint(1, 4)
        stops = sorted(rng.randint(0, n) for _ in range(k - 1)) + [n]
        style = rng.choice(["canonical", "canonical", "random"])
        parts, a = [], 0
        case["typeop"] = style == "canonical"       # (a type string describes the physical layout's list classes)
        for s in stops:
            parts.append(gen.encode(rng, T, vals[a:s], style, cfg))
            a = s
        case.update({"parts": parts, "stops": stops, "style": style, "via": rng.choice(["partitioned", "class", "repartition"])})
    else:
        case.update({"layout": gen.encode(rng, T, vals, rng.choice(["canonical", "random"]), cfg),
                     "declare_form": rng.random() < 0.6, "declare_length": rng.random() < 0.7,
                     "cache": rng.choice(["none", "dict", "dict", "forget", "evict", "new"]),
                     "fault": rng.choice([None, None, None, "short", "long", "other-form", "raise-once"])})
    ops_ = []
    for _ in range(rng.choice([1, 1, 2, 3])):
        name = rng.choice(C18_OPS)
        # (zip/with_field make partitioned records: see above; ak.mask with a NumPy mask on a *re*partitioned array was
        #  seen to raise "partitionindex out of bounds" - like the boolean-array slice, not triaged, not drawn)
        while pop == "partitioned" and name in ("zip_self", "with_field", "mask"):
            name = rng.choice(C18_OPS)
        m = n + 2
        ops_.append({"op": name, "i": rng.randint(-m, m), "start": rng.choice([None, rng.randint(-m, m)]),
                     "stop": rng.choice([None, rng.randint(-m, m)]), "step": rng.choice([None, 1, 2, 3, -1, -2]),
                     "axis": rng.choice([0, 1, 1, -1, 2]), "fn": rng.choice(["sum", "count", "max", "min", "any", "prod",
                                                                             "argmax", "count_nonzero"]),
                     "to": rng.choice(["float64", "int64", "float32", "uint8"]),
                     "k": rng.choice([1, 2, 3, 5]), "r": rng.randrange(1 << 30)})
    case["ops"] = ops_
    return case


class _EvictingCache(dict):
    """a MutableMapping that forgets: policy 'forget' never stores, 'evict' drops everything at random gets"""
    def __init__(self, policy, rng):
        dict.__init__(self)
        self.policy, self.rng, self.sets, self.gets = policy, rng, 0, 0

    def __setitem__(self, k, v):
        self.sets += 1
        if self.policy != "forget":
            dict.__setitem__(self, k, v)

    def __getitem__(self, k):
        self.gets += 1
        if self.policy == "evict" and self.rng.random() < 0.5:
            self.clear()
        return dict.__getitem__(self, k)


def _c18_first_field(T):
    while T["t"] in ("option",):
        T = T["e"]
    if T["t"] == "record" and T.get("fields"):
        f = T["fields"][0]
        return f[0] if isinstance(f, (list, tuple)) else f
    return None


def _c18_apply(ak, np_, x, eager, op, n, T, rng):
    """one catalogue operation on x (partitioned/virtual or the eager twin); `eager` is the eager original for
    operands that mix both"""
    o = op["op"]
    if o == "at":
        return x[op["i"]]
    if o == "range":
        return x[op["start"]:op["stop"]:op["step"]]
    if o == "intarray":
        L = len(x)
        idx = np_.array([rng.randint(-L, L - 1) for _ in range(rng.choice([0, 1, 3, 6]))] if L else [], dtype=np_.int64)
        return x[idx]
    if o == "boolarray":
        L = len(x)
        return x[np_.array([rng.random() < 0.5 for _ in range(L)], dtype=np_.bool_)]
    if o == "field":
        f = _c18_first_field(T)
        return x[f if f is not None else "nosuchfield"]
    if o == "num":
        return ak.num(x, axis=op["axis"])
    if o == "flatten1":
        return ak.flatten(x, axis=1)
    if o == "flatten_none":
        return ak.flatten(x, axis=None)
    if o == "is_none":
        return ak.is_none(x)
    if o == "fill_none":
        return ak.fill_none(x, 7)
    if o == "pad_none":
        return ak.pad_none(x, op["k"], axis=op["axis"] if op["axis"] != 0 else 1, clip=bool(op["r"] & 1))
    if o == "local_index":
        return ak.local_index(x, axis=op["axis"])
    if o == "reduce_inner":
        return getattr(ak, op["fn"])(x, axis=-1)
    if o == "reduce_none":
        return getattr(ak, op["fn"])(x, axis=None)
    if o == "count0":
        return ak.num(x, axis=0)
    if o == "sort_inner":
        return ak.sort(x, axis=-1, ascending=bool(op["r"] & 1))
    if o == "argsort_inner":
        return ak.argsort(x, axis=-1, stable=True)
    if o == "add1":
        return x + 1
    if o == "self_mul":
        return np_.multiply(x, x)
    if o == "concat_self":
        return ak.concatenate([x, x])
    if o == "concat_eager":
        return ak.concatenate([x, eager]) if op["r"] & 1 else ak.concatenate([eager, x])
    if o == "zip_self":
        return ak.zip({"a": x, "b": x}, depth_limit=1)
    if o == "with_field":
        return ak.with_field(x, x, "extra")
    if o == "astype":
        return ak.values_astype(x, op["to"])
    if o == "combinations":
        return ak.combinations(x, 2, axis=1, replacement=bool(op["r"] & 1))
    if o == "mask":
        L = len(x)
        return ak.mask(x, np_.array([rng.random() < 0.5 for _ in range(L)], dtype=np_.bool_))
    if o == "jagged_mask":
        return x[x > 1]
    if o == "where":
        L = len(x)
        return ak.where(np_.array([rng.random() < 0.5 for _ in range(L)], dtype=np_.bool_), x, x)
    if o == "tojson":
        import json as _json
        return ("json", _json.loads(ak.to_json(x)))
    if o == "len":
        return ("len", len(x))
    if o == "firsts":
        return ak.firsts(x, axis=1)
    if o == "singletons":
        return ak.singletons(x)
    if o == "iter":
        return ("iter", [ak.to_list(y) if isinstance(y, (ak.Array, ak.Record)) else lanep_scalar(y) for y in x])
    if o == "to_list":
        return ("list", ak.to_list(x))
    if o == "type":
        return ("type", str(ak.type(x)) if op.get("typeop", True) else "")
    if o == "repartition":
        L = len(x)
        if op["r"] & 1 or L == 0:
            return ak.repartition(x, op["k"])
        cuts = sorted(rng.randint(0, L) for _ in range(op["k"] - 1)) + [L]
        lengths = [b - a for a, b in zip([0] + cuts[:-1], cuts)]
        return ak.repartition(x, lengths)
    raise AssertionError(o)


def lanep_scalar(y):
    from vlib import lanep_util
    return lanep_util.scalar(y)


def _c18_read(ak, P, r):
    if isinstance(r, tuple) and len(r) == 2 and r[0] in ("json", "len", "iter", "list", "type"):
        return r[1]
    return P.value(r)


def run_c18(ctx, ak, P, case):
    import random as _random
    import numpy as np_
    pop = case["pop"]
    T = case["T"]
    eager = P.array(case["eager"])
    v = model.value(case["eager"])
    n = len(v)
    det = {"lane": "P", "pop": pop, "type": gen.typestr(T), "input": model.brief(v, 300),
           "op": {"op": "+".join(o["op"] for o in case["ops"])}, "ops": case["ops"]}
    calls = {"n": 0}
    cache = None
    if pop == "partitioned":
        det["stops"] = case["stops"]
        det["via"] = case["via"]
        lays = [P.layout(p) for p in case["parts"]]
        try:
            if case["via"] == "class":
                x = ak.Array(ak.partition.IrregularlyPartitionedArray(lays))
            elif case["via"] == "partitioned":
                x = ak.partitioned([ak.Array(l) for l in lays])
            else:
                lengths = [b - a for a, b in zip([0] + case["stops"][:-1], case["stops"])]
                x = ak.repartition(eager, lengths)
        except Exception as e:       # noqa
            ctx.violation("unexpected-error", dict(det, where="construction", got="%s: %s" % (type(e).__name__, str(e)[:200])))
            return
        ctx.cover("c18p_via", case["via"])
        ctx.cover("c18p_partitions", min(len(case["stops"]), 4))
        kind, got = _call(P, lambda: P.value(x))
        if kind != "value" or not model.same(got, v):
            ctx.violation("partition-value", dict(det, got=model.brief(got, 300)))
            return
    else:
        src = P.layout(case["layout"])
        form = src.form
        fault = case["fault"]
        det.update({"cache": case["cache"], "fault": fault, "declare_form": case["declare_form"],
                    "declare_length": case["declare_length"]})
        crng = _random.Random(case["seed"] ^ 0x5bd1)
        cache = {"none": None, "dict": {}, "new": "new", "forget": _EvictingCache("forget", crng),
                 "evict": _EvictingCache("evict", crng)}[case["cache"]]
        other = P.layout(gen.encode(_random.Random(1), {"t": "list", "e": {"t": "list", "e": gen.P("int16")}},
                                    [[[1]]] * n, "canonical", None))

        def generate():
            calls["n"] += 1
            if fault == "raise-once" and calls["n"] == 1:
                raise RuntimeError("generator fault")
            if fault == "short" and n > 0:
                return src[:n - 1]
            if fault == "long":
                return ak.concatenate([src, src[:1]], highlevel=False) if n > 0 else src
            if fault == "other-form":
                return other
            return src
        kw = {}
        declared_len = case["declare_length"] or fault in ("short", "long")
        declared_form = case["declare_form"] or fault == "other-form"
        if declared_len:
            kw["length"] = n
        if declared_form:
            kw["form"] = form
        try:
            x = ak.virtual(generate, cache=cache, **kw)
        except Exception as e:       # noqa
            ctx.violation("unexpected-error", dict(det, where="construction", got="%s: %s" % (type(e).__name__, str(e)[:200])))
            return
        ctx.cover("c18p_cache", case["cache"])
        ctx.cover("c18p_fault", str(fault))
        if declared_len and declared_form:
            # laziness: structural queries leave the generator uncalled
            try:
                ln, ty = len(x), str(ak.type(x))
            except Exception as e:   # noqa
                ctx.violation("unexpected-error", dict(det, where="structural query", got="%s: %s" % (type(e).__name__, str(e)[:200])))
                return
            if calls["n"] != 0:
                ctx.violation("lazy-generated-early", dict(det, calls=calls["n"]))
                return
            if ln != n:
                ctx.violation("lazy-length-differs", dict(det, announced=ln, expected=n))
                return
            ctx.count("c18p_lazy_structural")
        effective_fault = (fault in ("short", "long") and n > 0) or fault == "other-form" or fault == "raise-once"
        if effective_fault:
            # enforcement: the access that triggers generation must raise; nothing stale may become visible afterwards
            kind, got = _call(P, lambda: P.value(ak.materialized(x)))
            if fault == "long":
                ctx.count("c18p_longer_" + kind)        # (accepted by the code; the statement does not say)
                return
            if kind != "error":
                ctx.violation("missing-error", dict(det, why="generator returned %s" % fault, got=model.brief(got, 300)))
                return
            ctx.count("c18p_enforced")
            if isinstance(cache, dict) and len(cache):
                ctx.violation("stale-cache-entry", dict(det, keys=[str(k) for k in cache][:4]))
                return
            if fault != "raise-once":
                ctx.nontrivial(True)
                return
            # after the fault stops the eager value is served
            kind, got = _call(P, lambda: P.value(ak.materialized(x)))
            if kind != "value" or not model.same(got, v):
                ctx.violation("wrong-after-fault", dict(det, got=model.brief(got, 300) if kind == "value" else got))
                return
    # ---- the same operation sequence on both
    cur, ref = x, eager
    for k, op in enumerate(case["ops"]):
        seed = case["seed"] + k
        op = dict(op, typeop=case.get("typeop", True))
        stop_chain = False
        ek, er = _call(P, lambda: _c18_apply(ak, np_, ref, eager, op, n, T, _random.Random(seed)))
        lk, lr = _call(P, lambda: _c18_apply(ak, np_, cur, eager, op, n, T, _random.Random(seed)))
        if ek == "value":
            ek, ev = _call(P, lambda: _c18_read(ak, P, er))
        else:
            ev = er
        if lk == "value":
            lk, lv = _call(P, lambda: _c18_read(ak, P, lr))
        else:
            lv = lr
        d2 = dict(det, step=k, op={"op": op["op"]}, this_op=op)
        ctx.cover("c18p_op", "%s:%s:%s" % (pop, op["op"], ek))
        if ek == "error" and lk == "value":
            ctx.count("c18p_only_eager_raises")      # (the statement fixes the value only where the eager array has one)
            break
        if ek != lk:
            ctx.violation("lazy-outcome-differs" if pop == "virtual" else "partition-outcome-differs",
                          dict(d2, eager=(model.brief(ev, 300) if ek == "value" else ev),
                               got=(model.brief(lv, 300) if lk == "value" else lv)))
            return
        if ek == "error":
            ctx.count("p_errors_agree")
            break
        if op["op"] == "reduce_none" and op["fn"] in ("argmax", "argmin") and ("{" in det["type"] or "(" in det["type"]):
            ctx.count("c18p_arg_of_records_not_compared")     # (a position in which field's leaves? not fixed)
            break
        if op["op"] == "type":
            same = _c18_type_same(ev, lv)
        elif op["op"] in ("tojson", "iter", "to_list"):
            same = _jsame(ev, lv)
        elif op["op"] == "flatten_none" and ("{" in det["type"] or "(" in det["type"] or any(
                o["op"] in ("combinations", "zip_self", "with_field", "fill_none", "concat_self", "concat_eager")
                for o in case["ops"][:k])):      # (records and unions: leaves are strung together arm by arm)
            # (the order in which the fields of records are strung together is not fixed by any statement)
            same = sorted(map(repr, lv)) == sorted(map(repr, ev))
            stop_chain = True            # (the two sides may now hold the same items in a different order)
        elif op["op"] in ("reduce_none", "reduce_inner"):
            same = model.same(lv, ev, rel=1e-5)      # (floating-point sums are accumulated partition by partition)
        else:
            same = model.same(lv, ev)
        if pop == "partitioned" and op["op"] == "combinations":
            stop_chain = True                        # (the result holds partitioned records: not drawn, see gen_c18)
        if not same:
            ctx.violation("lazy-value-differs" if pop == "virtual" else "partition-value-differs",
                          dict(d2, eager=model.brief(ev, 400), got=model.brief(lv, 400)))
            return
        ctx.count("p_values_agree")
        if not isinstance(er, (ak.Array, ak.Record)) or not isinstance(lr, (ak.Array, ak.Record)):
            break
        if stop_chain:
            break
        if pop == "partitioned" and len(er) == 0:
            # (an empty slice of a partitioned array keeps no partition to carry the type: later operations see a bare
            #  empty array - observed, not triaged, so the chain stops here and nothing is claimed beyond this point)
            ctx.count("c18p_empty_intermediate_chain_stopped")
            break
        cur, ref = lr, er
    if pop == "virtual":
        if isinstance(cache, dict) and not isinstance(cache, _EvictingCache) and calls["n"] > (2 if case["fault"] == "raise-once" else 1):
            ctx.violation("lazy-regenerated-with-cache", dict(det, calls=calls["n"]))
            return
        ctx.nontrivial(calls["n"] > 0)
    else:
        ctx.nontrivial(n > 0 and len(case["stops"]) > 1)


def _c18_type_same(a, b):
    return a == b


def _jsame(a, b):
    import json as _json
    import math

    def norm(x):
        if isinstance(x, float):
            return "nan" if math.isnan(x) else x
        if isinstance(x, (list, tuple)):
            return [norm(y) for y in x]
        if isinstance(x, dict):
            return {k: norm(y) for k, y in x.items()}
        if isinstance(x, bytes):
            return x.decode("latin-1")
        return x
    return _json.dumps(norm(a), sort_keys=True, default=str) == _json.dumps(norm(b), sort_keys=True, default=str)
