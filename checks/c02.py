"""C02 - results depend only on an array's logical value, never on its physical layout.

Metamorphic monitor (needs no semantics of the operation): the same (type, values) is encoded three times -
A and B with independent random physical choices (list class, index width, offset origin, gaps/overlaps/shuffled
content, IndexedArray indirection, option encoding, strides, Index windows) and C in the compact canonical form -
then the same operation with the same arguments (optionally after the same slicing prefix, so that operands are
by-products of earlier operations) runs on all three.  Outcome kind (value / error), model value and type string
must agree.
"""
from __future__ import print_function

import random
import sys

from vlib import gen, model, ops

PROPERTY = "C02"
LEVEL = "exploration"
RULE = ("a case is (type, values, operation+arguments[, slicing prefix]); A,B = two random encodings, C = canonical "
        "encoding, all asserted equal in model value before use; non-trivial = A and B differ in at least one node "
        "class/width or index origin and the array has length > 0; distinct = distinct SHA-1 of the case descriptor")
VARIANTS = {"quick": ["asan"], "thorough": ["asan"]}
BUDGET = {"quick": dict(cases=30000, seconds=70), "thorough": dict(cases=600000, seconds=1200)}
MIN_NONTRIVIAL = {"quick": 1500, "thorough": 30000}
ASSUMPTIONS = [
    "the layout model reads results correctly (it is the only reader: results are never read through to_list/tojson)",
    "type equality is compared on the library's own type strings, which do not show index widths",
]

# the class-agnostic operations the statement lists; class-specific conversions (project, bytemask, toRegularArray,
# compact_offsets64, form, ...) legitimately exist only for some encodings and are checked in C04/C09 instead
FAMS = ["slice", "structure", "reduce", "sort", "combinations", "pad", "merge", "astype", "convert2", "queries"]
ops.FAMILIES["convert2"] = ["tojson", "validityerror", "deep_copy"]


def gen_case(rng, tier, index):
    cfg = gen.Cfg(tier)
    fam = rng.choice(FAMS)
    if fam in ("sort", "pad", "structure", "reduce", "combinations"):
        # an axis can address the characters *inside* a string (a string is a list level of its own in this
        # library); what happens there is outside the statement, which speaks of strings as leaves
        cfg.strings = False
    if fam == "sort":          # the library sorts numbers, booleans and strings only (C06's domain)
        cfg.dtypes = ["bool"] + gen.INT_DTYPES + gen.FLOAT_DTYPES
    elif fam == "convert2":    # JSON has no datetime (C15's domain)
        cfg.dtypes = ["bool"] + gen.INT_DTYPES + gen.FLOAT_DTYPES + gen.COMPLEX_DTYPES
    T, vals, A = gen.layout(rng, cfg)
    B = gen.encode(rng, T, vals, "random", cfg)
    C = gen.encode(rng, T, vals, "canonical", cfg)
    v = gen.plain(vals)
    case = {"T": T, "A": A, "B": B, "C": C, "prefix": None}
    n = len(v)
    if n and rng.random() < 0.3:
        if rng.random() < 0.5:
            a, b = sorted([rng.randint(0, n), rng.randint(0, n)])
            case["prefix"] = {"op": "getitem_range", "start": a, "stop": b}
            v = v[a:b]
        else:
            idx = [rng.randint(0, n - 1) for _ in range(rng.randint(0, n + 1))]
            case["prefix"] = {"op": "carry", "index": idx}
            v = [v[i] for i in idx]
    case["op"] = ops.gen_op(rng, T, v, cfg, families=[fam])
    return case


def run_case(ctx, case):
    b = ctx.lib
    descs = [case["A"], case["B"], case["C"]]
    vals = [model.value(d) for d in descs]
    if not (model.same(vals[0], vals[1]) and model.same(vals[0], vals[2])):
        raise RuntimeError("re-encodings disagree in model value (generator bug)")
    outs = []
    for d in descs:
        h = b.build(d)
        if case["prefix"]:
            pre = ops.run_op(b, h, case["prefix"])
            if pre.kind != "value" or pre.handle is None:
                outs.append(pre)
                continue
            h = pre.handle
        outs.append(ops.run_op(b, h, case["op"]))
    op = case["op"]
    opname = op["op"] + (":" + op["name"] if op["op"] == "reduce" else "")
    ctx.cover("op", opname)
    kinds = [o.kind for o in outs]
    ctx.cover("outcome", "/".join(sorted(set(kinds))))
    ca, cb = model.classes(case["A"]), model.classes(case["B"])
    differ = ca != cb or _origins(case["A"]) != _origins(case["B"])
    ctx.nontrivial(differ and len(vals[0]) > 0)
    for k in set(ca) ^ set(cb):
        ctx.cover("classes_varied", k)
    names = "ABC"
    for i in (1, 2):
        a, o = outs[0], outs[i]
        if a.kind != o.kind:
            ctx.violation("outcome-kind-differs", {"op": op, "prefix": case["prefix"], "pair": "A" + names[i],
                                                   "A": a.brief(), names[i]: o.brief(),
                                                   "A_classes": sorted(ca), "other_classes": sorted(model.classes(descs[i]))})
            return
        if a.kind == "value":
            if not model.same(a.value, o.value, rel=1e-12):
                ctx.violation("value-differs", {"op": op, "prefix": case["prefix"], "pair": "A" + names[i],
                                                "A": a.brief(), names[i]: o.brief(),
                                                "A_classes": sorted(ca), "other_classes": sorted(model.classes(descs[i]))})
                return
            if a.type != o.type:
                ctx.count("result_type_strings_differ_(not_required_equal)")
    ctx.count("triples_compared")
    ctx.sample({"type": gen.typestr(case["T"]), "op": opname, "outcome": outs[0].brief(),
                "A_classes": sorted(ca), "B_classes": sorted(cb)})


def _origins(d):
    out = []
    for _p, n in model.walk(d):
        for k in ("offsets", "starts", "index", "mask", "tags"):
            if k in n:
                out.append((k, n[k]["v"][:1], n[k].get("pre", 0)))
        if n["c"] == "NumpyArray":
            out.append(("np", n["lo"], tuple(n["strides"])))
    return out


def signature(vio):
    det = vio.get("detail") or {}
    op = det.get("op") or {}
    if vio["kind"] in ("outcome-kind-differs", "value-differs", "type-differs"):
        return "%s:%s%s" % (vio["kind"], op.get("op"), ":" + op.get("name", "") if op.get("op") == "reduce" else "")
    return None


def classify(vio):
    from vlib import known
    return known.classify(vio)


if __name__ == "__main__":
    from vlib import runner
    sys.exit(runner.main(sys.modules[__name__]))
