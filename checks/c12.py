"""C12 - operations never crash, hang, touch foreign memory, or modify their inputs.

Lane L on the AddressSanitizer build.  Monitors:
  1. sanitizer / exit status : a worker death with an open call (runner) - ASan/UBSan report, signal
  2. watchdog                : reproducible non-return (runner)
  3. purity                  : structural dump (every Index window, every NumpyArray span, parameters) of every
                               operand is byte-identical before the call, after the call, after a second result was
                               derived from the same operands and after the first result was released
  4. drop-inputs             : value(result) read, all operand handles released, allocator churned, value(result)
                               read again - equal (and no use-after-free report)
  5. entry points on invalid layouts: validityerror / tostring / tojson / form / type on layouts with one documented
     rule broken must return or raise, never die
"""
from __future__ import print_function

import ctypes
import gc
import os
import random
import sys

from vlib import gen, model, ops, invalid
from vlib.bridge import AkError

PROPERTY = "C12"
LEVEL = "exploration"
RULE = ("cases are (layout, 1-3 catalogue operations sharing that layout as operand) over every node class and "
        "operation family, sizes biased to 0/1/2, plus invalid layouts (one rule broken) fed to the check/print/convert "
        "entry points; non-trivial = some operand has length > 0 or the case is a designated corner (zero-length, "
        "size-0/size-1 regular, n > size); distinct = distinct SHA-1 of the case descriptor")
# asan only: on the uninstrumented build the recorded heap overflows (F10, F15) corrupt the allocator silently and the
# worker dies later, outside the offending case, which attributes nothing (thorough runs ended inconclusive)
VARIANTS = {"quick": ["asan"], "thorough": ["asan"]}
BUDGET = {"quick": dict(cases=30000, seconds=75), "thorough": dict(cases=500000, seconds=1500)}
MIN_NONTRIVIAL = {"quick": 1500, "thorough": 30000}
ASSUMPTIONS = [
    "AddressSanitizer limits: non-adjacent overflows that jump the 64-byte red zone, intra-object overflows and reads "
    "of reused memory after the quarantine is exhausted are not reported",
    "the pybind11 binding (src/python/*.cpp) is replaced by the C-ABI bridge and is not executed",
    "UBSan is restricted to bounds,null,return,unreachable,vla-bound: signed overflow, float casts and shifts are "
    "behaviour the library relies on and no property forbids",
]

ENTRY = ["validityerror", "tostring", "tojson", "form", "typestr"]


def gen_case(rng, tier, index):
    cfg = gen.Cfg(tier)
    if rng.random() < 0.35:
        cfg.maxlen = 2
    mode = "invalid" if index % 5 == 4 else "ops"
    T, vals, d = gen.layout(rng, cfg)
    case = {"mode": mode, "T": T, "layout": d}
    if mode == "invalid":
        out = invalid.invalidate(rng, d)
        if out is None:
            mode = case["mode"] = "ops"
        else:
            case["layout"], case["rule"], case["path"] = out
            case["entries"] = rng.sample(ENTRY, rng.randint(1, len(ENTRY)))
    if mode == "ops":
        v = gen.plain(vals)
        k = rng.choice([1, 1, 2, 3])
        case["ops"] = [ops.gen_op(rng, T, v, cfg) for _ in range(k)]
        for op in case["ops"]:
            # outer axes of reducers/sorts run the non-local pipeline, whose recorded heap overflows (F10) kill the
            # uninstrumented worker without an attributable report: capped stream (every death there is re-run under ASan)
            if op["op"] in ("reduce", "sort", "argsort") and op.get("axis") != -1 and rng.random() < 0.97:
                op["axis"] = -1
    return case


def _entry(b, h, name):
    try:
        if name == "validityerror":
            b.validityerror(h)
        elif name == "tostring":
            b.tostring(h)
        elif name == "tojson":
            b.tojson(h, False, -1, "NaN", "Infinity", "-Infinity", "r", "i")
        elif name == "form":
            b.form_tojson(b.form(h), False, True)
        elif name == "typestr":
            b.typestr(h)
        return "returned"
    except AkError as e:
        return "raised:" + e.kind


def _churn(sizes):
    libc = ctypes.CDLL(None)
    libc.malloc.restype = ctypes.c_void_p
    libc.free.argtypes = [ctypes.c_void_p]
    libc.memset.argtypes = [ctypes.c_void_p, ctypes.c_int, ctypes.c_size_t]
    ptrs = []
    for _ in range(3):
        for s in sizes:
            p = libc.malloc(max(1, s))
            libc.memset(p, 0xA5, max(1, s))
            ptrs.append(p)
    for p in ptrs:
        libc.free(p)


def _sizes(d):
    out = []
    for _p, n in model.walk(d):
        if n["c"] == "NumpyArray":
            out.append(len(n["hex"]) // 2)
        for k in ("offsets", "starts", "stops", "index", "mask", "tags"):
            if k in n:
                out.append(len(n[k]["v"]) * 8)
    return out


def run_case(ctx, case):
    b = ctx.lib
    d = case["layout"]
    for k in model.classes(d):
        ctx.cover("input_classes", k)
    if case["mode"] == "invalid":
        try:
            h = b.build(d)
        except AkError as e:
            ctx.cover("invalid_entry", "constructor:raised")
            ctx.nontrivial(True)
            return
        for name in case["entries"]:
            res = _entry(b, h, name)
            ctx.cover("invalid_entry", "%s:%s" % (name, res.split(":")[0]))
            ctx.cover("invalid_rule_x_entry", "%s x %s" % (case["rule"], name))
        ctx.nontrivial(True)
        ctx.sample({"mode": "invalid", "rule": case["rule"], "entries": case["entries"]}, cap=3)
        return

    n = model.length(d)
    h = b.build(d)
    before = b.describe_text(h)
    value_before = model.value(d)
    corner = []
    if n == 0:
        corner.append("zero-length")
    for _p, node in model.walk(d):
        if node["c"] == "RegularArray" and node["size"] in (0, 1):
            corner.append("regular-size-%d" % node["size"])
    results = []
    for op in case["ops"]:
        if op["op"] == "combinations":
            corner.append("combinations-n%d" % op["n"])
        out = ops.run_op(b, h, op)
        ctx.cover("op", op["op"] + (":" + op["name"] if "name" in op and op["op"] == "reduce" else ""))
        ctx.cover("outcome", out.kind if out.kind == "value" else "error:" + str(out.err))
        results.append(out)
        after = b.describe_text(h)
        ctx.count("purity_comparisons")
        if after != before:
            ctx.violation("operand-modified", {"op": op, "when": "after-call"})
            return
        if op["op"] == "getitem":
            ctx.count("slice_operand_purity_comparisons")
            mod = b.slice_operands_modified()
            if mod:
                ctx.violation("operand-modified", {"op": op, "when": "after-call", "which": mod})
                return
    for c in set(corner):
        ctx.cover("corners", c)
    ctx.nontrivial(n > 0 or bool(corner))

    # release the first result, compare again
    first = results[0]
    first_value = first.value if first.kind == "value" else None
    if first.handle is not None and len(results) > 1:
        first.handle.release()
        first.handle = None
        ctx.count("purity_comparisons")
        if b.describe_text(h) != before:
            ctx.violation("operand-modified", {"op": case["ops"][0], "when": "after-release-of-result"})
            return
    if not model.same(model.value(b.describe(h)), value_before):
        ctx.violation("operand-value-changed", {"ops": case["ops"]})
        return

    # drop-inputs on the last Content result
    last = results[-1]
    if last.kind == "value" and last.handle is not None and last.desc is not None:
        v1 = last.value
        sizes = _sizes(d)
        h.release()
        for r in results[:-1]:
            if r.handle is not None:
                r.handle.release()
        gc.collect()
        _churn(sizes)
        d2 = b.describe(last.handle)
        try:
            v2 = model.value(d2)
        except Exception:
            v2 = v1 if isinstance(v1, str) and v1.startswith("<unreadable") else "<unreadable result>"
        ctx.count("drop_inputs_checked")
        if not model.same(v1, v2):
            ctx.violation("result-depends-on-released-input", {"op": case["ops"][-1], "before": model.brief(v1),
                                                               "after": model.brief(v2)})
    ctx.sample({"mode": "ops", "ops": [o["op"] for o in case["ops"]], "type": gen.typestr(case["T"]),
                "outcomes": [r.kind for r in results]}, cap=3)


def signature(vio):
    return None


def classify(vio):
    from vlib import known
    return known.classify(vio)


if __name__ == "__main__":
    from vlib import runner
    sys.exit(runner.main(sys.modules[__name__]))
