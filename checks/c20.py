"""C20 - Numba-compiled code sees the same values as interpreted Python (lane P: the repository's Numba extension).

Access programs are generated as Python source from the array's type: nested `for` loops with early exits down to the
numeric leaves (position-weighted checksum, leaf count, None count), `len`, integer / negative / out-of-range indexing,
chained indexing, range slices, field access by attribute and by string, `in` tests and numpy.asarray on numeric
leaves, ArrayBuilder programs that copy the array's structure, and pass-through (return the argument, an element, a
slice).  Each program is compiled with numba.njit and also run as plain Python (`.py_func`) on the same ak.Array;
outcomes (value or exception class) must agree; arrays coming back are read through the bridge's structural dump.
A reference-count monitor repeats a compiled call 1, 10 and 100 times and compares sys.getrefcount of the array and of
its layout and the bridge's count of live C++ owners before and after.
"""
from __future__ import print_function

import gc
import sys

import numpy as np

from vlib import gen, model

PROPERTY = "C20"
LEVEL = "exploration"
RULE = ("a case is (generated layout, access program generated from its type, arguments); non-trivial = the program "
        "compiled and both executions returned or raised; distinct = SHA-1 of the case descriptor; every new "
        "(array type, program) pair is a separate Numba compilation (~0.3 s), which bounds the number of cases")
VARIANTS = {"quick": ["plain"], "thorough": ["plain"]}
BUDGET = {"quick": dict(cases=2400, seconds=80), "thorough": dict(cases=60000, seconds=1800)}
MIN_NONTRIVIAL = {"quick": 300, "thorough": 5000}
ASSUMPTIONS = [
    "lane P: awkward._ext is the akext stand-in; the Numba extension (src/awkward/_connect/_numba) is the repository's "
    "own code, running on numba 0.67 / llvmlite 0.49 with the harness-side shims listed in vlib/lanep.py (pointer_add, "
    "entry points, ...)",
    "union-type elements, strings and complex/datetime leaves are not accessed inside compiled code (the extension "
    "documents unions as unsupported there); such arrays are only passed through, measured and sliced",
    "leaves are small numbers without NaN/inf so that Python's and Numba's arithmetic on the checksum agree exactly",
]

LEAF = ["bool", "int8", "int16", "int32", "int64", "uint8", "uint16", "uint32", "float32", "float64"]
PROGRAMS = ["walk", "walk", "walk", "len", "at", "at", "chain", "range", "field", "in", "asarray", "builder", "builder",
            "identity", "refcount"]


def gen_case(rng, tier, index):
    cfg = gen.Cfg(tier)
    cfg.dtypes = LEAF
    cfg.nan = cfg.inf = cfg.extremes = False
    cfg.strings = False
    cfg.unknown = False
    cfg.categorical = False
    cfg.unions = rng.random() < 0.1
    cfg.maxdepth = 3
    T = gen.gen_type(rng, cfg)
    r = rng.random()
    n = 0 if r < 0.08 else (1 if r < 0.18 else rng.randint(2, cfg.maxlen + 1))
    vals = _tame(rng, T, gen.gen_values(rng, T, n, cfg))
    d = gen.encode(rng, T, vals, "random", cfg)
    prog = rng.choice(PROGRAMS)
    n = len(vals)
    wrap = None
    r = rng.random()
    if r < 0.12 and n >= 1 and not has_union(T):
        wrap = "virtual"
    elif r < 0.27 and n >= 2 and not has_union(T):
        wrap = "partitioned"
    parts = None
    if wrap == "partitioned":
        cuts = sorted(rng.randint(0, n) for _ in range(rng.randint(1, 2)))
        parts, a0 = [], 0
        for c in cuts + [n]:
            parts.append(gen.encode(rng, T, vals[a0:c], "canonical", cfg))      # one Form for all partitions
            a0 = c
    case = {"T": T, "layout": d, "prog": prog, "n": n, "wrap": wrap, "parts": parts,
            "i": rng.choice([0, 1, -1, n - 1, n, -n, -n - 1, n + 3, 2]),
            "j": rng.choice([0, 1, 2, -1]), "a": rng.randint(-2, n + 1), "b": rng.randint(-2, n + 2),
            "needle": rng.choice([0, 1, 2, 3, 5, -1]), "stop_after": rng.choice([None, None, 1, 3, 7])}
    return case


def _tame(rng, T, vals):
    """small leaves that are exact in every dtype (so float32 and float64 accumulation agree)"""
    def rec(T, v):
        if v is None:
            return None
        if isinstance(v, gen.U):
            return gen.U(v.arm, rec(T["arms"][v.arm], v.v))
        t = T["t"]
        if t == "option":
            return rec(T["e"], v)
        if t == "prim":
            k = np.dtype(T["d"]).kind
            if k == "b":
                return rng.random() < 0.5
            if k == "u":
                top = {1: 200, 2: 60000, 4: 3000000000, 8: 3000000000}[np.dtype(T["d"]).itemsize]
                return rng.choice([0, 1, 2, 3, 5, top, top - 1])      # values with the top bit set, too
            if k == "i":
                return rng.choice([0, 1, -1, 2, -3, 4])
            return rng.choice([0.0, 0.5, -1.5, 2.0, 3.0, -0.5])
        if t in ("list", "regular"):
            return [rec(T["e"], x) for x in v]
        if t == "record":
            if isinstance(v, tuple):
                return tuple(rec(f, x) for f, x in zip(T["fields"], v))
            return dict((k, rec(f, v[k])) for f, k in zip(T["fields"], T["keys"]))
        return v
    return [rec(T, x) for x in vals]


# ---------------------------------------------------------------- program generation

def has_union(T):
    t = T["t"]
    if t == "union":
        return True
    if "e" in T:
        return has_union(T["e"])
    return any(has_union(f) for f in T.get("fields", []))


def _field_expr(var, T, i):
    if T["keys"] is None:
        return '%s["%d"]' % (var, i)
    k = T["keys"][i]
    if k.isidentifier() and (i % 2 == 0):
        return "%s.%s" % (var, k)
    return '%s["%s"]' % (var, k)


def emit_walk(T, var, ind, depth, lines):
    """statements that visit every numeric leaf below `var`, updating k, total, count, nnone"""
    pad = "    " * ind
    t = T["t"]
    if t == "option":
        lines.append("%sif %s is None:" % (pad, var))
        lines.append("%s    nnone += 1" % pad)
        lines.append("%selse:" % pad)
        emit_walk(T["e"], var, ind + 1, depth, lines)
    elif t in ("list", "regular"):
        v = "v%d" % depth
        lines.append("%sfor %s in %s:" % (pad, v, var))
        emit_walk(T["e"], v, ind + 1, depth + 1, lines)
        lines.append("%s    if stop >= 0 and count >= stop:" % pad)
        lines.append("%s        break" % pad)
    elif t == "record":
        if not T["fields"]:
            lines.append("%scount += 0" % pad)
        for i, f in enumerate(T["fields"]):
            emit_walk(f, _field_expr(var, T, i), ind, depth + 10 * (i + 1), lines)
    elif t == "prim":
        # plain arithmetic only: Numba does not narrow Optional(T) after an `is None` test, and float()/int() are not
        # defined on Optional values, while arithmetic unwraps them
        lines.append("%sk += 1" % pad)
        lines.append("%scount += 1" % pad)
        lines.append("%stotal += (k %% 7 + 1) * %s" % (pad, var))
    else:
        raise ValueError(t)


def emit_builder(T, var, ind, depth, lines, optional=False):
    pad = "    " * ind
    t = T["t"]
    if t == "option":
        lines.append("%sif %s is None:" % (pad, var))
        lines.append("%s    builder.null()" % pad)
        lines.append("%selse:" % pad)
        emit_builder(T["e"], var, ind + 1, depth, lines, True)
    elif t in ("list", "regular"):
        v = "v%d" % depth
        lines.append("%sbuilder.begin_list()" % pad)
        lines.append("%sfor %s in %s:" % (pad, v, var))
        emit_builder(T["e"], v, ind + 1, depth + 1, lines)
        lines.append("%sbuilder.end_list()" % pad)
    elif t == "record":
        if T["keys"] is None:
            lines.append("%sbuilder.begin_tuple(%d)" % (pad, len(T["fields"])))
            for i, f in enumerate(T["fields"]):
                lines.append("%sbuilder.index(%d)" % (pad, i))
                emit_builder(f, _field_expr(var, T, i), ind, depth + 10 * (i + 1), lines)
            lines.append("%sbuilder.end_tuple()" % pad)
        else:
            lines.append("%sbuilder.begin_record()" % pad)
            for i, f in enumerate(T["fields"]):
                lines.append('%sbuilder.field("%s")' % (pad, T["keys"][i]))
                emit_builder(f, _field_expr(var, T, i), ind, depth + 10 * (i + 1), lines)
            lines.append("%sbuilder.end_record()" % pad)
    elif t == "prim":
        kind = np.dtype(T["d"]).kind
        # (an Optional(T) argument is not accepted by the builder methods: arithmetic makes it a plain T)
        if kind == "b":
            lines.append("%sbuilder.boolean(%s)" % (pad, ("%s == True" % var) if optional else var))
        elif kind == "f":
            lines.append("%sbuilder.real(%s)" % (pad, ("%s + 0.0" % var) if optional else var))
        elif kind == "u" and depth % 2 == 1 and not optional:
            lines.append("%sbuilder.real(%s)" % (pad, var))            # integers are accepted by real(), too
        else:
            lines.append("%sbuilder.integer(%s)" % (pad, ("%s + 0" % var) if optional else var))
    else:
        raise ValueError(t)


def top_is(T, kinds):
    while T["t"] == "option":
        T = T["e"]
    return T["t"] in kinds


def make_program(case):
    """-> (source, call kind) ; the function is always called f"""
    T, prog = case["T"], case["prog"]
    union = has_union(T)
    if union:          # union-type arrays cannot be indexed or iterated in compiled code (documented): pass-through only
        prog = "len" if case["i"] % 2 else "identity"
    if prog == "walk":
        body = []
        emit_walk({"t": "list", "e": T}, "x", 1, 0, body)
        src = "def f(x, stop):\n    k = 0\n    count = 0\n    nnone = 0\n    total = 0.0\n" + "\n".join(body) + \
              "\n    return count, nnone, total\n"
        return prog, src, "walk"
    if prog == "len":
        return prog, "def f(x):\n    return len(x)\n", "plain"
    if prog == "at":
        return prog, "def f(x, i):\n    return x[i]\n", "at"
    if prog == "chain":
        if top_is(T, ("list", "regular")) and T["t"] != "option":
            return prog, "def f(x, i, j):\n    return x[i][j]\n", "chain"
        return "at", "def f(x, i):\n    return x[i]\n", "at"
    if prog == "range":
        return prog, "def f(x, a, b):\n    return x[a:b]\n", "range"
    if prog == "field":
        if T["t"] == "record" and T["fields"]:
            i = case["i"] % len(T["fields"])
            return prog, "def f(x):\n    return %s\n" % _field_expr("x", T, i), "plain"
        return "len", "def f(x):\n    return len(x)\n", "plain"
    if prog == "in":
        if T["t"] == "prim" and case.get("wrap") != "partitioned":     # (`in` is not defined for partitioned views)
            return prog, "def f(x, needle):\n    return needle in x\n", "in"
        return "len", "def f(x):\n    return len(x)\n", "plain"
    if prog == "asarray":
        d = case["layout"]
        if T["t"] == "prim" and d["c"] == "NumpyArray" and len(d["shape"]) == 1 and not case.get("wrap"):
            return prog, "def f(x):\n    a = np.asarray(x)\n    return a.sum(), a.shape[0]\n", "plain"
        return "len", "def f(x):\n    return len(x)\n", "plain"
    if prog == "builder":
        body = []
        emit_builder(T, "v", 2, 0, body)
        src = "def f(builder, x):\n    for v in x:\n" + "\n".join(body) + "\n    return builder\n"
        return prog, src, "builder"
    if prog == "identity":
        return prog, "def f(x):\n    return x\n", "plain"
    if prog == "refcount":
        return prog, "def f(x):\n    return len(x)\n", "refcount"
    raise ValueError(prog)


# ---------------------------------------------------------------------------------------------------------------------

def _outcome(P, ak, fn, args):
    try:
        r = fn(*args)
    except Exception as e:     # noqa
        return ("error", type(e).__name__, " ".join(str(e).split())[:700])
    return ("value", _norm(P, ak, r), None)


def _norm(P, ak, r):
    if isinstance(r, tuple):
        return tuple(_norm(P, ak, x) for x in r)
    if isinstance(r, ak.ArrayBuilder):
        return P.value(r.snapshot())
    if isinstance(r, (ak.Array, ak.Record)):
        try:
            return P.value(r)
        except Exception as e:     # noqa  (not a readable layout)
            return "<unreadable result: %s>" % type(e).__name__
    if isinstance(r, np.generic):
        return r.item()
    if isinstance(r, np.ndarray):
        return r.tolist()
    return r


ERR_EQUIV = {"IndexError": "index", "ValueError": "index", "KeyError": "index"}


def run_case(ctx, case):
    import numba
    from vlib import lanep_util
    ak, P = lanep_util.setup(ctx)
    prog, src, kind = make_program(case)
    ctx.cover("program", prog)
    d = case["layout"]
    for c in model.classes(d):
        ctx.cover("input_classes", c)
    ns = {"np": np}
    exec(compile(src, "<c20 program>", "exec"), ns)
    pyf = ns["f"]
    try:
        jit = numba.njit(pyf)
    except Exception as e:     # noqa
        raise RuntimeError("numba.njit failed on generated source: %r" % (e,))
    arr = P.array(d)
    ctx.cover("array_kind", case.get("wrap") or "plain")
    if case.get("wrap") == "partitioned":
        arr = ak.Array(ak.partition.IrregularlyPartitionedArray([P.layout(p) for p in case["parts"]]))
    elif case.get("wrap") == "virtual":
        inner = arr
        arr = ak.virtual(lambda: inner, length=len(inner), form=inner.layout.form)
    n = case["n"]
    stop = -1 if case["stop_after"] is None else case["stop_after"]
    if kind == "walk":
        a1, a2 = (arr, stop), (arr, stop)
    elif kind == "at":
        a1 = a2 = (arr, case["i"])
    elif kind == "chain":
        a1 = a2 = (arr, case["i"], case["j"])
    elif kind == "range":
        a1 = a2 = (arr, case["a"], case["b"])
    elif kind == "in":
        a1 = a2 = (arr, case["needle"])
    elif kind == "builder":
        a1, a2 = (ak.ArrayBuilder(), arr), (ak.ArrayBuilder(), arr)
    else:
        a1 = a2 = (arr,)
    det = {"program": prog, "source": src[:600], "type": gen.typestr(case["T"]), "classes": sorted(model.classes(d)),
           "args": [case["i"], case["j"], case["a"], case["b"], case["needle"], stop]}

    if kind == "refcount":
        return run_refcount(ctx, ak, P, jit, arr, det)

    interp = _outcome(P, ak, pyf, a1)
    comp = _outcome(P, ak, jit, a2)
    ctx.cover("outcome", "%s/%s" % (interp[0], comp[0]))
    if comp[0] == "error" and comp[1] in ("TypingError", "LoweringError", "UnsupportedError", "NumbaError",
                                          "NumbaNotImplementedError", "InternalError"):
        ctx.cover("not_compilable", "%s:%s" % (prog, comp[1]))
        if interp[0] == "value":
            ctx.violation("compiled-code-refused", dict(det, error="%s: %s" % (comp[1], comp[2]),
                                                        interpreted=model.brief(interp[1], 200)))
        return
    ctx.nontrivial(True)
    if interp[0] != comp[0]:
        ctx.violation("outcome-differs", dict(det, interpreted=_b(interp), compiled=_b(comp)))
        return
    if interp[0] == "error":
        if ERR_EQUIV.get(interp[1], interp[1]) != ERR_EQUIV.get(comp[1], comp[1]):
            ctx.count("exception_class_differs_(not_asserted)")
        ctx.count("errors_agree")
        return
    if not model.same(interp[1], comp[1]):
        ctx.violation("value-differs", dict(det, interpreted=model.brief(interp[1], 300), compiled=model.brief(comp[1], 300)))
        return
    ctx.count("values_agree")
    if prog == "identity" or kind in ("at", "range", "chain"):
        ctx.count("arrays_returned_from_compiled_code")
    ctx.sample({"program": prog, "type": gen.typestr(case["T"]), "result": model.brief(comp[1], 120)}, cap=6)


def _b(o):
    if o[0] == "value":
        return {"value": model.brief(o[1], 200)}
    return {"error": "%s: %s" % (o[1], o[2])}


def run_refcount(ctx, ak, P, jit, arr, det):
    lay = arr.layout
    try:
        jit(arr)                       # compile + first call
    except Exception as e:             # noqa
        ctx.cover("not_compilable", "refcount:" + type(e).__name__)
        return
    gc.collect()
    handle = getattr(lay, "_h", None)         # (a partitioned array is a Python object without a C++ owner of its own)
    uses = (lambda: ctx.lib.L.akb_use_count(handle)) if handle else (lambda: 0)
    use0 = uses()
    r_arr, r_lay = sys.getrefcount(arr), sys.getrefcount(lay)
    for reps in (1, 10, 100):
        for _ in range(reps):
            jit(arr)
        gc.collect()
        now = (sys.getrefcount(arr), sys.getrefcount(lay), uses())
        ctx.count("refcount_comparisons")
        if now != (r_arr, r_lay, use0):
            ctx.violation("reference-counts-drift", dict(det, before=[r_arr, r_lay, use0], after=list(now), calls=reps))
            return
    ctx.nontrivial(True)


def signature(vio):
    det = vio.get("detail") or {}
    return "%s:%s:%s" % (vio["kind"], det.get("program"), (det.get("error") or "")[:50])


def classify(vio):
    from vlib import known
    return known.classify(vio)


if __name__ == "__main__":
    from vlib import runner
    sys.exit(runner.main(sys.modules[__name__]))
