"""C17 - types and forms describe the data truthfully and survive serialisation (lane L).

  type(array) == type(form(array)) == the type the layout model derives from the node classes and parameters
  purelist_depth / minmax_depth / purelist_isregular / numfields / keys / haskey agree between Content, Form and model
  Form -> JSON -> Form (terse and verbose) is the identity (Form::equal and string equality)
  getitem_range keeps the item type; every element taken out has a type consistent with the promised item type
(ak.types.from_datashape lives in the Python layer - lane P.)
"""
from __future__ import print_function

import json
import random
import sys

from vlib import gen, model, ops, check_common as cc
from vlib.bridge import AkError

PROPERTY = "C17"
LEVEL = "exploration"
RULE = ("cases are generated layouts over every node class with parameters holding arbitrary JSON values (nested "
        "objects, unicode, numbers, null), record names, string/bytestring/categorical markers, zero-field records, "
        "tuples, unknown type; non-trivial = the layout has at least two nodes; distinct = SHA-1 of the case descriptor")
VARIANTS = {"quick": ["asan"], "thorough": ["asan"]}
BUDGET = {"quick": dict(cases=80000, seconds=50), "thorough": dict(cases=1000000, seconds=900)}
MIN_NONTRIVIAL = {"quick": 2000, "thorough": 30000}
ASSUMPTIONS = ["vlib/model.py typeof/render transcribe the Form::type and Type::tostring rules (calibrated: equal to the "
               "library on 20000 random layouts of the unchanged tree)"]

RICH = [
    {"a": "{\"b\": [1, 2.5, null, \"\\u00e9\"]}"},
    {"units": "\"GeV/c\"", "n": "-12"},
    {"deep": "{\"x\": {\"y\": {\"z\": [[], {}]}}}"},
    {"\u4e2d": "true", "k": "1e-05"},
    {"__doc__": "\"a \\\"quoted\\\" text\\n\""},
    {"z": "[1, 2]", "a": "[2, 1]"},
]


def gen_case(rng, tier, index):
    cfg = gen.Cfg(tier, categorical=True, zero_fields=True)
    if index % 9 == 8:
        # the type-string parser (new in 1.4.0) covers a subset of what Type::tostring prints: numbers and booleans,
        # lists, options, unions, records with quoted field names, strings, categoricals, and parameters without
        # floating-point numbers or escaped characters (everything else: known finding F118)
        cfg = gen.Cfg(tier, categorical=True, zero_fields=False)
        cfg.dtypes = ["bool"] + gen.INT_DTYPES + gen.FLOAT_DTYPES
        cfg.params = False
        T, vals, d = gen.layout(rng, cfg)
        return {"T": T, "layout": d, "i": 0, "range": [0, 0], "lane": "P"}
    T, vals, d = gen.layout(rng, cfg)
    # sprinkle rich parameters on nodes that carry none
    nodes = [p for p, n in model.walk(d) if not (n.get("params") or {})]
    for path in rng.sample(nodes, min(len(nodes), rng.choice([0, 1, 1, 2]))):
        node = model.get_at(d, path)
        d = model.replace_at(d, path, dict(node, params=dict(rng.choice(RICH))))
    return {"T": T, "layout": d, "i": rng.randint(-3, 8), "range": [rng.randint(-3, 8), rng.randint(-3, 8)]}


def run_parser(ctx, case):
    """printing a type and parsing the string back gives an equal type that prints the same"""
    from vlib import lanep_util
    ak, P = lanep_util.setup(ctx)
    d = case["layout"]
    ctx.cover("lane", "P")
    arr = P.array(d)
    t = ak.type(arr).type
    text = str(t)
    det = {"lane": "P", "type": text[:300]}
    try:
        back = ak.types.from_datashape(text)
    except Exception as e:     # noqa
        ctx.violation("type-string-not-parsed", dict(det, error="%s: %s" % (type(e).__name__, " ".join(str(e).split())[:200])))
        return
    ctx.nontrivial(True)
    if str(back) != text:
        ctx.violation("type-string-round-trip-differs", dict(det, reparsed=str(back)[:300]))
        return
    if not (back == t):
        ctx.violation("parsed-type-not-equal", dict(det, reparsed=str(back)[:300]))
        return
    ctx.count("type_strings_parsed_back")


def run_case(ctx, case):
    if case.get("lane") == "P":
        return run_parser(ctx, case)
    b = ctx.lib
    d = case["layout"]
    h = b.build(d)
    t = model.typeof(d)
    want = model.render(t)
    for c in model.classes(d):
        ctx.cover("input_classes", c)
    ctx.nontrivial(sum(model.classes(d).values()) >= 2)

    got = b.typestr(h)
    f = b.form(h)
    viaform = b.type_tostring(b.form_type(f))
    ctx.count("type_checks")
    if got != want or viaform != got:
        ctx.violation("type-disagreement", {"array.type": got, "form.type": viaform, "model": want})
        return
    # depth / field queries: Content vs Form vs model
    q_content = {"purelist_depth": b.purelist_depth(h), "minmax_depth": list(b.minmax_depth(h)),
                 "purelist_isregular": b.purelist_isregular(h), "numfields": b.numfields(h), "keys": b.keys(h),
                 "branch_depth": list(b.branch_depth(h))}
    q_form = {"purelist_depth": b.form_purelist_depth(f), "minmax_depth": list(b.form_minmax_depth(f)),
              "purelist_isregular": b.form_purelist_isregular(f), "numfields": b.form_numfields(f),
              "keys": b.form_keys(f), "branch_depth": list(b.form_branch_depth(f))}
    q_model = {"purelist_depth": model.purelist_depth(t), "minmax_depth": list(model.minmax_depth(t)),
               "purelist_isregular": model.is_regular(t), "branch_depth": list(model.branch_depth(t))}
    ctx.count("query_checks")
    if q_content != q_form:
        ctx.violation("content-vs-form-queries", {"content": q_content, "form": q_form, "type": want})
        return
    for k, v in q_model.items():
        if q_content[k] != v:
            ctx.violation("queries-vs-model", {"query": k, "library": q_content[k], "model": v, "type": want})
            return
    for key in q_content["keys"][:3]:
        if not b.haskey(h, key) or not b.form_haskey(f, key):
            ctx.violation("haskey", {"key": key})
            return
    # Form -> JSON -> Form
    for verbose in (False, True):
        for pretty in (False, True):
            text = b.form_tojson(f, pretty, verbose)
            try:
                json.loads(text)
            except ValueError as e:
                ctx.violation("form-json-malformed", {"text": text[:300], "error": str(e)})
                return
            f2 = b.form_fromjson(text)
            ctx.count("form_roundtrips")
            if not b.form_equal(f, f2, True, True, True, False):
                ctx.violation("form-roundtrip", {"verbose": verbose, "pretty": pretty, "text": text[:400],
                                                 "again": b.form_tojson(f2, pretty, verbose)[:400]})
                return
            text2 = b.form_tojson(f2, pretty, verbose)
            if json.loads(text2) != json.loads(text):
                ctx.violation("form-roundtrip-text", {"verbose": verbose, "text": text[:400], "again": text2[:400]})
                return
            if not b.type_equal(b.form_type(f2), b.form_type(f), True):
                ctx.violation("form-roundtrip-type", {"before": got, "after": b.type_tostring(b.form_type(f2))})
                return
    # range slices keep the item type
    n = model.length(d)
    a, z = case["range"]
    r = b.getitem_range(h, a, z)
    if b.typestr(r) != got:
        ctx.violation("range-changes-type", {"before": got, "after": b.typestr(r), "range": [a, z]})
        return
    # elements are consistent with the promised item type
    if n > 0:
        i = case["i"] % n
        e = b.getitem_at(h, i)
        ed = b.describe(e)
        why = _consistent(b, e, ed, t)
        ctx.count("element_checks")
        if why:
            ctx.violation("element-type", {"item_type": want, "element": json.dumps(ed)[:300], "why": why})
            return
    ctx.sample({"type": got, "queries": q_content})


def _strip_opt(t):
    return t[1] if t[0] == "option" else t


def _consistent(b, e, ed, t):
    """is the element (handle e, descriptor ed) an instance of item type t?"""
    k = t[0]
    if ed["c"] == "None":
        return None if k == "option" or (k == "union" and any(x[0] == "option" for x in t[1])) else \
            "None taken from a non-option type"
    if k == "option":
        return _consistent(b, e, ed, t[1])
    if k == "union":
        whys = [_consistent(b, e, ed, x) for x in t[1]]
        return None if any(w is None for w in whys) else "matches no arm: " + "; ".join(str(w) for w in whys)[:200]
    if k in ("list", "regular"):
        if ed["c"] in ("Record", "None") or ed.get("scalar"):
            return "scalar taken from a list type"
        inner = model.render(t[1][:-1] + ({},)) if False else model.render(t[1])
        got = b.typestr(e)
        # the element of a string list is a bare char array: its printed type keeps the char marker
        return None if got == inner else "element type %s != promised %s" % (got, inner)
    if k == "record":
        if ed["c"] != "Record":
            return "non-record taken from a record type"
        at = model.typeof(ed["array"])
        # same fields in the same order with the same types (wrapper parameters are not carried by a scalar record)
        same = at[2] == t[2] and [model.render(x) for x in at[1]] == [model.render(x) for x in t[1]]
        return None if same else "record fields differ"
    if k == "prim":
        if not ed.get("scalar"):
            return "array taken from a primitive type"
        return None if ed["dtype"] == t[1] else "dtype %s != %s" % (ed["dtype"], t[1])
    if k == "unknown":
        return "element taken from unknown type"
    return None


def classify(vio):
    from vlib import known
    return known.classify(vio)


def signature(vio):
    import re
    det = vio.get("detail") or {}
    if isinstance(det, dict) and det.get("lane") == "P":
        return "%s:%s" % (vio["kind"], re.sub(r"[0-9]+", "N", (det.get("error") or ""))[:70])
    return vio["kind"]


if __name__ == "__main__":
    from vlib import runner
    sys.exit(runner.main(sys.modules[__name__]))
