#!/venv/bin/python
"""Developer helper (not used by any check): add a status=known entry to known_findings.json from a replay file.

    python3 tools_add_known.py replays/C12-....json "description" [property ...]
"""
import json, sys
sys.path.insert(0, "/verif")
from vlib import known
vio = json.load(open(sys.argv[1]))
mech = known.classify(vio)
if not mech:
    sys.exit("no mechanism for this violation")
kf = json.load(open("/verif/known_findings.json"))
props = sys.argv[3:] or ["*"]
for k in kf["findings"]:
    if k["mechanism"] == mech:
        print("already listed:", mech, k["status"]); sys.exit(0)
case = vio.get("case", {})
kf["findings"].append({"mechanism": mech, "properties": props, "status": "known", "description": sys.argv[2],
                       "witness": {"replay_kind": vio.get("kind"), "ops": [o.get("op") for o in case.get("ops", [])][:3],
                                   "rule": case.get("rule")},
                       "line": "KNOWN-FINDING: property=%s %s: %s" % (",".join(props), mech, sys.argv[2])})
json.dump(kf, open("/verif/known_findings.json", "w"), indent=1)
print("added", mech)
