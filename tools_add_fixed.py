import json,sys
mech,props,commit,desc=sys.argv[1],sys.argv[2].split(","),sys.argv[3],sys.argv[4]
kf=json.load(open("/verif/known_findings.json"))
kf["findings"].append({"mechanism":mech,"properties":props,"status":"fixed","commit":commit,"description":desc,
  "line":"fixed: property=%s %s %s"%(",".join(props),commit,desc)})
json.dump(kf,open("/verif/known_findings.json","w"),indent=1)
