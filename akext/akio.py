"""fromjson / fromjsonfile / uproot_issue_90 (src/python/io.cpp), startup and kernel_lib."""
from __future__ import absolute_import

from akext import _lib
from akext import content as _content
from akext import index as _index
from akext import forms as _forms
from akext._util import arg_int64, arg_double, arg_string, arg_optstring, _badarg


def fromjson(source, nan_string=None, infinity_string=None, minus_infinity_string=None, initial=1024, resize=1.5,
             buffersize=65536):
    source = arg_string(source, "fromjson")
    ns, is_, ms = (arg_optstring(nan_string, "fromjson"), arg_optstring(infinity_string, "fromjson"),
                   arg_optstring(minus_infinity_string, "fromjson"))
    initial, resize = arg_int64(initial, "fromjson"), arg_double(resize, "fromjson")
    arg_int64(buffersize, "fromjson")
    return _content._boxc(_lib.L.akp_fromjson(source, len(source), ns, is_, ms, initial, resize))


def fromjsonfile(source, nan_string=None, infinity_string=None, minus_infinity_string=None, initial=1024, resize=1.5,
                 buffersize=65536):
    source = arg_string(source, "fromjsonfile")
    ns, is_, ms = (arg_optstring(nan_string, "fromjsonfile"), arg_optstring(infinity_string, "fromjsonfile"),
                   arg_optstring(minus_infinity_string, "fromjsonfile"))
    initial, resize = arg_int64(initial, "fromjsonfile"), arg_double(resize, "fromjsonfile")
    buffersize = arg_int64(buffersize, "fromjsonfile")
    return _content._boxc(_lib.L.akp_fromjsonfile(source, ns, is_, ms, initial, resize, buffersize))


def uproot_issue_90(form, data, byte_offsets):
    if not isinstance(form, _forms.Form):
        raise _badarg("uproot_issue_90", form, "awkward._ext.Form")
    if not isinstance(data, _content.NumpyArray):
        raise _badarg("uproot_issue_90", data, "awkward._ext.NumpyArray")
    bo = _index.arg(byte_offsets, _index.Index32, "uproot_issue_90")
    return _content._sharec(_lib.L.akp_uproot_issue_90(form._h, data._h, bo))


def startup():
    """make_startup: registers a library-path callback for the CUDA kernels library.  The callback would
    import awkward_cuda_kernels; there is no CUDA here, so registering nothing is equivalent."""
    return None


class kernel_lib(object):
    """py::enum_<ak::kernel::lib> with export_values()"""
    __slots__ = ("_value", "_name")
    __members__ = {}

    def __init__(self, value):
        value = arg_int64(value, "kernel_lib")
        for m in kernel_lib.__members__.values():
            if m._value == value:
                self._value, self._name = m._value, m._name
                return
        raise ValueError("%d is not a valid awkward._ext.kernel_lib" % value)

    name = property(lambda self: self._name)
    value = property(lambda self: self._value)

    def __repr__(self):
        return "<kernel_lib.%s: %d>" % (self._name, self._value)

    def __str__(self):
        return "kernel_lib.%s" % self._name

    def __int__(self):
        return self._value

    def __index__(self):
        return self._value

    def __eq__(self, other):
        if isinstance(other, kernel_lib):
            return self._value == other._value
        return False

    def __ne__(self, other):
        return not self.__eq__(other)

    def __hash__(self):
        return hash(self._value)

    def __getstate__(self):
        return self._value

    def __setstate__(self, state):
        self.__init__(state)


def _member(name, value):
    m = object.__new__(kernel_lib)
    m._value, m._name = value, name
    kernel_lib.__members__[name] = m
    setattr(kernel_lib, name, m)
    return m


kernel_lib.__module__ = "awkward._ext"
cpu = _member("cpu", 0)
cuda = _member("cuda", 1)
