"""LayoutBuilder (src/python/content.cpp make_LayoutBuilder)."""
from __future__ import absolute_import

from akext import _lib
from akext import content as _content
from akext import forms as _forms
from akext._util import arg_int64, arg_bool, arg_double, arg_complex, cast_string, typestrs_arg, _badarg, no_pickle


@no_pickle
class LayoutBuilder(object):
    __slots__ = ("_h", "__weakref__")

    def __init__(self, form, initial=8, resize=1.5, vm_init=True):
        w = "LayoutBuilder"
        fh = _forms.form_arg(form, w)
        initial, resize, vm_init = arg_int64(initial, w), arg_double(resize, w), arg_bool(vm_init, w)
        self._h = _lib.ptr(_lib.L.akp_lb_new(fh, initial, resize, int(vm_init)))

    def __del__(self):
        h = getattr(self, "_h", None)
        if h and _lib.L is not None:
            self._h = None
            _lib.L.akp_lb_free(h)

    @property
    def _ptr(self):
        return _lib.L.akp_lb_raw(self._h)

    def __repr__(self):
        return _lib.string(_lib.L.akp_lb_tostring(self._h))

    def __len__(self):
        return _lib.okint(_lib.L.akp_lb_length, self._h)

    def type(self, typestrs):
        from akext import aktypes as types
        ks, vs = typestrs_arg(typestrs, "type")
        return types.share(_lib.ptr(_lib.L.akp_lb_type(self._h, _lib.cstrs(ks), _lib.cstrs(vs), len(ks))))

    def snapshot(self):
        return _content._boxc(_lib.L.akp_lb_snapshot(self._h))

    def __getitem__(self, obj):
        L = _lib.L
        return _content._getitem(self, obj, L.akp_lb_getitem_at, L.akp_lb_getitem_range, L.akp_lb_getitem_field,
                                 L.akp_lb_getitem_fields, L.akp_lb_getitem)

    def __iter__(self):
        snap = _lib.ptr(_lib.L.akp_lb_snapshot(self._h))
        try:
            return _content.Iterator._from(snap, False)
        finally:
            _content._free(snap)

    def null(self):
        _lib.rc(_lib.L.akp_lb_null(self._h))

    def boolean(self, x):
        _lib.rc(_lib.L.akp_lb_boolean(self._h, int(arg_bool(x, "boolean"))))

    def int64(self, x):
        _lib.rc(_lib.L.akp_lb_int64(self._h, arg_int64(x, "int64")))

    def float64(self, x):
        _lib.rc(_lib.L.akp_lb_float64(self._h, arg_double(x, "float64")))

    def complex(self, x):
        z = arg_complex(x, "complex")
        _lib.rc(_lib.L.akp_lb_complex(self._h, z.real, z.imag))

    def bytestring(self, x):
        if not isinstance(x, bytes):
            raise _badarg("bytestring", x, "bytes")
        _lib.rc(_lib.L.akp_lb_bytestring(self._h, x, len(x)))

    def string(self, x):
        if not isinstance(x, str):
            raise _badarg("string", x, "str")
        raw = cast_string(x)
        _lib.rc(_lib.L.akp_lb_string(self._h, raw, len(raw)))

    def begin_list(self):
        _lib.rc(_lib.L.akp_lb_begin_list(self._h))

    def end_list(self):
        _lib.rc(_lib.L.akp_lb_end_list(self._h))

    def tag(self, tag):
        _lib.rc(_lib.L.akp_lb_tag(self._h, arg_int64(tag, "tag")))

    def debug_step(self):
        _lib.rc(_lib.L.akp_lb_debug_step(self._h))

    def vm_source(self):
        return _lib.string(_lib.L.akp_lb_vm_source(self._h))

    def connect(self, vm):
        from akext import forth
        if not isinstance(vm, forth.ForthMachine32):
            raise _badarg("connect", vm, "awkward._ext.ForthMachine32")
        _lib.rc(_lib.L.akp_lb_connect(self._h, _lib.L.akp_forth_sharedptr32(vm._h)))

    def form(self):
        return _forms.share(_lib.ptr(_lib.L.akp_lb_form(self._h)))


LayoutBuilder.__module__ = "awkward._ext"
