"""VirtualArray support, ArrayGenerator, SliceGenerator, ArrayCache (src/python/virtual.cpp) -- placeholder."""
from __future__ import absolute_import

_MSG = ("akext: %s needs the virtual-array section of the bridge (generator/cache callbacks), "
        "which is not wired yet")


def caches_of_content(h):
    from akext import _lib
    n = _lib.L.akp_caches_count(h)
    if n < 0:
        _lib.raise_error()
    if n == 0:
        return []
    raise NotImplementedError(_MSG % "caches")


def virtualarray_new(generator, cache, cache_key, identities, parameters):
    raise NotImplementedError(_MSG % "VirtualArray")


class ArrayGenerator(object):
    def __init__(self, *args, **kwargs):
        raise NotImplementedError(_MSG % "ArrayGenerator")


class SliceGenerator(object):
    def __init__(self, *args, **kwargs):
        raise NotImplementedError(_MSG % "SliceGenerator")


class ArrayCache(object):
    def __init__(self, *args, **kwargs):
        raise NotImplementedError(_MSG % "ArrayCache")
