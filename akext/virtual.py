"""ArrayGenerator, SliceGenerator, ArrayCache and the VirtualArray helpers (src/python/virtual.cpp).

The C++ halves (PyArrayGenerator / PyArrayCache in bridge/akbridge_p_virtual.cpp) hold one reference to a Python
"state" object and call back into this module for everything the binding does with py::object members.
"""
from __future__ import absolute_import

import ctypes
import importlib
import weakref
from ctypes import c_void_p, c_char_p, c_int, c_int64, POINTER, byref

from akext import _lib
from akext import content as _content
from akext import forms as _forms
from akext import identities as _identities
from akext._util import (FILENAME, CastError, arg_int64, arg_string, cast_int64, cast_string, dict2parameters,
                         _badarg, no_pickle)


def _fn(line):
    return FILENAME("virtual.cpp", line)


def _obj(address):
    return ctypes.cast(address, ctypes.py_object).value


class _GenState(object):
    """callable_, args_, kwargs_ of PyArrayGenerator"""
    __slots__ = ("callable", "args", "kwargs")

    def __init__(self, callable, args, kwargs):
        self.callable, self.args, self.kwargs = callable, args, kwargs


class _CacheState(object):
    """mutablemapping_ of PyArrayCache: None or a weak reference"""
    __slots__ = ("ref",)

    def __init__(self, mutablemapping):
        if mutablemapping is None:
            self.ref = None
        else:
            self.ref = weakref.ref(mutablemapping)

    def is_broken(self):
        if self.ref is None:
            return False
        return self.ref() is None

    def mutablemapping(self):
        if self.ref is None:
            return None
        out = self.ref()
        if out is None:
            raise RuntimeError("PyArrayCache has lost its weak reference to mapping" + _fn(375))
        return out


# ---------------------------------------------------------------- callbacks

def _decode(key, n):
    return ctypes.string_at(key, n).decode("utf-8", "surrogateescape")


@ctypes.CFUNCTYPE(c_void_p, c_void_p)
def _cb_generate(state):
    try:
        st = _obj(state)
        out = st.callable(*st.args, **st.kwargs)
        layout = importlib.import_module("awkward").to_layout(out, False, False)
        h = _content.unbox_content(layout)
        return _lib.ptr(_lib.L.akp_shallow_copy(h))
    except BaseException as err:
        _lib.set_pending(err)
        return None


@ctypes.CFUNCTYPE(c_int, c_void_p, c_int)
def _cb_gen_repr(state, which):
    try:
        st = _obj(state)
        if which == 0:
            text, nonempty = cast_string(st.callable.__repr__()), 1
        elif which == 1:
            nonempty = 1 if len(st.args) != 0 else 0
            text = cast_string(st.args.__repr__()) if nonempty else b""
        else:
            nonempty = 1 if len(st.kwargs) != 0 else 0
            text = cast_string(st.kwargs.__repr__()) if nonempty else b""
        _lib.L.akp_cb_set_str(text, len(text))
        return nonempty
    except BaseException as err:
        _lib.set_pending(err)
        return -1


@ctypes.CFUNCTYPE(c_int, c_void_p)
def _cb_gen_caches(state):
    try:
        st = _obj(state)
        for arg in st.args:
            if isinstance(arg, ArrayCache):
                _lib.L.akp_cb_push_cache(arg._h)
        return 0
    except BaseException as err:
        _lib.set_pending(err)
        return -1


@ctypes.CFUNCTYPE(c_int, c_void_p, c_void_p)
def _cb_gen_equal(a, b):
    try:
        x, y = _obj(a), _obj(b)
        return 1 if (x.callable is y.callable and x.args is y.args and x.kwargs is y.kwargs) else 0
    except BaseException as err:
        _lib.set_pending(err)
        return -1


@ctypes.CFUNCTYPE(c_void_p, c_void_p, c_void_p, c_int64, POINTER(c_int))
def _cb_cache_get(state, key, n, status):
    try:
        st = _obj(state)
        pykey = _decode(key, n)
        mapping = st.mutablemapping()
        try:
            out = mapping.__getitem__(pykey)
        except Exception:
            status[0] = 0
            return None
        h = _content.unbox_content(out)
        p = _lib.ptr(_lib.L.akp_shallow_copy(h))
        status[0] = 1
        return p
    except BaseException as err:
        _lib.set_pending(err)
        status[0] = -1
        return None


@ctypes.CFUNCTYPE(c_int, c_void_p, c_void_p, c_int64, c_void_p)
def _cb_cache_set(state, key, n, boxed):
    try:
        try:
            st = _obj(state)
            pykey = _decode(key, n)
            mapping = st.mutablemapping()
        except BaseException:
            _content._free(boxed)
            raise
        if mapping is not None:
            mapping.__setitem__(pykey, _content._box(boxed))
        else:
            _content._free(boxed)
        return 0
    except BaseException as err:
        _lib.set_pending(err)
        return -1


@ctypes.CFUNCTYPE(c_int, c_void_p)
def _cb_cache_broken(state):
    try:
        return 1 if _obj(state).is_broken() else 0
    except BaseException as err:
        _lib.set_pending(err)
        return -1


@ctypes.CFUNCTYPE(c_int, c_void_p)
def _cb_cache_repr(state):
    try:
        text = cast_string(_obj(state).mutablemapping().__repr__())
        _lib.L.akp_cb_set_str(text, len(text))
        return 0
    except BaseException as err:
        _lib.set_pending(err)
        return -1


_CALLBACKS = (_cb_generate, _cb_gen_repr, _cb_gen_caches, _cb_gen_equal, _cb_cache_get, _cb_cache_set,
              _cb_cache_broken, _cb_cache_repr)
_installed = [False]


def _install():
    if not _installed[0]:
        _lib.L.akp_virtual_set_callbacks(*[ctypes.cast(f, c_void_p).value for f in _CALLBACKS])
        _installed[0] = True


# ---------------------------------------------------------------- instance registries (pybind11 returns the existing
# Python wrapper when a std::shared_ptr to an already wrapped C++ object is cast)

_cache_instances = weakref.WeakValueDictionary()
_gen_instances = weakref.WeakValueDictionary()


def _wrap_cache(h):
    """cast of std::shared_ptr<PyArrayCache>; takes ownership of the handle"""
    raw = _lib.L.akp_cache_raw(h)
    existing = _cache_instances.get(raw)
    if existing is not None:
        _lib.L.akp_cache_free(h)
        return existing
    self = object.__new__(ArrayCache)
    self._h = h
    _cache_instances[raw] = self
    return self


def _wrap_gen(h):
    raw = _lib.L.akp_gen_raw(h)
    existing = _gen_instances.get(raw)
    if existing is not None:
        _lib.L.akp_gen_free(h)
        return existing
    cid = _lib.L.akp_gen_classid(h)
    if cid == 1:
        cls = ArrayGenerator
    elif cid == 2:
        cls = SliceGenerator
    else:
        _lib.L.akp_gen_free(h)
        raise ValueError("VirtualArray's generator is not a Python function" + FILENAME("content.cpp", 2955))
    self = object.__new__(cls)
    self._h = h
    _gen_instances[raw] = self
    return self


def _caches_from_ptrs():
    out = []
    for p in _lib.ptrs():
        if not _lib.L.akp_cache_state(p):
            _lib.L.akp_cache_free(p)
            raise RuntimeError("VirtualArray's cache is not a PyArrayCache" + FILENAME("content.cpp", 1340))
        out.append(_wrap_cache(p))
    return out


def caches_of_content(h):
    _install()
    _lib.rc(_lib.L.akp_caches(h))
    return _caches_from_ptrs()


def _form_arg(form, who, line):
    """form.cast<ak::Form*>()->shallow_copy(): (handle or None); the bridge makes the copy"""
    if form is None:
        return None
    if isinstance(form, _forms.Form):
        return form._h
    raise ValueError(who + " 'form' must be an ak.forms.Form or None" + _fn(line))


def _length_arg(length, who, line):
    if length is None:
        return -1
    try:
        return cast_int64(length)
    except CastError:
        raise ValueError(who + " 'length' must be an int or None" + _fn(line))


@no_pickle
class _GeneratorBase(object):
    __slots__ = ("_h", "__weakref__")

    def __del__(self):
        h = getattr(self, "_h", None)
        if h and _lib.L is not None:
            self._h = None
            _lib.L.akp_gen_free(h)

    @property
    def form(self):
        return _forms.share(_lib.nullable(_lib.L.akp_gen_form, self._h))

    @property
    def length(self):
        length = _lib.L.akp_gen_length(self._h)
        if length < 0:
            return None
        return length

    @property
    def caches(self):
        _lib.rc(_lib.L.akp_gen_caches(self._h))
        return _caches_from_ptrs()

    def __call__(self):
        return _content._boxc(_lib.L.akp_gen_generate_and_check(self._h))

    def __repr__(self):
        return _lib.string(_lib.L.akp_gen_tostring(self._h))

    def with_form(self, form):
        fh = _forms.form_arg(form, "with_form")
        return _wrap_gen(_lib.ptr(_lib.L.akp_gen_with_form(self._h, fh)))

    def with_length(self, length):
        return _wrap_gen(_lib.ptr(_lib.L.akp_gen_with_length(self._h, arg_int64(length, "with_length"))))


_DEFAULT_ARGS = ()          # py::arg("args") = py::tuple(0): one object shared by all calls
_DEFAULT_KWARGS = {}        # py::arg("kwargs") = py::dict(): likewise


class ArrayGenerator(_GeneratorBase):
    __slots__ = ()

    def __init__(self, callable, args=_DEFAULT_ARGS, kwargs=_DEFAULT_KWARGS, form=None, length=None):
        _install()
        if not isinstance(args, tuple):
            raise _badarg("ArrayGenerator", args, "tuple")
        if not isinstance(kwargs, dict):
            raise _badarg("ArrayGenerator", kwargs, "dict")
        fh = _form_arg(form, "ArrayGenerator", 224)
        cpplength = _length_arg(length, "ArrayGenerator", 234)
        state = _GenState(callable, args, kwargs)
        self._h = _lib.ptr(_lib.L.akp_pygen_new(fh, cpplength, id(state)))
        _gen_instances[_lib.L.akp_gen_raw(self._h)] = self

    def _state(self):
        return _obj(_lib.L.akp_gen_state(self._h))

    callable = property(lambda self: self._state().callable)
    args = property(lambda self: self._state().args)
    kwargs = property(lambda self: self._state().kwargs)

    def _with_state(self, state):
        return _wrap_gen(_lib.ptr(_lib.L.akp_pygen_with_state(self._h, id(state))))

    def with_callable(self, callable):
        st = self._state()
        return self._with_state(_GenState(callable, st.args, st.kwargs))

    def with_args(self, args):
        if not isinstance(args, tuple):
            raise _badarg("with_args", args, "tuple")
        st = self._state()
        return self._with_state(_GenState(st.callable, args, st.kwargs))

    def with_kwargs(self, kwargs):
        if not isinstance(kwargs, dict):
            raise _badarg("with_kwargs", kwargs, "dict")
        st = self._state()
        return self._with_state(_GenState(st.callable, st.args, kwargs))


class SliceGenerator(_GeneratorBase):
    __slots__ = ()

    def __init__(self, content, slice, form=None, length=None):
        _install()
        fh = _form_arg(form, "SliceGenerator", 309)
        cpplength = _length_arg(length, "SliceGenerator", 319)
        cppslice = _content.toslice(slice)
        ch = _content.unbox_content(content)
        self._h = _lib.ptr(_lib.L.akp_slicegen_new(fh, cpplength, ch, cppslice.h))
        _gen_instances[_lib.L.akp_gen_raw(self._h)] = self

    @property
    def content(self):
        return _content._sharec(_lib.L.akp_slicegen_content(self._h))


@no_pickle
class ArrayCache(object):
    __slots__ = ("_h", "__weakref__")

    def __init__(self, mutablemapping):
        _install()
        state = _CacheState(mutablemapping)
        self._h = _lib.ptr(_lib.L.akp_cache_new(id(state)))
        _cache_instances[_lib.L.akp_cache_raw(self._h)] = self

    def __del__(self):
        h = getattr(self, "_h", None)
        if h and _lib.L is not None:
            self._h = None
            _lib.L.akp_cache_free(h)

    def _state(self):
        return _obj(_lib.L.akp_cache_state(self._h))

    @property
    def is_broken(self):
        return self._state().is_broken()

    @property
    def mutablemapping(self):
        return self._state().mutablemapping()

    def __repr__(self):
        return _lib.string(_lib.L.akp_cache_tostring(self._h))

    def __getitem__(self, key):
        key = arg_string(key, "__getitem__")
        ok = c_int(0)
        p = _lib.L.akp_cache_get(self._h, key, len(key), byref(ok))
        if not ok.value:
            _lib.raise_error()
        return _content._box(p)

    def __setitem__(self, key, value):
        key = arg_string(key, "__setitem__")
        _lib.rc(_lib.L.akp_cache_set(self._h, key, len(key), _content.unbox_content(value)))

    def __delitem__(self, key):
        key = arg_string(key, "__delitem__")
        self.mutablemapping.__delitem__(key.decode("utf-8", "surrogateescape"))

    def __iter__(self):
        return self.mutablemapping.__iter__()

    def __len__(self):
        return self.mutablemapping.__len__()


for _c in (ArrayGenerator, SliceGenerator, ArrayCache):
    _c.__module__ = "awkward._ext"


# ---------------------------------------------------------------- VirtualArray helpers (content.VirtualArray)

def virtualarray_new(generator, cache, cache_key, identities, parameters):
    _install()
    if isinstance(generator, (ArrayGenerator, SliceGenerator)):
        gh = generator._h
    else:
        raise ValueError("VirtualArray 'generator' must be an ArrayGenerator or a SliceGenerator"
                         + FILENAME("content.cpp", 2899))
    ch = None
    if cache is not None:
        if isinstance(cache, ArrayCache):
            ch = cache._h
        else:
            raise ValueError("VirtualArray 'cache' must be an ArrayCache or None" + FILENAME("content.cpp", 2910))
    ids = None
    ks, vs = None, None
    if cache_key is not None:
        try:
            cppcache_key = cast_string(cache_key)
        except CastError:
            raise ValueError("VirtualArray 'cache_key' must be a string or None" + FILENAME("content.cpp", 2921))
    else:
        cppcache_key = None
    ids = _identities.unbox_none(identities)
    ks, vs = dict2parameters(parameters)
    return _lib.ptr(_lib.L.akp_virtual_new(ids, _lib.cstrs(ks), _lib.cstrs(vs), len(ks), gh, ch, cppcache_key,
                                           0 if cppcache_key is None else len(cppcache_key)))


def virtualarray_generator(h):
    _install()
    return _wrap_gen(_lib.ptr(_lib.L.akp_virtual_generator(h)))


def virtualarray_cache(h):
    _install()
    p = _lib.nullable(_lib.L.akp_virtual_cache, h)
    if not p:
        return None
    if not _lib.L.akp_cache_state(p):
        _lib.L.akp_cache_free(p)
        raise RuntimeError("VirtualArray's cache is not a PyArrayCache" + FILENAME("content.cpp", 2971))
    return _wrap_cache(p)


def virtualarray_peek_array(h):
    _install()
    return _lib.nullable(_lib.L.akp_virtual_peek_array, h)


def virtualarray_array(h):
    _install()
    return _lib.ptr(_lib.L.akp_virtual_array(h))


def virtualarray_cache_key(h):
    return _lib.string(_lib.L.akp_virtual_cache_key(h))


def virtualarray_ptr_lib(h):
    return _lib.rc(_lib.L.akp_virtual_ptr_lib(h))
