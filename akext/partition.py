"""PartitionedArray / IrregularlyPartitionedArray (src/python/partition.cpp)."""
from __future__ import absolute_import

from ctypes import c_int64, byref

from akext import _lib
from akext import content as _content
from akext._util import FILENAME, arg_int64, arg_bool, arg_string, cast_int64, _badarg, no_pickle


def _fn(line):
    return FILENAME("partition.cpp", line)


def _wrap(h):
    """cast of a std::shared_ptr<PartitionedArray>"""
    if not h:
        return None
    cls = IrregularlyPartitionedArray if _lib.L.akp_part_classid(h) == 1 else PartitionedArray
    self = object.__new__(cls)
    self._h = h
    return self


def _content_vector(obj, what):
    if isinstance(obj, (str, bytes, dict)) or not hasattr(obj, "__len__") or not hasattr(obj, "__getitem__"):
        raise _badarg(what, obj, "List[awkward._ext.Content]")
    keep = list(obj)
    for x in keep:
        if x is not None and not isinstance(x, _content.Content):
            raise _badarg(what, x, "awkward._ext.Content")
    return keep


def _int_vector(obj, what):
    if isinstance(obj, (str, bytes, dict)) or not hasattr(obj, "__len__") or not hasattr(obj, "__getitem__"):
        raise _badarg(what, obj, "List[int]")
    return [arg_int64(x, what) for x in obj]


@no_pickle
class PartitionedArray(object):
    __slots__ = ("_h", "__weakref__")

    def __init__(self, *args, **kwargs):
        raise TypeError("awkward._ext.PartitionedArray: No constructor defined!")

    def __del__(self):
        h = getattr(self, "_h", None)
        if h and _lib.L is not None:
            self._h = None
            _lib.L.akp_part_free(h)


PartitionedArray.__module__ = "awkward._ext"


class IrregularlyPartitionedArray(PartitionedArray):
    __slots__ = ()

    def __init__(self, partitions, stops=None):
        w = "IrregularlyPartitionedArray"
        keep = _content_vector(partitions, w)
        if any(x is None for x in keep):
            # a null std::shared_ptr in the vector: the binding would dereference it
            raise _badarg(w, None, "awkward._ext.Content")
        handles = [x._h for x in keep]
        if stops is not None:
            st = _int_vector(stops, w)
            self._h = _lib.ptr(_lib.L.akp_part_new(_lib.cptrs(handles), len(handles), _lib.ci64s(st), len(st), 1))
        else:
            self._h = _lib.ptr(_lib.L.akp_part_new(_lib.cptrs(handles), len(handles), None, 0, 0))

    def __repr__(self):
        return _lib.string(_lib.L.akp_part_tostring(self._h))

    def __len__(self):
        return _lib.okint(_lib.L.akp_part_length, self._h)

    @property
    def partitions(self):
        _lib.rc(_lib.L.akp_part_partitions(self._h))
        return [_content._box(p) for p in _lib.ptrs()]

    @property
    def numpartitions(self):
        return _lib.okint(_lib.L.akp_part_numpartitions, self._h)

    def partition(self, partitionid):
        return _content._sharec(_lib.L.akp_part_partition(self._h, arg_int64(partitionid, "partition")))

    def start(self, partitionid):
        return _lib.okint(_lib.L.akp_part_start, self._h, arg_int64(partitionid, "start"))

    def stop(self, partitionid):
        return _lib.okint(_lib.L.akp_part_stop, self._h, arg_int64(partitionid, "stop"))

    def partitionid_index_at(self, at):
        a, b = c_int64(), c_int64()
        _lib.rc(_lib.L.akp_part_partitionid_index_at(self._h, arg_int64(at, "partitionid_index_at"), byref(a), byref(b)))
        return (a.value, b.value)

    def repartition(self, stops):
        st = _int_vector(stops, "repartition")
        return _wrap(_lib.ptr(_lib.L.akp_part_repartition(self._h, _lib.ci64s(st), len(st))))

    def tojson(self, *args, **kwargs):
        names1 = ["pretty", "maxdecimals"]
        names2 = ["destination", "pretty", "maxdecimals", "buffersize"]
        defaults = {"pretty": False, "maxdecimals": None, "buffersize": 65536}

        def bind(names):
            if len(args) > len(names):
                return None
            bound = dict((n, defaults[n]) for n in names if n in defaults)
            for n, a in zip(names, args):
                bound[n] = a
            for k, v in kwargs.items():
                if k not in names or k in names[:len(args)]:
                    return None
                bound[k] = v
            for n in names:
                if n not in bound:
                    return None
            return bound

        b = bind(names1)
        if b is not None:
            try:
                pretty = arg_bool(b["pretty"], "tojson")
            except TypeError:
                pass
            else:
                return _lib.string(_lib.L.akp_part_tojson(self._h, int(pretty),
                                                          _content.check_maxdecimals(b["maxdecimals"])))
        b = bind(names2)
        if b is not None:
            destination = arg_string(b["destination"], "tojson")
            pretty = arg_bool(b["pretty"], "tojson")
            buffersize = arg_int64(b["buffersize"], "tojson")
            _lib.rc(_lib.L.akp_part_tojson_file(self._h, destination, int(pretty),
                                                _content.check_maxdecimals(b["maxdecimals"]), buffersize))
            return None
        raise TypeError("tojson(): incompatible function arguments")

    def getitem_at(self, at):
        return _content._boxc(_lib.L.akp_part_getitem_at(self._h, arg_int64(at, "getitem_at")))

    def getitem_range(self, start, stop, step):
        none = _lib.L.akp_slice_none()
        intstart = intstop = intstep = none
        if start is not None:
            intstart = cast_int64(start)
        if stop is not None:
            intstop = cast_int64(stop)
        if step is not None:
            intstep = cast_int64(step)
        return _wrap(_lib.ptr(_lib.L.akp_part_getitem_range(self._h, intstart, intstop, intstep)))

    def copy_to(self, ptr_lib):
        ptr_lib = arg_string(ptr_lib, "copy_to").decode("utf-8")
        if ptr_lib == "cpu":
            return _wrap(_lib.ptr(_lib.L.akp_part_copy_to(self._h, 0)))
        elif ptr_lib == "cuda":
            return _wrap(_lib.ptr(_lib.L.akp_part_copy_to(self._h, 1)))
        else:
            raise ValueError("specify 'cpu' or 'cuda'" + _fn(136))

    @property
    def stops(self):
        _lib.rc(_lib.L.akp_part_stops(self._h))
        return _lib.ints()


IrregularlyPartitionedArray.__module__ = "awkward._ext"
