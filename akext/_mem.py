"""Zero-copy NumPy views of C++ buffers.

The binding exports Index, Identities and NumpyArray through the buffer protocol; the exported memory is
kept alive by the exporting Python object.  Here the same is done with an `__array_interface__` holder
whose `owner` is the stand-in object (which owns the bridge handle).
"""
from __future__ import absolute_import

import numpy

try:
    from numpy._core._internal import _dtype_from_pep3118
except ImportError:                                       # NumPy 1.x
    from numpy.core._internal import _dtype_from_pep3118


class _Mem(object):
    __slots__ = ("__array_interface__", "owner")

    def __init__(self, ptr, nbytes, owner):
        self.__array_interface__ = {"shape": (nbytes,), "typestr": "|u1", "data": (ptr, False), "version": 3}
        self.owner = owner


def view(owner, data, shape, strides, dtype):
    """ndarray of `dtype` over the memory at address `data` (element 0) with byte `strides`"""
    dtype = numpy.dtype(dtype)
    itemsize = dtype.itemsize
    lo, hi, empty = 0, itemsize, False
    for n, s in zip(shape, strides):
        if n == 0:
            empty = True
        else:
            span = (n - 1) * s
            if span < 0:
                lo += span
            else:
                hi += span
    if empty or not data:
        base = numpy.empty(0, dtype=numpy.uint8)
        return numpy.ndarray(tuple(shape), dtype, buffer=base, offset=0, strides=tuple(strides))
    base = numpy.asarray(_Mem(data + lo, hi - lo, owner))
    return numpy.ndarray(tuple(shape), dtype, buffer=base, offset=-lo, strides=tuple(strides))


def dtype_from_format(fmt):
    """the dtype NumPy assigns to a PEP 3118 format string when it imports a buffer"""
    return _dtype_from_pep3118(fmt)
