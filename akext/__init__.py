"""akext: a Python stand-in for the pybind11 extension module `awkward._ext` of awkward-1.0 (1.4.0),
implemented over the C ABI bridge (libakbridge.so).  See README.md.

The module object served as `awkward._ext` is built by `make_module()`; vlib/lanep.py installs it.
"""
from __future__ import absolute_import

import types as _pytypes

__version__ = "1.4.0"

NAMES = [
    # startup.h / kernel_utils.h
    "startup", "kernel_lib", "cpu", "cuda",
    # index.h / identities.h
    "Index8", "IndexU8", "Index32", "IndexU32", "Index64", "Identities32", "Identities64",
    # content.h
    "Iterator", "ArrayBuilder", "LayoutBuilder", "_PersistentSharedPtr", "Content", "EmptyArray",
    "IndexedArray32", "IndexedArrayU32", "IndexedArray64", "IndexedOptionArray32", "IndexedOptionArray64",
    "ByteMaskedArray", "BitMaskedArray", "UnmaskedArray", "ListArray32", "ListArrayU32", "ListArray64",
    "ListOffsetArray32", "ListOffsetArrayU32", "ListOffsetArray64", "NumpyArray", "Record", "RecordArray",
    "RegularArray", "UnionArray8_32", "UnionArray8_U32", "UnionArray8_64", "VirtualArray", "_slice_tostring",
    # types.h
    "Type", "ArrayType", "PrimitiveType", "RegularType", "UnknownType", "ListType", "OptionType", "UnionType",
    "RecordType",
    # forms.h
    "Form", "BitMaskedForm", "ByteMaskedForm", "EmptyForm", "IndexedForm", "IndexedOptionForm", "ListForm",
    "ListOffsetForm", "NumpyForm", "RecordForm", "RegularForm", "UnionForm", "UnmaskedForm", "VirtualForm",
    # virtual.h
    "ArrayGenerator", "SliceGenerator", "ArrayCache",
    # partition.h
    "PartitionedArray", "IrregularlyPartitionedArray",
    # io.h
    "fromjson", "fromjsonfile", "uproot_issue_90",
    # forth.h
    "ForthMachine32", "ForthMachine64",
]


def make_module(name="awkward._ext"):
    """build the module object that stands in for the compiled extension"""
    from akext import index, identities, content, forms, partition, layoutbuilder, virtual, forth
    from akext import aktypes as types, akio as io
    m = _pytypes.ModuleType(name, "akext stand-in for the pybind11 module awkward._ext (awkward-1.0 %s)" % __version__)
    m.__version__ = __version__
    sources = [io, index, identities, content, layoutbuilder, types, forms, virtual, partition, forth]
    for n in NAMES:
        for src in sources:
            if hasattr(src, n):
                setattr(m, n, getattr(src, n))
                break
        else:
            raise ImportError("akext: no implementation for awkward._ext.%s" % n)
    m.__akext__ = True
    return m
