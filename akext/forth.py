"""ForthMachine32 / ForthMachine64 (src/python/forth.cpp)."""
from __future__ import absolute_import

import numpy

from akext import _lib
from akext import content as _content
from akext import index as _index
from akext._util import (FILENAME, arg_int64, arg_bool, arg_double, arg_string, cast_string, _badarg, _load_int,
                         no_pickle)


def _fn(line):
    return FILENAME("forth.cpp", line)


_ERRNAMES = ["none", "not ready", "is done", "user halt", "recursion depth exceeded", "stack underflow",
             "stack overflow", "read beyond", "seek beyond", "skip beyond", "rewind beyond", "division by zero",
             "varint too big"]
# ForthError enumerators in the order of the raise_* keyword arguments
_RAISE_FLAGS = [("raise_user_halt", 3), ("raise_recursion_depth_exceeded", 4), ("raise_stack_underflow", 5),
                ("raise_stack_overflow", 6), ("raise_read_beyond", 7), ("raise_seek_beyond", 8),
                ("raise_skip_beyond", 9), ("raise_rewind_beyond", 10), ("raise_division_by_zero", 11),
                ("raise_varint_too_big", 12)]


_DEFAULT_INPUTS = {}       # py::arg("inputs") = py::dict()


@no_pickle
class _ForthMachine(object):
    __slots__ = ("_h", "__weakref__")
    _is64 = None
    _bits = None

    def __init__(self, source, stack_size=1024, recursion_depth=1024, output_initial_size=1024,
                 output_resize_factor=1.5):
        w = type(self).__name__
        source = arg_string(source, w)
        self._h = _lib.ptr(_lib.L.akp_forth_new(self._is64, source, len(source), arg_int64(stack_size, w),
                                                arg_int64(recursion_depth, w), arg_int64(output_initial_size, w),
                                                arg_double(output_resize_factor, w)))

    def __del__(self):
        h = getattr(self, "_h", None)
        if h and _lib.L is not None:
            self._h = None
            _lib.L.akp_forth_free(h)

    def _num(self, which):
        return _lib.okint(_lib.L.akp_forth_number, self._h, which)

    def _is(self, which, word, what):
        return bool(_lib.rc(_lib.L.akp_forth_is(self._h, which, arg_string(word, what))))

    def __getitem__(self, key):
        ckey = arg_string(key, "__getitem__")
        L = _lib.L
        if _lib.rc(L.akp_forth_is(self._h, 0, ckey)):
            return _lib.okint(L.akp_forth_variable_at, self._h, ckey)
        elif _lib.rc(L.akp_forth_is(self._h, 2, ckey)):
            return _content._boxc(L.akp_forth_output_NumpyArray(self._h, ckey))
        elif _lib.rc(L.akp_forth_is(self._h, 3, ckey)):
            dictionary = self.dictionary
            skey = ckey.decode("utf-8", "surrogateescape")
            index = 0
            while index < len(dictionary):
                if dictionary[index] == skey:
                    break
                index += 1
            bytecodes = _lib.ptr(L.akp_forth_bytecodes(self._h))
            try:
                return _content._boxc(L.akp_getitem_at_nowrap(bytecodes, index + 1))
            finally:
                _content._free(bytecodes)
        else:
            raise ValueError("unrecognized AwkwardForth variable/output/dictionary word: "
                             + ckey.decode("utf-8", "surrogateescape") + _fn(134))

    source = property(lambda self: _lib.string(_lib.L.akp_forth_source(self._h)))
    bytecodes = property(lambda self: _content._sharec(_lib.L.akp_forth_bytecodes(self._h)))
    decompiled = property(lambda self: _lib.string(_lib.L.akp_forth_decompiled(self._h)))

    @property
    def dictionary(self):
        _lib.rc(_lib.L.akp_forth_dictionary(self._h))
        return _lib.strs()

    stack_max_depth = property(lambda self: self._num(0))
    recursion_max_depth = property(lambda self: self._num(1))
    output_initial_size = property(lambda self: self._num(2))
    output_resize_factor = property(lambda self: _lib.L.akp_forth_output_resize_factor(self._h))

    @property
    def stack(self):
        _lib.rc(_lib.L.akp_forth_stack(self._h))
        return _lib.ints()

    def stack_push(self, value):
        lo, hi = -(1 << (self._bits - 1)), (1 << (self._bits - 1)) - 1
        ok, v = _load_int(value, lo, hi)
        if not ok:
            raise _badarg("stack_push", value, "int")
        if not self._num(12):
            raise ValueError("AwkwardForth stack overflow" + _fn(157))
        _lib.rc(_lib.L.akp_forth_stack_push(self._h, v))

    def stack_pop(self):
        if not self._num(13):
            raise ValueError("AwkwardForth stack underflow" + _fn(164))
        return _lib.okint(_lib.L.akp_forth_stack_pop, self._h)

    def stack_clear(self):
        _lib.rc(_lib.L.akp_forth_stack_clear(self._h))

    def string_at(self, at):
        return _lib.string(_lib.L.akp_forth_string_at(self._h, arg_int64(at, "string_at")))

    @property
    def variables(self):
        _lib.rc(_lib.L.akp_forth_variables(self._h))
        return dict(zip(_lib.strs(), _lib.ints()))

    def input_position(self, name):
        return _lib.okint(_lib.L.akp_forth_input_position, self._h, arg_string(name, "input_position"))

    @property
    def outputs(self):
        _lib.rc(_lib.L.akp_forth_output_index(self._h))
        out = {}
        for name in _lib.strs():
            out[name] = _content._boxc(_lib.L.akp_forth_output_NumpyArray(self._h, _lib.cstr(name)))
        return out

    def output_NumpyArray(self, name):
        return _content._boxc(_lib.L.akp_forth_output_NumpyArray(self._h, arg_string(name, "output_NumpyArray")))

    def _output_index(self, name, kind, what):
        return _index.wrap(_lib.ptr(_lib.L.akp_forth_output_Index(self._h, arg_string(name, what), kind)))

    def output_Index8(self, name):
        return self._output_index(name, 0, "output_Index8")

    def output_IndexU8(self, name):
        return self._output_index(name, 1, "output_IndexU8")

    def output_Index32(self, name):
        return self._output_index(name, 2, "output_Index32")

    def output_IndexU32(self, name):
        return self._output_index(name, 3, "output_IndexU32")

    def output_Index64(self, name):
        return self._output_index(name, 4, "output_Index64")

    def reset(self):
        _lib.rc(_lib.L.akp_forth_reset(self._h))

    def _stage_inputs(self, inputs, what):
        if not isinstance(inputs, dict):
            raise _badarg(what, inputs, "dict")
        L = _lib.L
        L.akp_forth_inputs_clear(self._h)
        try:
            for key, value in inputs.items():
                name = cast_string(key)
                writable = bool(_lib.rc(L.akp_forth_input_must_be_writable(self._h, name)))
                # pair.second.cast<py::buffer>().request(writable)
                try:
                    view = memoryview(value)
                except TypeError:
                    raise RuntimeError("Unable to cast Python instance to C++ type 'buffer'")
                if writable and view.readonly:
                    raise BufferError("Object is not writable.")
                length = view.itemsize
                for x in view.shape:
                    length *= x
                if isinstance(value, numpy.ndarray):
                    address = value.ctypes.data
                else:
                    flat = numpy.frombuffer(view, dtype=numpy.uint8) if view.contiguous else numpy.asarray(view)
                    address = flat.ctypes.data
                _lib.rc(L.akp_forth_input_add(self._h, name, address, length, id(value)))
        except BaseException:
            L.akp_forth_inputs_clear(self._h)
            raise

    def _maybe_throw(self, err, flags):
        if err < 0:
            _lib.raise_error()
        mask = 0
        for name, code in _RAISE_FLAGS:
            if not flags[name]:
                mask |= 1 << code
        _lib.rc(_lib.L.akp_forth_maybe_throw(self._h, err, mask))
        if err == 0:
            return None
        if 0 < err < len(_ERRNAMES):
            return _ERRNAMES[err]
        raise ValueError("unrecognized ForthError: " + str(err) + _fn(92))

    def begin(self, inputs=_DEFAULT_INPUTS):
        self._stage_inputs(inputs, "begin")
        _lib.rc(_lib.L.akp_forth_begin(self._h))

    def step(self, raise_user_halt=True, raise_recursion_depth_exceeded=True, raise_stack_underflow=True, raise_stack_overflow=True, raise_read_beyond=True, raise_seek_beyond=True, raise_skip_beyond=True, raise_rewind_beyond=True, raise_division_by_zero=True, raise_varint_too_big=True):
        what = "step"
        flags = dict(raise_user_halt=arg_bool(raise_user_halt, what), raise_recursion_depth_exceeded=arg_bool(raise_recursion_depth_exceeded, what), raise_stack_underflow=arg_bool(raise_stack_underflow, what), raise_stack_overflow=arg_bool(raise_stack_overflow, what), raise_read_beyond=arg_bool(raise_read_beyond, what), raise_seek_beyond=arg_bool(raise_seek_beyond, what), raise_skip_beyond=arg_bool(raise_skip_beyond, what), raise_rewind_beyond=arg_bool(raise_rewind_beyond, what), raise_division_by_zero=arg_bool(raise_division_by_zero, what), raise_varint_too_big=arg_bool(raise_varint_too_big, what))
        err = _lib.L.akp_forth_step(self._h)
        return self._maybe_throw(err, flags)

    def run(self, inputs=_DEFAULT_INPUTS, raise_user_halt=True, raise_recursion_depth_exceeded=True, raise_stack_underflow=True, raise_stack_overflow=True, raise_read_beyond=True, raise_seek_beyond=True, raise_skip_beyond=True, raise_rewind_beyond=True, raise_division_by_zero=True, raise_varint_too_big=True):
        what = "run"
        flags = dict(raise_user_halt=arg_bool(raise_user_halt, what), raise_recursion_depth_exceeded=arg_bool(raise_recursion_depth_exceeded, what), raise_stack_underflow=arg_bool(raise_stack_underflow, what), raise_stack_overflow=arg_bool(raise_stack_overflow, what), raise_read_beyond=arg_bool(raise_read_beyond, what), raise_seek_beyond=arg_bool(raise_seek_beyond, what), raise_skip_beyond=arg_bool(raise_skip_beyond, what), raise_rewind_beyond=arg_bool(raise_rewind_beyond, what), raise_division_by_zero=arg_bool(raise_division_by_zero, what), raise_varint_too_big=arg_bool(raise_varint_too_big, what))
        self._stage_inputs(inputs, "run")
        _lib.rc(_lib.L.akp_forth_begin(self._h))
        err = _lib.L.akp_forth_resume(self._h)
        return self._maybe_throw(err, flags)

    def resume(self, raise_user_halt=True, raise_recursion_depth_exceeded=True, raise_stack_underflow=True, raise_stack_overflow=True, raise_read_beyond=True, raise_seek_beyond=True, raise_skip_beyond=True, raise_rewind_beyond=True, raise_division_by_zero=True, raise_varint_too_big=True):
        what = "resume"
        flags = dict(raise_user_halt=arg_bool(raise_user_halt, what), raise_recursion_depth_exceeded=arg_bool(raise_recursion_depth_exceeded, what), raise_stack_underflow=arg_bool(raise_stack_underflow, what), raise_stack_overflow=arg_bool(raise_stack_overflow, what), raise_read_beyond=arg_bool(raise_read_beyond, what), raise_seek_beyond=arg_bool(raise_seek_beyond, what), raise_skip_beyond=arg_bool(raise_skip_beyond, what), raise_rewind_beyond=arg_bool(raise_rewind_beyond, what), raise_division_by_zero=arg_bool(raise_division_by_zero, what), raise_varint_too_big=arg_bool(raise_varint_too_big, what))
        err = _lib.L.akp_forth_resume(self._h)
        return self._maybe_throw(err, flags)

    def call(self, name, raise_user_halt=True, raise_recursion_depth_exceeded=True, raise_stack_underflow=True, raise_stack_overflow=True, raise_read_beyond=True, raise_seek_beyond=True, raise_skip_beyond=True, raise_rewind_beyond=True, raise_division_by_zero=True, raise_varint_too_big=True):
        what = "call"
        name = arg_string(name, what)
        flags = dict(raise_user_halt=arg_bool(raise_user_halt, what), raise_recursion_depth_exceeded=arg_bool(raise_recursion_depth_exceeded, what), raise_stack_underflow=arg_bool(raise_stack_underflow, what), raise_stack_overflow=arg_bool(raise_stack_overflow, what), raise_read_beyond=arg_bool(raise_read_beyond, what), raise_seek_beyond=arg_bool(raise_seek_beyond, what), raise_skip_beyond=arg_bool(raise_skip_beyond, what), raise_rewind_beyond=arg_bool(raise_rewind_beyond, what), raise_division_by_zero=arg_bool(raise_division_by_zero, what), raise_varint_too_big=arg_bool(raise_varint_too_big, what))
        err = _lib.L.akp_forth_call(self._h, name)
        return self._maybe_throw(err, flags)

    current_bytecode_position = property(lambda self: self._num(3))
    current_recursion_depth = property(lambda self: self._num(4))
    current_instruction = property(lambda self: _lib.string(_lib.L.akp_forth_current_instruction(self._h)))

    def count_reset(self):
        _lib.rc(_lib.L.akp_forth_count_reset(self._h))

    count_instructions = property(lambda self: self._num(5))
    count_reads = property(lambda self: self._num(6))
    count_writes = property(lambda self: self._num(7))
    count_nanoseconds = property(lambda self: self._num(8))

    def is_variable(self, word):
        return self._is(0, word, "is_variable")

    def is_input(self, word):
        return self._is(1, word, "is_input")

    def is_output(self, word):
        return self._is(2, word, "is_output")

    def is_defined(self, word):
        return self._is(3, word, "is_defined")

    is_ready = property(lambda self: bool(self._num(9)))
    is_done = property(lambda self: bool(self._num(10)))
    is_segment_done = property(lambda self: bool(self._num(11)))


class ForthMachine32(_ForthMachine):
    __slots__ = ()
    _is64 = 0
    _bits = 32


class ForthMachine64(_ForthMachine):
    __slots__ = ()
    _is64 = 1
    _bits = 64


ForthMachine32.__module__ = "awkward._ext"
ForthMachine64.__module__ = "awkward._ext"
