"""ForthMachine32 / ForthMachine64 (src/python/forth.cpp) -- placeholder."""
from __future__ import absolute_import

_MSG = "akext: %s needs the Forth section of the bridge, which is not wired yet"


class ForthMachine32(object):
    def __init__(self, *args, **kwargs):
        raise NotImplementedError(_MSG % "ForthMachine32")


class ForthMachine64(object):
    def __init__(self, *args, **kwargs):
        raise NotImplementedError(_MSG % "ForthMachine64")
