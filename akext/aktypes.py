"""Type classes of awkward._ext (src/python/types.cpp) over bridge handles (ak::TypePtr*)."""
from __future__ import absolute_import

import json
from ctypes import c_int, byref

from akext import _lib
from akext._util import (FILENAME, CastError, arg_int64, arg_string, cast_int64, cast_string, dict2parameters,
                         parameters2dict, is_iterable, _badarg, InstanceRegistry)


def _fn(line):
    return FILENAME("types.cpp", line)


CLASS_BY_ID = {}
INSTANCES = InstanceRegistry(lambda h: _lib.L.akp_type_raw(h))
_Registered = INSTANCES.metaclass()


def _new(cls, h):
    self = object.__new__(cls)
    self._h = h
    return INSTANCES.add(self)


def share(h):
    """cast of a std::shared_ptr<Type>: same C++ object, most derived class; takes ownership"""
    if not h:
        return None
    cls = CLASS_BY_ID.get(_lib.L.akp_type_classid(h), Type)
    existing = INSTANCES.find(h, cls)
    if existing is not None:
        _lib.L.akp_type_free(h)
        return existing
    return _new(cls, h)


def box(h):
    """box(type) of types.cpp: a copy (py::cast(*raw)); takes ownership"""
    if not h:
        raise RuntimeError("missing boxer for Type subtype" + _fn(49))
    cid = _lib.L.akp_type_classid(h)
    if cid not in CLASS_BY_ID:
        _lib.L.akp_type_free(h)
        raise RuntimeError("missing boxer for Type subtype" + _fn(49))
    try:
        h2 = _lib.ptr(_lib.L.akp_type_shallow_copy(h))
    finally:
        _lib.L.akp_type_free(h)
    return _new(CLASS_BY_ID[cid], h2)


class _Unboxed(object):
    __slots__ = ("_h",)

    def __init__(self, h):
        self._h = h

    def __del__(self):
        if self._h and _lib.L is not None:
            _lib.L.akp_type_free(self._h)


def unbox_type(obj):
    """unbox_type(): an owner of a shallow copy"""
    if isinstance(obj, Type) and type(obj) is not Type:
        return _Unboxed(_lib.ptr(_lib.L.akp_type_shallow_copy(obj._h)))
    raise ValueError("argument must be a Type subtype" + _fn(90))


def _type_arg(obj, what):
    """a std::shared_ptr<ak::Type> argument"""
    if isinstance(obj, Type):
        return obj._h
    raise _badarg(what, obj, "awkward._ext.Type")


def typestr2str(obj):
    if obj is None:
        return b""
    return cast_string(obj)


def str2typestr(s):
    if s == "":
        return None
    return s


def _tp(parameters, typestr):
    ks, vs = dict2parameters(parameters)
    return _lib.cstrs(ks), _lib.cstrs(vs), len(ks), typestr2str(typestr)


class Type(object, metaclass=_Registered):
    __slots__ = ("_h", "__weakref__")

    def __init__(self, *args, **kwargs):
        raise TypeError("awkward._ext.Type: No constructor defined!")

    def __del__(self):
        h = getattr(self, "_h", None)
        if h and _lib.L is not None:
            self._h = None
            _lib.L.akp_type_free(h)

    def __eq__(self, other):
        # a std::shared_ptr<Type> argument: None converts to a null pointer, anything else is a TypeError
        oh = None if other is None else _type_arg(other, "__eq__")
        return bool(_lib.rc(_lib.L.akp_type_equal(self._h, oh, 1)))

    def __ne__(self, other):
        oh = None if other is None else _type_arg(other, "__ne__")
        return not bool(_lib.rc(_lib.L.akp_type_equal(self._h, oh, 1)))

    __hash__ = None


class _TypeMethods(object):
    __slots__ = ()

    def __repr__(self):
        return _lib.string(_lib.L.akp_type_tostring(self._h))

    def _get_parameters(self):
        _lib.rc(_lib.L.akp_type_parameters(self._h))
        return parameters2dict(_lib.strs())

    def _set_parameters(self, parameters):
        ks, vs = dict2parameters(parameters)
        _lib.rc(_lib.L.akp_type_setparameters(self._h, _lib.cstrs(ks), _lib.cstrs(vs), len(ks)))

    parameters = property(_get_parameters, _set_parameters)

    def setparameter(self, key, value):
        key = arg_string(key, "setparameter")
        _lib.rc(_lib.L.akp_type_setparameter(self._h, key, cast_string(json.dumps(value))))

    @property
    def typestr(self):
        return str2typestr(_lib.string(_lib.L.akp_type_typestr(self._h)))

    @property
    def numfields(self):
        return _lib.okint(_lib.L.akp_type_numfields, self._h)

    def fieldindex(self, key):
        return _lib.okint(_lib.L.akp_type_fieldindex, self._h, arg_string(key, "fieldindex"))

    def key(self, fieldindex):
        return _lib.string(_lib.L.akp_type_key(self._h, arg_int64(fieldindex, "key")))

    def haskey(self, key):
        return bool(_lib.rc(_lib.L.akp_type_haskey(self._h, arg_string(key, "haskey"))))

    def keys(self):
        _lib.rc(_lib.L.akp_type_keys(self._h))
        return _lib.strs()

    def empty(self):
        from akext import content
        return content._sharec(_lib.L.akp_type_empty(self._h))


def _inner(self):
    return share(_lib.ptr(_lib.L.akp_type_inner(self._h)))


def _number(self):
    return _lib.okint(_lib.L.akp_type_number, self._h)


def _ext(cls):
    cls.__module__ = "awkward._ext"
    return cls


def _state_tuple(state, n, name):
    if not isinstance(state, tuple) or len(state) != n:
        raise RuntimeError("Invalid state!")
    return state


@_ext
class ArrayType(_TypeMethods, Type):
    __slots__ = ()

    def __init__(self, type, length, parameters=None, typestr=None):
        th = _type_arg(type, "ArrayType")
        length = arg_int64(length, "ArrayType")
        pk, pv, n, ts = _tp(parameters, typestr)
        self._h = _lib.ptr(_lib.L.akp_arraytype_new(pk, pv, n, ts, th, length))

    type = property(_inner)
    length = property(_number)

    def __getstate__(self):
        return (self.parameters, self.typestr, box(_lib.ptr(_lib.L.akp_type_inner(self._h))), self.length)

    def __setstate__(self, state):
        pk, pv, n, ts = _tp(state[0], state[1])
        t = unbox_type(state[2])
        self._h = _lib.ptr(_lib.L.akp_arraytype_new(pk, pv, n, ts, t._h, cast_int64(state[3])))
        INSTANCES.add(self)


@_ext
class ListType(_TypeMethods, Type):
    __slots__ = ()

    def __init__(self, type, parameters=None, typestr=None):
        th = _type_arg(type, "ListType")
        pk, pv, n, ts = _tp(parameters, typestr)
        self._h = _lib.ptr(_lib.L.akp_listtype_new(pk, pv, n, ts, th))

    type = property(_inner)

    def __getstate__(self):
        return (self.parameters, self.typestr, box(_lib.ptr(_lib.L.akp_type_inner(self._h))))

    def __setstate__(self, state):
        pk, pv, n, ts = _tp(state[0], state[1])
        t = unbox_type(state[2])
        self._h = _lib.ptr(_lib.L.akp_listtype_new(pk, pv, n, ts, t._h))
        INSTANCES.add(self)


@_ext
class OptionType(_TypeMethods, Type):
    __slots__ = ()

    def __init__(self, type, parameters=None, typestr=None):
        th = _type_arg(type, "OptionType")
        pk, pv, n, ts = _tp(parameters, typestr)
        self._h = _lib.ptr(_lib.L.akp_optiontype_new(pk, pv, n, ts, th))

    type = property(_inner)

    def __getstate__(self):
        return (self.parameters, self.typestr, box(_lib.ptr(_lib.L.akp_type_inner(self._h))))

    def __setstate__(self, state):
        pk, pv, n, ts = _tp(state[0], state[1])
        t = unbox_type(state[2])
        self._h = _lib.ptr(_lib.L.akp_optiontype_new(pk, pv, n, ts, t._h))
        INSTANCES.add(self)


@_ext
class PrimitiveType(_TypeMethods, Type):
    __slots__ = ()

    def __init__(self, dtype, parameters=None, typestr=None):
        dtype = arg_string(dtype, "PrimitiveType")
        dt = _lib.rc(_lib.L.akp_name_to_dtype(dtype))
        if dt == _lib.L.akp_dtype_NOT_PRIMITIVE():
            raise ValueError("unrecognized primitive type: " + dtype.decode("utf-8", "surrogateescape") + _fn(303))
        pk, pv, n, ts = _tp(parameters, typestr)
        self._h = _lib.ptr(_lib.L.akp_primitivetype_new(pk, pv, n, ts, dt))

    @property
    def dtype(self):
        return _lib.string(_lib.L.akp_dtype_to_name(_number(self)))

    def __getstate__(self):
        return (self.parameters, self.typestr, _number(self))

    def __setstate__(self, state):
        pk, pv, n, ts = _tp(state[0], state[1])
        self._h = _lib.ptr(_lib.L.akp_primitivetype_new(pk, pv, n, ts, cast_int64(state[2])))
        INSTANCES.add(self)


def _iterable_to_RecordType(types, keys, parameters, typestr):
    out = [unbox_type(x) for x in types]
    handles = [x._h for x in out]
    if keys is None:
        ckeys = None
    else:
        if not is_iterable(keys):
            raise CastError("Unable to cast Python instance to C++ type 'iterable'")
        lookup = [cast_string(x) for x in keys]
        if len(out) != len(lookup):
            raise ValueError("if provided, 'keys' must have the same length as 'types'" + _fn(349))
        ckeys = _lib.cstrs(lookup)
    pk, pv, n, ts = _tp(parameters, typestr)
    return _lib.ptr(_lib.L.akp_recordtype_new(pk, pv, n, ts, _lib.cptrs(handles), len(handles), ckeys))


def _bind(names, args, kwargs):
    if len(args) > len(names):
        return None
    bound = dict((n, None) for n in names)
    for n, a in zip(names, args):
        bound[n] = a
    for k, v in kwargs.items():
        if k not in names or k in names[:len(args)]:
            return None
        bound[k] = v
    return bound


@_ext
class RecordType(_TypeMethods, Type):
    __slots__ = ()

    def __init__(self, types, *args, **kwargs):
        # overload 1: (types: dict, parameters=None, typestr=None)
        # overload 2: (types: Iterable, keys=None, parameters=None, typestr=None)
        if isinstance(types, dict):
            bound = _bind(["parameters", "typestr"], args, kwargs)
            if bound is not None:
                lookup, out = [], []
                for k, v in types.items():
                    lookup.append(cast_string(k))
                    out.append(unbox_type(v))
                handles = [x._h for x in out]
                pk, pv, n, ts = _tp(bound["parameters"], bound["typestr"])
                self._h = _lib.ptr(_lib.L.akp_recordtype_new(pk, pv, n, ts, _lib.cptrs(handles), len(handles),
                                                             _lib.cstrs(lookup)))
                return
        if is_iterable(types):
            bound = _bind(["keys", "parameters", "typestr"], args, kwargs)
            if bound is not None:
                self._h = _iterable_to_RecordType(types, bound["keys"], bound["parameters"], bound["typestr"])
                return
        raise TypeError("RecordType.__init__(): incompatible constructor arguments")

    def _field(self, x):
        if isinstance(x, (str, bytes)):
            return box(_lib.ptr(_lib.L.akp_recordtype_field_key(self._h, arg_string(x, "field"))))
        return box(_lib.ptr(_lib.L.akp_recordtype_field_at(self._h, arg_int64(x, "field"))))

    def __getitem__(self, x):
        return self._field(x)

    def field(self, x):
        return self._field(x)

    @property
    def istuple(self):
        return bool(_lib.rc(_lib.L.akp_recordtype_istuple(self._h)))

    @property
    def types(self):
        _lib.rc(_lib.L.akp_type_types(self._h))
        return tuple(box(p) for p in _lib.ptrs())

    def fields(self):
        _lib.rc(_lib.L.akp_recordtype_fields(self._h))
        return [box(p) for p in _lib.ptrs()]

    def fielditems(self):
        _lib.rc(_lib.L.akp_recordtype_fielditems(self._h))
        keys, ps = _lib.strs(), _lib.ptrs()
        return [(k, box(p)) for k, p in zip(keys, ps)]

    def __getstate__(self):
        n = self.numfields
        pytypes = tuple(box(_lib.ptr(_lib.L.akp_recordtype_field_at(self._h, i))) for i in range(n))
        if _lib.rc(_lib.L.akp_recordtype_recordlookup(self._h)) == 0:
            return (pytypes, None, self.parameters, self.typestr)
        else:
            lookup = _lib.strs()
            return (pytypes, tuple(lookup[i] for i in range(n)), self.parameters, self.typestr)

    def __setstate__(self, state):
        if not is_iterable(state[0]):
            raise CastError("Unable to cast Python instance to C++ type 'iterable'")
        self._h = _iterable_to_RecordType(state[0], state[1], state[2], state[3])
        INSTANCES.add(self)


@_ext
class RegularType(_TypeMethods, Type):
    __slots__ = ()

    def __init__(self, type, size, parameters=None, typestr=None):
        th = _type_arg(type, "RegularType")
        size = arg_int64(size, "RegularType")
        pk, pv, n, ts = _tp(parameters, typestr)
        self._h = _lib.ptr(_lib.L.akp_regulartype_new(pk, pv, n, ts, th, size))

    type = property(_inner)
    size = property(_number)

    def __getstate__(self):
        return (self.parameters, self.typestr, box(_lib.ptr(_lib.L.akp_type_inner(self._h))), self.size)

    def __setstate__(self, state):
        pk, pv, n, ts = _tp(state[0], state[1])
        t = unbox_type(state[2])
        self._h = _lib.ptr(_lib.L.akp_regulartype_new(pk, pv, n, ts, t._h, cast_int64(state[3])))
        INSTANCES.add(self)


@_ext
class UnionType(_TypeMethods, Type):
    __slots__ = ()

    def __init__(self, types, parameters=None, typestr=None):
        if not is_iterable(types):
            raise _badarg("UnionType", types, "Iterable")
        out = [unbox_type(x) for x in types]
        handles = [x._h for x in out]
        pk, pv, n, ts = _tp(parameters, typestr)
        self._h = _lib.ptr(_lib.L.akp_uniontype_new(pk, pv, n, ts, _lib.cptrs(handles), len(handles)))

    numtypes = property(_number)

    @property
    def types(self):
        return tuple(box(_lib.ptr(_lib.L.akp_uniontype_type(self._h, i))) for i in range(self.numtypes))

    def type(self, index):
        return share(_lib.ptr(_lib.L.akp_uniontype_type(self._h, arg_int64(index, "type"))))

    def __getstate__(self):
        return (self.parameters, self.typestr, self.types)

    def __setstate__(self, state):
        out = [unbox_type(x) for x in state[2]]
        handles = [x._h for x in out]
        pk, pv, n, ts = _tp(state[0], state[1])
        self._h = _lib.ptr(_lib.L.akp_uniontype_new(pk, pv, n, ts, _lib.cptrs(handles), len(handles)))
        INSTANCES.add(self)


@_ext
class UnknownType(_TypeMethods, Type):
    __slots__ = ()

    def __init__(self, parameters=None, typestr=None):
        pk, pv, n, ts = _tp(parameters, typestr)
        self._h = _lib.ptr(_lib.L.akp_unknowntype_new(pk, pv, n, ts))

    def __getstate__(self):
        return (self.parameters, self.typestr)

    def __setstate__(self, state):
        pk, pv, n, ts = _tp(state[0], state[1])
        self._h = _lib.ptr(_lib.L.akp_unknowntype_new(pk, pv, n, ts))
        INSTANCES.add(self)


Type.__module__ = "awkward._ext"
for _cid, _cls in [(1, ArrayType), (2, ListType), (3, OptionType), (4, PrimitiveType), (5, RecordType),
                   (6, RegularType), (7, UnionType), (8, UnknownType)]:
    CLASS_BY_ID[_cid] = _cls
