"""Identities32 / Identities64 (src/python/identities.cpp)."""
from __future__ import absolute_import

from ctypes import c_void_p, c_int64, c_int, byref

import numpy

from akext import _lib
from akext import _mem
from akext._util import FILENAME, arg_int64, arg_string, _badarg, no_pickle


def _fn(line):
    return FILENAME("identities.cpp", line)


def _fieldloc_arg(fieldloc, what):
    """std::vector<std::pair<int64_t, std::string>>"""
    if isinstance(fieldloc, (str, bytes)) or not hasattr(fieldloc, "__len__") or not hasattr(fieldloc, "__getitem__"):
        raise _badarg(what, fieldloc, "List[Tuple[int, str]]")
    locs, names = [], []
    for pair in fieldloc:
        if not isinstance(pair, (tuple, list)) or len(pair) != 2:
            raise _badarg(what, fieldloc, "List[Tuple[int, str]]")
        locs.append(arg_int64(pair[0], what))
        names.append(arg_string(pair[1], what))
    return locs, names


@no_pickle
class _Identities(object):
    __slots__ = ("_h", "__weakref__")
    _is64 = None
    _dtype = None
    _name = None

    def __init__(self, *args):
        name = self._name
        if len(args) == 4:
            ref, fieldloc, width, length = args
            ref = arg_int64(ref, name)
            locs, names = _fieldloc_arg(fieldloc, name)
            width, length = arg_int64(width, name), arg_int64(length, name)
            self._h = _lib.ptr(_lib.L.akp_ids_new(self._is64, ref, _lib.ci64s(locs), _lib.cstrs(names), len(locs),
                                                  width, length))
        elif len(args) == 3:
            ref, fieldloc, anyarray = args
            ref = arg_int64(ref, name)
            locs, names = _fieldloc_arg(fieldloc, name)
            module = type(anyarray).__module__
            if module.startswith("cupy."):
                raise ValueError(name + ".from_cupy() can only accept CuPy Arrays!" + _fn(56))
            array = numpy.asarray(anyarray, dtype=self._dtype, order="C")
            if type(array) is not numpy.ndarray:
                array = array.view(numpy.ndarray)
            info = memoryview(array)
            if info.ndim != 2:
                raise ValueError(name + " must be built from a two-dimensional array" + _fn(102))
            if info.strides[0] != info.itemsize * info.shape[1] or info.strides[1] != info.itemsize:
                raise ValueError(name + " must be built from a contiguous array (array.stries == (array.shape[1]*"
                                 "array.itemsize, array.itemsize)); try array.copy()" + _fn(110))
            self._h = _lib.ptr(_lib.L.akp_ids_wrap(self._is64, ref, _lib.ci64s(locs), _lib.cstrs(names), len(locs),
                                                   array.ctypes.data, array.shape[1], array.shape[0], id(array)))
        else:
            raise TypeError("%s.__init__(): incompatible constructor arguments" % name)

    @classmethod
    def _wrap(cls, h):
        self = object.__new__(cls)
        self._h = h
        return self

    def __del__(self):
        h = getattr(self, "_h", None)
        if h and _lib.L is not None:
            self._h = None
            _lib.L.akp_ids_free(h)

    def _info(self):
        ref, offset, width, length, base, lib = c_int64(), c_int64(), c_int64(), c_int64(), c_void_p(), c_int()
        _lib.rc(_lib.L.akp_ids_info(self._h, byref(ref), byref(offset), byref(width), byref(length), byref(base),
                                    byref(lib)))
        return ref.value, offset.value, width.value, length.value, (base.value or 0), lib.value

    def _view(self, own=True):
        ref, offset, width, length, base, lib = self._info()
        itemsize = numpy.dtype(self._dtype).itemsize
        return _mem.view(self if own else None, base + offset * itemsize if base else 0, (length, width),
                         (itemsize * width, itemsize), _mem.dtype_from_format("q" if self._is64 else "i"))

    def __buffer__(self, flags):
        return memoryview(self._view(False))

    @staticmethod
    def newref():
        return _lib.L.akp_ids_newref()

    @property
    def ptr_lib(self):
        lib = self._info()[5]
        if lib == 0:
            return "cpu"
        elif lib == 1:
            return "cuda"
        raise RuntimeError("unrecognized ptr_lib" + _fn(132))

    def __repr__(self):
        return _lib.string(_lib.L.akp_ids_tostring(self._h))

    def __len__(self):
        return self._info()[3]

    def __getitem__(self, *args):
        if len(args) == 1:
            _lib.rc(_lib.L.akp_ids_getitem_at(self._h, arg_int64(args[0], "__getitem__")))
            return _lib.ints()
        elif len(args) == 2:
            return wrap(_lib.ptr(_lib.L.akp_ids_getitem_range(self._h, arg_int64(args[0], "__getitem__"),
                                                              arg_int64(args[1], "__getitem__"))))
        raise TypeError("__getitem__(): incompatible function arguments")

    @property
    def ref(self):
        return self._info()[0]

    @property
    def fieldloc(self):
        _lib.rc(_lib.L.akp_ids_fieldloc(self._h))
        return list(zip(_lib.ints(), _lib.strs()))

    @property
    def width(self):
        return self._info()[2]

    @property
    def length(self):
        return self._info()[3]

    @property
    def array(self):
        return numpy.asarray(self)

    def identity_at_str(self, at):
        return _lib.string(_lib.L.akp_ids_identity_at_str(self._h, arg_int64(at, "identity_at_str")))

    def identity_at(self, at):
        at = arg_int64(at, "identity_at")
        fieldloc = self.fieldloc
        out = []
        for i in range(self.width):
            out.append(_lib.okint(_lib.L.akp_ids_value, self._h, at, i))
            for first, second in fieldloc:
                if first == i:
                    out.append(second)
        return tuple(out)

    def copy_to(self, ptr_lib):
        ptr_lib = arg_string(ptr_lib, "copy_to").decode("utf-8")
        if ptr_lib == "cpu":
            return wrap(_lib.ptr(_lib.L.akp_ids_copy_to(self._h, 0)))
        elif ptr_lib == "cuda":
            return wrap(_lib.ptr(_lib.L.akp_ids_copy_to(self._h, 1)))
        else:
            raise ValueError("specify 'cpu' or 'cuda'" + _fn(185))

    @classmethod
    def from_cupy(cls, ref, fieldloc, array):
        raise ValueError(cls._name + ".from_cupy() can only accept CuPy Arrays!" + _fn(56))

    def to_cupy(self):
        if self.ptr_lib != "cuda":
            raise ValueError(self._name + " resides in main memory, must be converted to NumPy, not CuPy" + _fn(200))
        raise NotImplementedError("akext: CUDA is not available in this sandbox")


def _make(name, is64, dtype):
    return type(name, (_Identities,), {"__slots__": (), "_is64": is64, "_dtype": dtype, "_name": name,
                                       "__module__": "awkward._ext"})


Identities32 = _make("Identities32", 0, numpy.int32)
Identities64 = _make("Identities64", 1, numpy.int64)


def wrap(h):
    """an Identities handle -> Python object (takes ownership); NULL -> None"""
    if not h:
        return None
    bits = _lib.L.akp_ids_width_bits(h)
    if bits == 32:
        return Identities32._wrap(h)
    elif bits == 64:
        return Identities64._wrap(h)
    _lib.L.akp_ids_free(h)
    raise RuntimeError("missing boxer for Identities subtype" + FILENAME("content.cpp", 225))


def box(h):
    """box(identities) of content.cpp: None for null, otherwise a copy (py::cast(*raw))"""
    if not h:
        return None
    try:
        h2 = _lib.ptr(_lib.L.akp_ids_shallow_copy(h))
    finally:
        _lib.L.akp_ids_free(h)
    return wrap(h2)


def unbox_none(obj):
    """unbox_identities_none: -> handle or None"""
    if obj is None:
        return None
    if isinstance(obj, _Identities):
        return obj._h
    raise ValueError("id argument must be an Identities subtype" + FILENAME("content.cpp", 343))
