"""The layout classes of awkward._ext (src/python/content.cpp) over bridge handles.

Fidelity notes
  * `box(...)` in the binding copy-constructs the node into a new Python object (py::cast(*raw)), while
    properties/methods that return a std::shared_ptr hand out the very C++ object.  `_box` and `_share`
    reproduce the two behaviours (they differ when a node is mutated through setidentities/setparameter).
  * arguments that go through unbox_content() are shallow-copied by the bridge.
  * pybind11 argument mismatches raise TypeError; std::invalid_argument -> ValueError,
    std::runtime_error -> RuntimeError (see _lib._EXC).
"""
from __future__ import absolute_import

import ctypes
import importlib
import json
from ctypes import c_void_p, c_int, c_int64, c_uint64, c_double, byref

import numpy

from akext import _lib
from akext import _mem
from akext import index as _index
from akext import identities as _identities
from akext._util import (FILENAME, CastError, arg_int64, arg_bool, arg_string, arg_optstring, arg_double, cast_int64,
                         cast_uint64, cast_double, cast_string, dict2parameters, parameters2dict, typestrs_arg,
                         is_iterable, _badarg, no_pickle, InstanceRegistry)


def _fn(line):
    return FILENAME("content.cpp", line)


def _L():
    return _lib.L


# ---------------------------------------------------------------- boxing

CLASS_BY_ID = {}        # classid -> Python class (filled below)
INSTANCES = InstanceRegistry(lambda h: _lib.L.akp_raw(h))
_Registered = INSTANCES.metaclass()


def _free(h):
    if h and _lib.L is not None:
        _lib.L.akb_free(h)


def _new(cls, h):
    self = object.__new__(cls)
    self._h = h
    return INSTANCES.add(self)


def _share(h):
    """pybind11's cast of a std::shared_ptr<Content>: the Python object of the most derived registered class
    holding the same C++ object; None for a null pointer.  Takes ownership of the handle."""
    if not h:
        return None
    cid = _lib.L.akp_classid(h)
    cls = CLASS_BY_ID.get(cid)
    if cls is None:
        cls = Content          # e.g. ak::None: only the base class is registered
    existing = INSTANCES.find(h, cls)
    if existing is not None:
        _free(h)
        return existing
    return _new(cls, h)


def _scalar(h):
    """scalar NumpyArray -> Python scalar (the switch in box())"""
    i, u, d = c_int64(), c_uint64(), c_double()
    kind = _lib.rc(_lib.L.akp_numpy_scalar(h, byref(i), byref(u), byref(d)))
    if kind == 1:
        return bool(i.value)
    elif kind == 2:
        return i.value
    elif kind == 3:
        return u.value
    elif kind == 4:
        return d.value
    elif kind == 5 or kind == 6:
        units = _lib.string(_lib.L.akp_format_to_units(_lib.cstr(_lib.string(_lib.L.akp_numpy_format(h)))))
        if kind == 5:
            return numpy.datetime64(u.value, units)
        return numpy.timedelta64(u.value, units)
    else:
        tmp = _new(NumpyArray, _lib.L.akp_share(h))
        return tmp._view().item()


def _box(h):
    """box() of content.cpp.  Takes ownership of the handle."""
    if not h:
        if _lib.failed():
            _lib.raise_error()
        raise RuntimeError("missing boxer for Content subtype: nullptr " + _fn(206))
    cid, scalar = c_int(), c_int()
    h2 = _lib.L.akp_box(h, byref(cid), byref(scalar))
    if not h2:
        if _lib.failed():
            _lib.raise_error()
        return None                       # ak::None
    if scalar.value:
        try:
            return _scalar(h2)
        finally:
            _free(h2)
    return _new(CLASS_BY_ID[cid.value], h2)


def _boxc(h):
    """box() of a result pointer that may carry an error record"""
    return _box(_lib.ptr(h))


def _sharec(h):
    return _share(_lib.ptr(h))


def unbox_content(obj):
    """unbox_content(): -> handle (the bridge makes the shallow copy)"""
    if isinstance(obj, Record):
        raise ValueError("content argument must be a Content subtype (excluding Record)" + _fn(235))
    if isinstance(obj, Content) and type(obj) is not Content:
        return obj._h
    raise ValueError("content argument must be a Content subtype" + _fn(328))


def _content_arg(obj, what):
    """a std::shared_ptr<ak::Content> argument (no copy): any registered Content subclass"""
    if isinstance(obj, Content):
        return obj._h
    raise _badarg(what, obj, "awkward._ext.Content")


def _params(parameters):
    ks, vs = dict2parameters(parameters)
    return _lib.cstrs(ks), _lib.cstrs(vs), len(ks)


def _json_loads(text):
    return json.loads(text)


# ---------------------------------------------------------------- slicing (toslice / toslice_part / getitem)

def _awkward():
    return importlib.import_module("awkward")


class _Slice(object):
    """owner of an ak::Slice under construction"""

    def __init__(self):
        self.h = _lib.L.akp_slice_new()

    def __del__(self):
        h = getattr(self, "h", None)
        if h and _lib.L is not None:
            self.h = None
            _lib.L.akp_slice_free(h)


def _as_pyarray(obj):
    """obj.cast<py::array>(): PyArray_FromAny(obj, NULL, 0, 0, NPY_ARRAY_ENSUREARRAY)"""
    array = numpy.asarray(obj)
    if type(array) is not numpy.ndarray:
        array = array.view(numpy.ndarray)
    return array


def _append_intarray(sl, intarray, frombool):
    shape = [int(x) for x in intarray.shape]
    strides = [int(x) // 8 for x in intarray.strides]       # int64 strides are multiples of 8: exact
    ih = _lib.ptr(_lib.L.akp_index_wrap(4, intarray.ctypes.data, shape[0], id(intarray)))
    try:
        _lib.rc(_lib.L.akp_slice_array(sl.h, ih, len(shape), _lib.ci64s(shape), _lib.ci64s(strides),
                                       1 if frombool else 0))
    finally:
        _lib.L.akb_index_free(ih)


def toslice_part(sl, obj):
    L = _lib.L

    if hasattr(obj, "__index__"):
        success = True
        try:
            py_index = obj.__index__()
        except Exception:
            success = False
        if success:
            index = cast_int64(py_index)
            _lib.rc(L.akp_slice_at(sl.h, index))
            return

    if isinstance(obj, int):
        _lib.rc(L.akp_slice_at(sl.h, cast_int64(obj)))

    elif isinstance(obj, slice):
        start = stop = L.akp_slice_none()
        step = 1
        if obj.start is not None:
            start = cast_int64(obj.start)
        if obj.stop is not None:
            stop = cast_int64(obj.stop)
        if obj.step is not None:
            step = cast_int64(obj.step)
        if step == 0:
            raise ValueError("slice step must not be 0" + _fn(464))
        _lib.rc(L.akp_slice_range(sl.h, start, stop, step))

    elif obj is Ellipsis:
        _lib.rc(L.akp_slice_ellipsis(sl.h))

    elif obj is None or obj is numpy.newaxis:
        _lib.rc(L.akp_slice_newaxis(sl.h))

    elif isinstance(obj, str):
        _lib.rc(L.akp_slice_field(sl.h, cast_string(obj)))

    elif is_iterable(obj):
        strings = []
        all_strings = True
        for x in obj:
            if isinstance(x, str):
                strings.append(cast_string(x))
            else:
                all_strings = False
                break

        if all_strings and len(strings) != 0:
            _lib.rc(L.akp_slice_fields(sl.h, _lib.cstrs(strings), len(strings)))
        else:
            content = None          # an object whose ._h is the ContentPtr (kept alive by the Python object)
            awkward = _awkward()

            if isinstance(obj, numpy.ma.MaskedArray):
                content = _unboxed(awkward.from_numpy(obj, False, False, False))
            elif isinstance(obj, numpy.ndarray):
                pass    # content = nullptr!
            elif isinstance(obj, Content):
                content = _unboxed(obj)
                if isinstance(content, VirtualArray):
                    content = content._array_shared()
            elif isinstance(obj, ArrayBuilder):
                content = _unboxed(obj.snapshot())
            elif isinstance(obj, awkward.Array):
                tmp = obj.layout
                if isinstance(tmp, awkward.partition.PartitionedArray):
                    content = _unboxed(tmp.toContent())
                    obj = _box(L.akp_share(content._h))
                else:
                    content = _unboxed(tmp)
            elif isinstance(obj, awkward.ArrayBuilder):
                content = _unboxed(obj.snapshot().layout)
            elif isinstance(obj, awkward.partition.PartitionedArray):
                content = _unboxed(obj.toContent())
                obj = _box(L.akp_share(content._h))
            else:
                obj = awkward.from_iter(obj, False)

                bad = False
                asarray = None
                try:
                    asarray = awkward.to_numpy(obj, False)
                except Exception:
                    bad = True

                if not bad:
                    array = _as_pyarray(asarray)
                    info = memoryview(array) if array.dtype.kind not in "Mm" else None
                    if info is None:
                        raise ValueError("cannot include dtype '%s' in a buffer" % array.dtype.char)
                    if L.akp_format_to_dtype(_lib.cstr(info.format), info.itemsize) == L.akp_dtype_NOT_PRIMITIVE():
                        bad = True

                if bad:
                    content = _unboxed(obj)
                else:
                    obj = asarray

            if content is not None and not _lib.rc(L.akp_handle_as_numpy(content._h)):
                if (_lib.rc(L.akp_parameter_equals(content._h, b"__array__", b"\"string\"")) or
                        _lib.rc(L.akp_parameter_equals(content._h, b"__array__", b"\"bytestring\""))):
                    obj = _box(L.akp_share(content._h))
                    obj = awkward.to_list(obj)
                    strings = []
                    for x in obj:
                        strings.append(cast_string(x))
                    _lib.rc(L.akp_slice_fields(sl.h, _lib.cstrs(strings), len(strings)))
                else:
                    _lib.rc(L.akp_slice_content(sl.h, content._h))
            else:
                array = _as_pyarray(obj)
                if array.ndim == 0:
                    raise ValueError("arrays used as an index must have at least one dimension" + _fn(597))

                if array.dtype.kind in "Mm":
                    # py::array::request() fails for datetime64/timedelta64 (no PEP 3118 format)
                    raise ValueError("cannot include dtype '%s' in a buffer" % array.dtype.char)
                info = memoryview(array)
                if info.format == "?":
                    nonzero_tuple = numpy.nonzero(array)
                    for x in nonzero_tuple:
                        intarray = _as_pyarray(numpy.asarray(x, numpy.int64))
                        _append_intarray(sl, intarray, True)
                else:
                    flatlen = 1
                    for x in info.shape:
                        flatlen *= x
                    fmt = info.format.lstrip("@=<>!")
                    if (isinstance(obj, numpy.ndarray) and
                            not L.akp_dtype_is_integer(L.akp_format_to_dtype(_lib.cstr(fmt), info.itemsize)) and
                            flatlen != 0):
                        raise ValueError("arrays used as an index must be a (native-endian) integer or boolean"
                                         + _fn(645))
                    intarray = _as_pyarray(numpy.asarray(array, numpy.int64))
                    _append_intarray(sl, intarray, False)

    else:
        raise ValueError("only integers, slices (`:`), ellipsis (`...`), numpy.newaxis (`None`), "
                         "and integer or boolean arrays (possibly jagged) are valid indices" + _fn(680))


class _Unboxed(object):
    """the result of unbox_content(): a private shallow copy"""
    __slots__ = ("_h",)

    def __init__(self, h):
        self._h = h

    def __del__(self):
        _free(self._h)


def _unboxed(obj):
    h = unbox_content(obj)
    h2 = _lib.ptr(_lib.L.akp_shallow_copy(h))
    cid = _lib.L.akp_classid(h2)
    if cid == 23:
        return _new(VirtualArray, h2)
    return _Unboxed(h2)


def toslice(obj):
    sl = _Slice()
    if isinstance(obj, tuple):
        for x in obj:
            toslice_part(sl, x)
    else:
        toslice_part(sl, obj)
    _lib.rc(_lib.L.akp_slice_seal(sl.h))
    return sl


def _slice_tostring(obj):
    sl = toslice(obj)
    return _lib.string(_lib.L.akp_slice_tostring(sl.h))


def _getitem(self, obj, at, rng, field, fields, general):
    """getitem<T> of content.cpp; the five callables take (handle, ...) and return a Content pointer"""
    L = _lib.L
    if isinstance(obj, int):
        return _boxc(at(self._h, cast_int64(obj)))
    if isinstance(obj, slice):
        pystep = obj.step
        if (isinstance(pystep, int) and cast_int64(pystep) == 1) or pystep is None:
            start = stop = L.akp_slice_none()
            if obj.start is not None:
                start = cast_int64(obj.start)
            if obj.stop is not None:
                stop = cast_int64(obj.stop)
            return _boxc(rng(self._h, start, stop))
        # control flow can pass through here
    if isinstance(obj, str):
        return _boxc(field(self._h, cast_string(obj)))
    if not isinstance(obj, tuple) and is_iterable(obj):
        strings = []
        all_strings = True
        for x in obj:
            if isinstance(x, str):
                strings.append(cast_string(x))
            else:
                all_strings = False
                break
        if all_strings and len(strings) != 0:
            return _boxc(fields(self._h, _lib.cstrs(strings), len(strings)))
        # control flow can pass through here
    sl = toslice(obj)
    return _boxc(general(self._h, sl.h))


def check_maxdecimals(maxdecimals):
    if maxdecimals is None:
        return -1
    try:
        return cast_int64(maxdecimals)
    except CastError:
        raise ValueError("maxdecimals must be None or an integer" + _fn(710))


def _tojson(h, args, kwargs, what):
    """the two tojson overloads (string / file), tried in registration order like pybind11 does"""
    names1 = ["pretty", "maxdecimals", "nan_string", "infinity_string", "minus_infinity_string",
              "complex_real_string", "complex_imag_string"]
    names2 = ["destination", "pretty", "maxdecimals", "buffersize", "nan_string", "infinity_string",
              "minus_infinity_string", "complex_real_string", "complex_imag_string"]
    defaults1 = {"pretty": False, "maxdecimals": None, "nan_string": None, "infinity_string": None,
                 "minus_infinity_string": None, "complex_real_string": None, "complex_imag_string": None}
    defaults2 = dict(defaults1, buffersize=65536)

    def bind(names, defaults):
        if len(args) > len(names):
            return None
        bound = dict(defaults)
        for n, a in zip(names, args):
            bound[n] = a
        for k, v in kwargs.items():
            if k not in names or k in names[:len(args)]:
                return None
            bound[k] = v
        for n in names:
            if n not in bound:
                return None
        return bound

    def optstr(x):
        if x is None:
            return None
        return arg_string(x, what)

    b = bind(names1, defaults1)
    if b is not None:
        try:
            pretty = arg_bool(b["pretty"], what)
            strs = [optstr(b[k]) for k in names1[2:]]
        except TypeError:
            b = None
        else:
            return _lib.string(_lib.L.akp_tojson(h, int(pretty), check_maxdecimals(b["maxdecimals"]), *strs))
    b = bind(names2, defaults2)
    if b is not None:
        destination = arg_string(b["destination"], what)
        pretty = arg_bool(b["pretty"], what)
        buffersize = arg_int64(b["buffersize"], what)
        strs = [optstr(b[k]) for k in names2[4:]]
        _lib.rc(_lib.L.akp_tojson_file(h, destination, int(pretty), check_maxdecimals(b["maxdecimals"]), buffersize,
                                       *strs))
        return None
    raise TypeError("%s.tojson(): incompatible function arguments" % what)


def _identity(self):
    """identity<T>"""
    L = _lib.L
    ok = c_int(0)
    ih = L.akp_identities(self._h, byref(ok))
    if not ok.value:
        _lib.raise_error()
    if not ih:
        raise ValueError(_lib.string(L.akp_classname(self._h)) + " instance has no associated identities (use "
                         "'setidentities' to assign one to the array it is in)" + _fn(1152))
    ids = _identities.wrap(ih)
    fieldloc = ids.fieldloc
    width = ids.width
    out = []
    if _lib.rc(L.akp_isscalar(self._h)):
        for i in range(width):
            out.append(_lib.okint(L.akp_ids_value, ids._h, 0, i))
            for first, second in fieldloc:
                if first == i:
                    out.append(second)
    else:
        for i in range(width):
            if i < width - 1:
                out.append(_lib.okint(L.akp_ids_value, ids._h, 0, i))
            for first, second in fieldloc:
                if first == i:
                    out.append(second)
    return tuple(out)


def _caches(self):
    from akext import virtual
    return virtual.caches_of_content(self._h)


def _kernels(self):
    k = _lib.rc(_lib.L.akp_kernels(self._h))
    return {0: "cpu", 1: "cuda"}.get(k, "mixed")


def _reducer(name, default_mask):
    def method(self, axis=-1, mask=default_mask, keepdims=False):
        axis = arg_int64(axis, name)
        mask = arg_bool(mask, name)
        keepdims = arg_bool(keepdims, name)
        return _boxc(_lib.L.akp_reduce(self._h, name.encode(), axis, int(mask), int(keepdims)))
    method.__name__ = name
    return method


def _minmax(name):
    def method(self, axis=-1, mask=True, keepdims=False, initial=None):
        axis = arg_int64(axis, name)
        mask = arg_bool(mask, name)
        keepdims = arg_bool(keepdims, name)
        if initial is None:
            return _boxc(_lib.L.akp_reduce(self._h, name.encode(), axis, int(mask), int(keepdims)))
        else:
            initial_f64 = cast_double(initial)
            initial_u64 = cast_uint64(initial) if initial_f64 > 0 else 0
            initial_i64 = cast_int64(initial)
            return _boxc(_lib.L.akp_reduce_initial(self._h, name.encode(), axis, int(mask), int(keepdims),
                                                   initial_f64, initial_u64, initial_i64))
    method.__name__ = name
    return method


# ---------------------------------------------------------------- Content and content_methods<T>

@no_pickle
class Content(object, metaclass=_Registered):
    """awkward._ext.Content: the abstract base registered by make_Content"""
    __slots__ = ("_h", "__weakref__")

    def __init__(self, *args, **kwargs):
        raise TypeError("awkward._ext.Content: No constructor defined!")

    def __del__(self):
        h = getattr(self, "_h", None)
        if h:
            self._h = None
            _free(h)

    def axis_wrap_if_negative(self, axis):
        return _lib.okint(_lib.L.akp_axis_wrap_if_negative, self._h, arg_int64(axis, "axis_wrap_if_negative"))


class _ContentMethods(object):
    """content_methods<T>"""
    __slots__ = ()

    def __repr__(self):
        return _lib.string(_lib.L.akp_tostring(self._h))

    # identities
    def _get_identities(self):
        ok = c_int(0)
        ih = _lib.L.akp_identities(self._h, byref(ok))
        if not ok.value:
            _lib.raise_error()
        return _identities.box(ih)

    def _set_identities(self, identities):
        _lib.rc(_lib.L.akp_setidentities(self._h, _identities.unbox_none(identities)))

    identities = property(_get_identities, _set_identities)

    def setidentities(self, *args):
        if len(args) == 1:
            _lib.rc(_lib.L.akp_setidentities(self._h, _identities.unbox_none(args[0])))
        elif len(args) == 0:
            _lib.rc(_lib.L.akp_setidentities_new(self._h))
        else:
            raise TypeError("setidentities(): incompatible function arguments")

    # parameters
    def _get_parameters(self):
        _lib.rc(_lib.L.akp_parameters(self._h))
        return parameters2dict(_lib.strs())

    def _set_parameters(self, parameters):
        pk, pv, n = _params(parameters)
        _lib.rc(_lib.L.akp_setparameters(self._h, pk, pv, n))

    parameters = property(_get_parameters, _set_parameters)

    def setparameter(self, key, value):
        key = arg_string(key, "setparameter")
        _lib.rc(_lib.L.akp_setparameter(self._h, key, cast_string(json.dumps(value))))

    def withparameter(self, key, value):
        key = arg_string(key, "withparameter")
        return _boxc(_lib.L.akp_withparameter(self._h, key, cast_string(json.dumps(value))))

    def parameter(self, key):
        return _json_loads(_lib.string(_lib.L.akp_parameter(self._h, arg_string(key, "parameter"))))

    def purelist_parameter(self, key):
        return _json_loads(_lib.string(_lib.L.akp_purelist_parameter(self._h, arg_string(key, "purelist_parameter"))))

    def type(self, typestrs):
        from akext import aktypes as types
        ks, vs = typestrs_arg(typestrs, "type")
        return types.share(_lib.ptr(_lib.L.akp_content_type(self._h, _lib.cstrs(ks), _lib.cstrs(vs), len(ks))))

    @property
    def form(self):
        from akext import forms
        return forms.share(_lib.ptr(_lib.L.akp_content_form(self._h, 0)))

    def __len__(self):
        return _lib.okint(_lib.L.akp_length, self._h)

    def __getitem__(self, obj):
        L = _lib.L
        return _getitem(self, obj, L.akp_getitem_at, L.akp_getitem_range, L.akp_getitem_field, L.akp_getitem_fields,
                        L.akp_getitem)

    def __iter__(self):
        return Iterator._from(self._h, True)

    kernels = property(_kernels)
    caches = property(_caches)

    def tojson(self, *args, **kwargs):
        return _tojson(self._h, args, kwargs, type(self).__name__)

    @property
    def nbytes(self):
        return _lib.okint(_lib.L.akp_nbytes, self._h)

    def deep_copy(self, copyarrays=True, copyindexes=True, copyidentities=True):
        return _sharec(_lib.L.akp_deep_copy(self._h, int(arg_bool(copyarrays, "deep_copy")),
                                            int(arg_bool(copyindexes, "deep_copy")),
                                            int(arg_bool(copyidentities, "deep_copy"))))

    identity = property(_identity)

    @property
    def numfields(self):
        return _lib.okint(_lib.L.akp_numfields, self._h)

    def fieldindex(self, key):
        return _lib.okint(_lib.L.akp_fieldindex, self._h, arg_string(key, "fieldindex"))

    def key(self, fieldindex):
        return _lib.string(_lib.L.akp_key(self._h, arg_int64(fieldindex, "key")))

    def haskey(self, key):
        return bool(_lib.rc(_lib.L.akp_haskey(self._h, arg_string(key, "haskey"))))

    def keys(self):
        _lib.rc(_lib.L.akp_keys(self._h))
        return _lib.strs()

    @property
    def purelist_isregular(self):
        return bool(_lib.rc(_lib.L.akp_purelist_isregular(self._h)))

    @property
    def purelist_depth(self):
        return _lib.okint(_lib.L.akp_purelist_depth, self._h)

    @property
    def branch_depth(self):
        a, b = c_int64(), c_int64()
        _lib.rc(_lib.L.akp_branch_depth(self._h, byref(a), byref(b)))
        return (bool(a.value), b.value)

    @property
    def minmax_depth(self):
        a, b = c_int64(), c_int64()
        _lib.rc(_lib.L.akp_minmax_depth(self._h, byref(a), byref(b)))
        return (a.value, b.value)

    def getitem_nothing(self):
        return _sharec(_lib.L.akp_getitem_nothing(self._h))

    def getitem_at_nowrap(self, at):
        return _boxc(_lib.L.akp_getitem_at_nowrap(self._h, arg_int64(at, "getitem_at_nowrap")))

    def getitem_range_nowrap(self, start, stop):
        return _sharec(_lib.L.akp_getitem_range_nowrap(self._h, arg_int64(start, "getitem_range_nowrap"),
                                                       arg_int64(stop, "getitem_range_nowrap")))

    @property
    def _persistent_shared_ptr(self):
        return _PersistentSharedPtr._from(self._h)

    # operations
    def validityerror(self):
        out = _lib.string(_lib.L.akp_validityerror(self._h))
        if out == "":
            return None
        return out

    def fillna(self, value):
        return _boxc(_lib.L.akp_fillna(self._h, unbox_content(value)))

    def num(self, axis=1):
        return _boxc(_lib.L.akp_num(self._h, arg_int64(axis, "num")))

    def flatten(self, axis=1):
        return _boxc(_lib.L.akp_offsets_and_flattened(self._h, arg_int64(axis, "flatten"), None))

    def offsets_and_flatten(self, axis=1):
        off = c_void_p()
        p = _lib.ptr(_lib.L.akp_offsets_and_flattened(self._h, arg_int64(axis, "offsets_and_flatten"), byref(off)))
        offsets = _index.wrap(off.value)
        return (offsets, _box(p))

    def rpad(self, length, axis):
        return _boxc(_lib.L.akp_rpad(self._h, arg_int64(length, "rpad"), arg_int64(axis, "rpad")))

    def rpad_and_clip(self, length, axis):
        return _boxc(_lib.L.akp_rpad_and_clip(self._h, arg_int64(length, "rpad_and_clip"),
                                              arg_int64(axis, "rpad_and_clip")))

    def mergeable(self, other, mergebool=False):
        mergebool = arg_bool(mergebool, "mergeable")
        return bool(_lib.rc(_lib.L.akp_mergeable(self._h, unbox_content(other), int(mergebool))))

    def merge(self, other):
        return _boxc(_lib.L.akp_merge(self._h, unbox_content(other)))

    def merge_as_union(self, other):
        return _boxc(_lib.L.akp_merge_as_union(self._h, unbox_content(other)))

    def mergemany(self, pyothers):
        if not is_iterable(pyothers):
            raise _badarg("mergemany", pyothers, "Iterable")
        keep = list(pyothers)
        others = [unbox_content(x) for x in keep]
        return _boxc(_lib.L.akp_mergemany(self._h, _lib.cptrs(others), len(others)))

    def axis_wrap_if_negative(self, axis):
        return _lib.okint(_lib.L.akp_axis_wrap_if_negative, self._h, arg_int64(axis, "axis_wrap_if_negative"))

    count = _reducer("count", False)
    count_nonzero = _reducer("count_nonzero", False)
    sum = _reducer("sum", False)
    prod = _reducer("prod", False)
    any = _reducer("any", False)
    all = _reducer("all", False)
    min = _minmax("min")
    max = _minmax("max")
    argmin = _reducer("argmin", True)
    argmax = _reducer("argmax", True)

    def localindex(self, axis=1):
        return _boxc(_lib.L.akp_localindex(self._h, arg_int64(axis, "localindex")))

    def combinations(self, n, replacement=False, keys=None, parameters=None, axis=1):
        n = arg_int64(n, "combinations")
        replacement = arg_bool(replacement, "combinations")
        axis = arg_int64(axis, "combinations")
        ckeys, nkeys = None, 0
        if keys is not None:
            if not is_iterable(keys):
                raise CastError("Unable to cast Python instance to C++ type 'iterable'")
            lookup = [cast_string(x) for x in keys]
            if n != len(lookup):
                raise ValueError("if provided, the length of 'keys' must be 'n'" + _fn(1594))
            ckeys, nkeys = _lib.cstrs(lookup), len(lookup)
        pk, pv, np_ = _params(parameters)
        return _boxc(_lib.L.akp_combinations(self._h, n, int(replacement), ckeys, nkeys, pk, pv, np_, axis))

    def sort(self, axis, ascending, stable):
        return _boxc(_lib.L.akp_sort(self._h, arg_int64(axis, "sort"), int(arg_bool(ascending, "sort")),
                                     int(arg_bool(stable, "sort"))))

    def argsort(self, axis, ascending, stable):
        return _boxc(_lib.L.akp_argsort(self._h, arg_int64(axis, "argsort"), int(arg_bool(ascending, "argsort")),
                                        int(arg_bool(stable, "argsort"))))

    def numbers_to_type(self, name):
        return _boxc(_lib.L.akp_numbers_to_type(self._h, arg_string(name, "numbers_to_type")))

    def is_unique(self):
        return bool(_lib.rc(_lib.L.akp_is_unique(self._h)))

    def copy_to(self, ptr_lib):
        ptr_lib = arg_string(ptr_lib, "copy_to").decode("utf-8")
        if ptr_lib == "cpu":
            return _boxc(_lib.L.akp_copy_to(self._h, 0))
        elif ptr_lib == "cuda":
            return _boxc(_lib.L.akp_copy_to(self._h, 1))
        else:
            raise ValueError("specify 'cpu' or 'cuda'" + _fn(1641))

    def carry(self, carry, allow_lazy):
        return _sharec(_lib.L.akp_carry(self._h, _index.arg(carry, _index.Index64, "carry"),
                                        int(arg_bool(allow_lazy, "carry"))))


def _index_prop(which):
    def getter(self):
        return _index.wrap(_lib.ptr(_lib.L.akp_index_of(self._h, which)))
    return property(getter)


def _content_prop(self):
    return _sharec(_lib.L.akp_content(self._h))


def _flag_prop(which):
    def getter(self):
        return bool(_lib.rc(_lib.L.akp_flag(self._h, which)))
    return property(getter)


def _project(self, mask=None):
    if mask is None:
        return _boxc(_lib.L.akp_project(self._h, None))
    if not isinstance(mask, _index.Index8):
        raise CastError("Unable to cast Python instance to C++ type 'awkward::IndexOf<signed char>'")
    return _boxc(_lib.L.akp_project(self._h, mask._h))


def _bytemask(self):
    return _index.wrap(_lib.ptr(_lib.L.akp_bytemask(self._h)))


def _simplify_option(self):
    return _boxc(_lib.L.akp_simplify_optiontype(self._h))


def _simplify_shallow(self):
    return _boxc(_lib.L.akp_shallow_simplify(self._h))


def _toIndexedOptionArray64(self):
    return _sharec(_lib.L.akp_toIndexedOptionArray64(self._h))


def _toByteMaskedArray(self):
    return _sharec(_lib.L.akp_toByteMaskedArray(self._h))


def _compact_offsets64(self, start_at_zero=True):
    return _index.wrap(_lib.ptr(_lib.L.akp_compact_offsets64(self._h, int(arg_bool(start_at_zero, "compact_offsets64")))))


def _broadcast_tooffsets64(self, offsets):
    return _sharec(_lib.L.akp_broadcast_tooffsets64(self._h, _index.arg(offsets, _index.Index64,
                                                                        "broadcast_tooffsets64")))


def _toListOffsetArray64(self, start_at_zero):
    return _sharec(_lib.L.akp_toListOffsetArray64(self._h, int(arg_bool(start_at_zero, "toListOffsetArray64"))))


def _toRegularArray(self):
    return _sharec(_lib.L.akp_toRegularArray(self._h))


def _ext(cls):
    cls.__module__ = "awkward._ext"
    return cls


# ---------------------------------------------------------------- concrete classes

@_ext
class EmptyArray(_ContentMethods, Content):
    __slots__ = ()

    def __init__(self, identities=None, parameters=None):
        ids = _identities.unbox_none(identities)
        pk, pv, n = _params(parameters)
        self._h = _lib.ptr(_lib.L.akp_empty_new(ids, pk, pv, n))

    def toNumpyArray(self):
        return _boxc(_lib.L.akp_empty_toNumpyArray(self._h))

    simplify = _simplify_shallow


def _make_indexed(name, index_cls, isoption):
    def __init__(self, index, content, identities=None, parameters=None):
        ih = _index.arg(index, index_cls, name)
        ch = unbox_content(content)
        ids = _identities.unbox_none(identities)
        pk, pv, n = _params(parameters)
        self._h = _lib.ptr(_lib.L.akp_indexed_new(ids, pk, pv, n, ih, ch, isoption))

    ns = {"__slots__": (), "__init__": __init__, "__module__": "awkward._ext",
          "index": _index_prop(b"index"), "content": property(_content_prop), "isoption": _flag_prop(b"isoption"),
          "project": _project, "bytemask": _bytemask, "simplify": _simplify_option}
    return type(name, (_ContentMethods, Content), ns)


IndexedArray32 = _make_indexed("IndexedArray32", _index.Index32, 0)
IndexedArrayU32 = _make_indexed("IndexedArrayU32", _index.IndexU32, 0)
IndexedArray64 = _make_indexed("IndexedArray64", _index.Index64, 0)
IndexedOptionArray32 = _make_indexed("IndexedOptionArray32", _index.Index32, 1)
IndexedOptionArray64 = _make_indexed("IndexedOptionArray64", _index.Index64, 1)


@_ext
class ByteMaskedArray(_ContentMethods, Content):
    __slots__ = ()

    def __init__(self, mask, content, valid_when, identities=None, parameters=None):
        mh = _index.arg(mask, _index.Index8, "ByteMaskedArray")
        ch = unbox_content(content)
        valid_when = arg_bool(valid_when, "ByteMaskedArray")
        ids = _identities.unbox_none(identities)
        pk, pv, n = _params(parameters)
        self._h = _lib.ptr(_lib.L.akp_bytemasked_new(ids, pk, pv, n, mh, ch, int(valid_when)))

    mask = _index_prop(b"mask")
    content = property(_content_prop)
    valid_when = _flag_prop(b"valid_when")
    project = _project
    bytemask = _bytemask
    simplify = _simplify_option
    toIndexedOptionArray64 = _toIndexedOptionArray64


@_ext
class BitMaskedArray(_ContentMethods, Content):
    __slots__ = ()

    def __init__(self, mask, content, valid_when, length, lsb_order, identities=None, parameters=None):
        mh = _index.arg(mask, _index.IndexU8, "BitMaskedArray")
        ch = unbox_content(content)
        valid_when = arg_bool(valid_when, "BitMaskedArray")
        length = arg_int64(length, "BitMaskedArray")
        lsb_order = arg_bool(lsb_order, "BitMaskedArray")
        ids = _identities.unbox_none(identities)
        pk, pv, n = _params(parameters)
        self._h = _lib.ptr(_lib.L.akp_bitmasked_new(ids, pk, pv, n, mh, ch, int(valid_when), length, int(lsb_order)))

    mask = _index_prop(b"mask")
    content = property(_content_prop)
    valid_when = _flag_prop(b"valid_when")
    lsb_order = _flag_prop(b"lsb_order")
    project = _project
    bytemask = _bytemask
    simplify = _simplify_option
    toByteMaskedArray = _toByteMaskedArray
    toIndexedOptionArray64 = _toIndexedOptionArray64


@_ext
class UnmaskedArray(_ContentMethods, Content):
    __slots__ = ()

    def __init__(self, content, identities=None, parameters=None):
        ch = unbox_content(content)
        ids = _identities.unbox_none(identities)
        pk, pv, n = _params(parameters)
        self._h = _lib.ptr(_lib.L.akp_unmasked_new(ids, pk, pv, n, ch))

    content = property(_content_prop)
    project = _project
    bytemask = _bytemask
    simplify = _simplify_option
    toByteMaskedArray = _toByteMaskedArray
    toIndexedOptionArray64 = _toIndexedOptionArray64


def _make_list(name, index_cls):
    def __init__(self, starts, stops, content, identities=None, parameters=None):
        sh = _index.arg(starts, index_cls, name)
        th = _index.arg(stops, index_cls, name)
        ids = _identities.unbox_none(identities)
        pk, pv, n = _params(parameters)
        ch = unbox_content(content)
        self._h = _lib.ptr(_lib.L.akp_list_new(ids, pk, pv, n, sh, th, ch))

    ns = {"__slots__": (), "__init__": __init__, "__module__": "awkward._ext",
          "starts": _index_prop(b"starts"), "stops": _index_prop(b"stops"), "content": property(_content_prop),
          "compact_offsets64": _compact_offsets64, "broadcast_tooffsets64": _broadcast_tooffsets64,
          "toListOffsetArray64": _toListOffsetArray64, "toRegularArray": _toRegularArray,
          "simplify": _simplify_shallow}
    return type(name, (_ContentMethods, Content), ns)


ListArray32 = _make_list("ListArray32", _index.Index32)
ListArrayU32 = _make_list("ListArrayU32", _index.IndexU32)
ListArray64 = _make_list("ListArray64", _index.Index64)


def _make_listoffset(name, index_cls):
    def __init__(self, offsets, content, identities=None, parameters=None):
        oh = _index.arg(offsets, index_cls, name)
        ids = _identities.unbox_none(identities)
        pk, pv, n = _params(parameters)
        ch = unbox_content(content)
        self._h = _lib.ptr(_lib.L.akp_listoffset_new(ids, pk, pv, n, oh, ch))

    ns = {"__slots__": (), "__init__": __init__, "__module__": "awkward._ext",
          "starts": _index_prop(b"starts"), "stops": _index_prop(b"stops"), "offsets": _index_prop(b"offsets"),
          "content": property(_content_prop),
          "compact_offsets64": _compact_offsets64, "broadcast_tooffsets64": _broadcast_tooffsets64,
          "toListOffsetArray64": _toListOffsetArray64, "toRegularArray": _toRegularArray,
          "simplify": _simplify_shallow}
    return type(name, (_ContentMethods, Content), ns)


ListOffsetArray32 = _make_listoffset("ListOffsetArray32", _index.Index32)
ListOffsetArrayU32 = _make_listoffset("ListOffsetArrayU32", _index.IndexU32)
ListOffsetArray64 = _make_listoffset("ListOffsetArray64", _index.Index64)


def _dtype_str_to_format(dtype):
    """dtype_to_format(name_to_dtype(str(dtype)))"""
    L = _lib.L
    dt = _lib.rc(L.akp_name_to_dtype(_lib.cstr(str(dtype))))
    return _lib.string(L.akp_dtype_to_format(dt, b""))


def _pydtype(obj):
    """py::dtype(obj): a converting constructor that only accepts numpy.dtype instances"""
    if not isinstance(obj, numpy.dtype):
        raise TypeError("Object of type '%s' is not an instance of 'dtype'" % type(obj).__name__)
    return obj


@_ext
class NumpyArray(_ContentMethods, Content):
    __slots__ = ()

    def __init__(self, array, identities=None, parameters=None):
        anyarray = array
        name = "NumpyArray"
        L = _lib.L
        module = type(anyarray).__module__
        if module.startswith("cupy."):
            raise ValueError(name + ".from_cupy() can only accept CuPy Arrays!" + _fn(2168))
        elif module.startswith("jax."):
            self._h = NumpyArray._from_jax_handle(anyarray, identities, parameters)
            return
        elif hasattr(anyarray, "dtype") and str(_pydtype(anyarray.dtype)) != "":
            data_type = _dtype_str_to_format(_pydtype(anyarray.dtype))
            if data_type == "M" or data_type == "m":
                self._h = NumpyArray._from_datetime_handle(anyarray, identities, parameters)
                return

        array = _as_pyarray(anyarray)

        if not hasattr(type(anyarray), "__buffer__"):
            # !PyObject_CheckBuffer(anyarray): anyarray does not support buffer protocol
            if hasattr(array, "dtype") and str(_pydtype(array.dtype)) != "":
                data_type = _dtype_str_to_format(_pydtype(array.dtype))
                if data_type == "M" or data_type == "m":
                    # it's a datetime or timedelta
                    self._h = NumpyArray._from_datetime_handle(array, identities, parameters)
                    return

        if array.dtype.kind in "Mm":
            # array.request(): NumPy does not export datetime64/timedelta64 through PEP 3118
            raise ValueError("cannot include dtype '%s' in a buffer" % array.dtype.char)
        info = memoryview(array)
        if info.ndim == 0:
            raise ValueError("NumpyArray must not be scalar; try array.reshape(1)" + _fn(2309))
        shape = list(info.shape)
        strides = list(info.strides)
        if len(shape) != info.ndim or len(strides) != info.ndim:
            raise ValueError("NumpyArray len(shape) != ndim or len(strides) != ndim" + _fn(2315))
        ids = _identities.unbox_none(identities)
        pk, pv, n = _params(parameters)
        fmt = _lib.cstr(info.format)
        dt = _lib.rc(L.akp_format_to_dtype(fmt, info.itemsize))
        self._h = _lib.ptr(L.akp_numpy_wrap(ids, pk, pv, n, array.ctypes.data, info.ndim, _lib.ci64s(shape),
                                            _lib.ci64s(strides), info.itemsize, fmt, dt, id(array)))

    @staticmethod
    def _from_datetime_handle(array, identities, parameters):
        L = _lib.L
        shape = [arg_int64(x) for x in array.shape]
        strides = [arg_int64(x) for x in array.strides]
        ptr = arg_int64(array.ctypes.data)
        dtype = _lib.rc(L.akp_name_to_dtype(_lib.cstr(str(_pydtype(array.dtype)))))
        ids = _identities.unbox_none(identities)
        pk, pv, n = _params(parameters)
        itemsize = _pydtype(array.dtype).itemsize
        # format string from a dtype, start from 1 to remove endianness
        fmt = _lib.cstr(str(array.dtype.str)[1:])
        return _lib.ptr(L.akp_numpy_wrap(ids, pk, pv, n, ptr, len(shape), _lib.ci64s(shape), _lib.ci64s(strides),
                                         itemsize, fmt, dtype, id(array)))

    @staticmethod
    def _from_jax_handle(array, identities, parameters):
        L = _lib.L
        name = "NumpyArray"
        device = array.device_buffer.device().platform
        if device == "cpu":
            jax_array = _as_pyarray(array)
            info = memoryview(jax_array)
            if info.ndim == 0:
                raise ValueError("JaxNumpyArray must not be scalar; try array.reshape(1)" + _fn(2187))
            ids = _identities.unbox_none(identities)
            pk, pv, n = _params(parameters)
            fmt = _lib.cstr(info.format)
            dt = _lib.rc(L.akp_format_to_dtype(fmt, info.itemsize))
            return _lib.ptr(L.akp_numpy_wrap(ids, pk, pv, n, jax_array.ctypes.data, info.ndim,
                                             _lib.ci64s(list(info.shape)), _lib.ci64s(list(info.strides)),
                                             info.itemsize, fmt, dt, id(jax_array)))
        elif device == "gpu":
            raise ValueError(name + ".from_jax() needs a __cuda_array_interface__ dict of the given array, to "
                             "accept JAX GPU buffers" + _fn(2219))
        else:
            raise ValueError("Awkward Arrays don't support " + str(device) + _fn(2224))

    # ---- buffer protocol
    def _info(self):
        data, base, byteoffset, itemsize = c_void_p(), c_void_p(), c_int64(), c_int64()
        dtype, ndim, lib = c_int(), c_int(), c_int()
        _lib.rc(_lib.L.akp_numpy_info(self._h, byref(data), byref(base), byref(byteoffset), byref(itemsize),
                                      byref(dtype), byref(ndim), byref(lib)))
        fmt = _lib.curstr()
        both = _lib.ints()
        nd = ndim.value
        return {"data": data.value or 0, "base": base.value or 0, "byteoffset": byteoffset.value,
                "itemsize": itemsize.value, "dtype": dtype.value, "ndim": nd, "ptr_lib": lib.value,
                "format": fmt, "shape": both[:nd], "strides": both[nd:]}

    def _view(self, own=True):
        info = self._info()
        dt = _mem.dtype_from_format(info["format"])
        if dt.itemsize != info["itemsize"]:
            raise ValueError("akext: buffer format %r does not match itemsize %d" % (info["format"], info["itemsize"]))
        return _mem.view(self if own else None, info["data"], info["shape"], info["strides"], dt)

    def __buffer__(self, flags):
        return memoryview(self._view(False))

    shape = property(lambda self: self._info()["shape"])
    strides = property(lambda self: self._info()["strides"])
    itemsize = property(lambda self: self._info()["itemsize"])
    format = property(lambda self: _lib.string(_lib.L.akp_numpy_format(self._h)))
    ndim = property(lambda self: self._info()["ndim"])
    isscalar = property(lambda self: bool(_lib.rc(_lib.L.akp_isscalar(self._h))))
    isempty = property(lambda self: bool(_lib.rc(_lib.L.akp_numpy_isempty(self._h))))
    toRegularArray = _toRegularArray
    ptr = property(lambda self: self._info()["base"])

    @property
    def ptr_lib(self):
        lib = self._info()["ptr_lib"]
        if lib == 0:
            return "cpu"
        elif lib == 1:
            return "cuda"
        raise RuntimeError("unrecognized ptr_lib" + _fn(2356))

    iscontiguous = property(lambda self: bool(_lib.rc(_lib.L.akp_numpy_iscontiguous(self._h))))

    def contiguous(self):
        return _new(NumpyArray, _lib.ptr(_lib.L.akp_numpy_contiguous(self._h)))

    simplify = _simplify_shallow

    @staticmethod
    def from_cupy(array, identities=None, parameters=None):
        raise ValueError("NumpyArray.from_cupy() can only accept CuPy Arrays!" + _fn(2168))

    @staticmethod
    def from_jax(array, identities=None, parameters=None):
        h = NumpyArray._from_jax_handle(array, identities, parameters)
        return _box(h)

    def to_cupy(self):
        if self.ptr_lib != "cuda":
            raise ValueError("NumpyArray resides in main memory, must be converted to NumPy or copied to the GPU "
                             "with ak.copy_to(array, \"cuda\") first" + _fn(2389))
        raise NotImplementedError("akext: CUDA is not available in this sandbox")

    def to_jax(self):
        import jax.dlpack
        return jax.dlpack.from_dlpack(self._view())

    @property
    def view_int64(self):
        return _new(NumpyArray, _lib.ptr(_lib.L.akp_numpy_view_int64(self._h)))


def _record_field(self, *args):
    if len(args) != 1:
        raise TypeError("field(): incompatible function arguments")
    x = args[0]
    if isinstance(x, (str, bytes)):
        return _lib.ptr(_lib.L.akp_field_key(self._h, arg_string(x, "field")))
    return _lib.ptr(_lib.L.akp_field_at(self._h, arg_int64(x, "field")))


def _fields(self):
    _lib.rc(_lib.L.akp_fields(self._h))
    return [_box(p) for p in _lib.ptrs()]


def _fielditems(self):
    _lib.rc(_lib.L.akp_fielditems(self._h))
    keys, ps = _lib.strs(), _lib.ptrs()
    return [(k, _box(p)) for k, p in zip(keys, ps)]


def _astuple(self):
    return _boxc(_lib.L.akp_astuple(self._h))


@no_pickle
@_ext
class Record(object, metaclass=_Registered):
    """awkward._ext.Record (not a Content subclass in Python)"""
    __slots__ = ("_h", "__weakref__")

    def __init__(self, array, at):
        if not isinstance(array, RecordArray):
            raise _badarg("Record", array, "awkward._ext.RecordArray")
        self._h = _lib.ptr(_lib.L.akp_record_new(array._h, arg_int64(at, "Record")))

    def __del__(self):
        h = getattr(self, "_h", None)
        if h:
            self._h = None
            _free(h)

    def __repr__(self):
        return _lib.string(_lib.L.akp_tostring(self._h))

    @property
    def identities(self):
        ok = c_int(0)
        ih = _lib.L.akp_identities(self._h, byref(ok))
        if not ok.value:
            _lib.raise_error()
        return _identities.box(ih)

    def __getitem__(self, obj):
        L = _lib.L
        return _getitem(self, obj, L.akp_getitem_at, L.akp_getitem_range, L.akp_getitem_field, L.akp_getitem_fields,
                        L.akp_getitem)

    type = _ContentMethods.type
    parameters = _ContentMethods.parameters
    setparameter = _ContentMethods.setparameter
    parameter = _ContentMethods.parameter
    purelist_parameter = _ContentMethods.purelist_parameter
    kernels = property(_kernels)
    caches = property(_caches)

    def tojson(self, *args, **kwargs):
        return _tojson(self._h, args, kwargs, "Record")

    @property
    def array(self):
        return _sharec(_lib.L.akp_record_array(self._h))

    @property
    def at(self):
        return _lib.okint(_lib.L.akp_record_at, self._h)

    istuple = _flag_prop(b"istuple")
    numfields = _ContentMethods.numfields
    fieldindex = _ContentMethods.fieldindex
    key = _ContentMethods.key
    haskey = _ContentMethods.haskey
    keys = _ContentMethods.keys

    def field(self, *args):
        return _box(_record_field(self, *args))

    fields = _fields
    fielditems = _fielditems
    astuple = property(_astuple)

    def deep_copy(self, copyarrays=True, copyindexes=True, copyidentities=True):
        return _sharec(_lib.L.akp_deep_copy(self._h, int(arg_bool(copyarrays, "deep_copy")),
                                            int(arg_bool(copyindexes, "deep_copy")),
                                            int(arg_bool(copyidentities, "deep_copy"))))

    identity = property(_identity)
    simplify = _simplify_shallow
    copy_to = _ContentMethods.copy_to


def _iterable_to_RecordArray(contents, keys, length, identities, parameters):
    out = [x for x in contents]
    handles = [unbox_content(x) for x in out]
    ckeys = None
    if keys is not None:
        if not is_iterable(keys):
            raise CastError("Unable to cast Python instance to C++ type 'iterable'")
        lookup = [cast_string(x) for x in keys]
        if len(handles) != len(lookup):
            raise ValueError("if provided, 'keys' must have the same length as 'types'" + _fn(2624))
        ckeys = _lib.cstrs(lookup)
    ids = _identities.unbox_none(identities)
    pk, pv, n = _params(parameters)
    if length is None:
        return _lib.ptr(_lib.L.akp_record_array_new(ids, pk, pv, n, _lib.cptrs(handles), len(handles), ckeys, 0, 0))
    else:
        intlength = cast_int64(length)
        return _lib.ptr(_lib.L.akp_record_array_new(ids, pk, pv, n, _lib.cptrs(handles), len(handles), ckeys, 1,
                                                    intlength))


@_ext
class RecordArray(_ContentMethods, Content):
    __slots__ = ()

    def __init__(self, contents, *args, **kwargs):
        # overload 1: (contents: dict, length=None, identities=None, parameters=None)
        # overload 2: (contents: Iterable, keys=None, length=None, identities=None, parameters=None)
        if isinstance(contents, dict):
            names = ["length", "identities", "parameters"]
            bound = self._bind(names, args, kwargs)
            if bound is not None:
                lookup, handles = [], []
                for k, v in contents.items():
                    lookup.append(cast_string(k))
                    handles.append(unbox_content(v))
                ids = _identities.unbox_none(bound["identities"])
                pk, pv, n = _params(bound["parameters"])
                length = bound["length"]
                if length is None:
                    self._h = _lib.ptr(_lib.L.akp_record_array_new(ids, pk, pv, n, _lib.cptrs(handles), len(handles),
                                                                   _lib.cstrs(lookup), 0, 0))
                else:
                    self._h = _lib.ptr(_lib.L.akp_record_array_new(ids, pk, pv, n, _lib.cptrs(handles), len(handles),
                                                                   _lib.cstrs(lookup), 1, cast_int64(length)))
                return
        if is_iterable(contents):
            names = ["keys", "length", "identities", "parameters"]
            bound = self._bind(names, args, kwargs)
            if bound is not None:
                self._h = _iterable_to_RecordArray(contents, bound["keys"], bound["length"], bound["identities"],
                                                   bound["parameters"])
                return
        raise TypeError("RecordArray.__init__(): incompatible constructor arguments")

    @staticmethod
    def _bind(names, args, kwargs):
        if len(args) > len(names):
            return None
        bound = dict((n, None) for n in names)
        for n, a in zip(names, args):
            bound[n] = a
        for k, v in kwargs.items():
            if k not in names or k in names[:len(args)]:
                return None
            bound[k] = v
        return bound

    @property
    def recordlookup(self):
        if _lib.rc(_lib.L.akp_recordlookup(self._h)) == 0:
            return None
        return _lib.strs()

    istuple = _flag_prop(b"istuple")

    @property
    def contents(self):
        _lib.rc(_lib.L.akp_contents(self._h))
        return [_share(p) for p in _lib.ptrs()]

    def setitem_field(self, where, what):
        mywhat = unbox_content(what)
        if where is None:
            return _boxc(_lib.L.akp_setitem_field_at(self._h, 0, 1, mywhat))
        else:
            if isinstance(where, (str, bytes)):
                return _boxc(_lib.L.akp_setitem_field_key(self._h, cast_string(where), mywhat))
            try:
                mywhere = cast_int64(where)
            except CastError:
                raise ValueError("where must be None, int, or str" + _fn(2726))
            return _boxc(_lib.L.akp_setitem_field_at(self._h, mywhere, 0, mywhat))

    def field(self, *args):
        return _share(_record_field(self, *args))

    fields = _fields
    fielditems = _fielditems
    astuple = property(_astuple)
    simplify = _simplify_shallow


@_ext
class RegularArray(_ContentMethods, Content):
    __slots__ = ()

    def __init__(self, content, size, zeros_length=0, identities=None, parameters=None):
        size = arg_int64(size, "RegularArray")
        zeros_length = arg_int64(zeros_length, "RegularArray")
        ids = _identities.unbox_none(identities)
        pk, pv, n = _params(parameters)
        ch = unbox_content(content)
        self._h = _lib.ptr(_lib.L.akp_regular_new(ids, pk, pv, n, ch, size, zeros_length))

    size = property(lambda self: _lib.okint(_lib.L.akp_regular_size, self._h))
    content = property(_content_prop)
    compact_offsets64 = _compact_offsets64
    broadcast_tooffsets64 = _broadcast_tooffsets64
    toListOffsetArray64 = _toListOffsetArray64
    toRegularArray = _toRegularArray
    simplify = _simplify_shallow


def _make_union(name, index_cls, ikind):
    def __init__(self, tags, index, contents, identities=None, parameters=None):
        th = _index.arg(tags, _index.Index8, name)
        ih = _index.arg(index, index_cls, name)
        if not is_iterable(contents):
            raise _badarg(name, contents, "Iterable")
        keep = [x for x in contents]
        handles = [unbox_content(x) for x in keep]
        ids = _identities.unbox_none(identities)
        pk, pv, n = _params(parameters)
        self._h = _lib.ptr(_lib.L.akp_union_new(ids, pk, pv, n, th, ih, _lib.cptrs(handles), len(handles)))

    def sparse_index(len):
        return _index.wrap(_lib.ptr(_lib.L.akp_union_sparse_index(ikind, arg_int64(len, "sparse_index"))))

    def regular_index(tags):
        return _index.wrap(_lib.ptr(_lib.L.akp_union_regular_index(ikind, _index.arg(tags, _index.Index8,
                                                                                   "regular_index"))))

    def nested_tags_index(offsets, counts):
        oh = _index.arg(offsets, _index.Index64, "nested_tags_index")
        if isinstance(counts, (str, bytes)) or not hasattr(counts, "__len__") or not hasattr(counts, "__getitem__"):
            raise _badarg("nested_tags_index", counts, "List[Index64]")
        keep = list(counts)
        chs = [_index.arg(c, _index.Index64, "nested_tags_index") for c in keep]
        out = c_void_p()
        tags = _lib.ptr(_lib.L.akp_union_nested_tags_index(ikind, oh, _lib.cptrs(chs), len(chs), byref(out)))
        return (_index.wrap(tags), _index.wrap(out.value))

    def contents(self):
        _lib.rc(_lib.L.akp_contents(self._h))
        return [_share(p) for p in _lib.ptrs()]

    def content(self, index):
        return _sharec(_lib.L.akp_union_content(self._h, arg_int64(index, "content")))

    def project(self, index):
        return _sharec(_lib.L.akp_union_project(self._h, arg_int64(index, "project")))

    def simplify(self, merge=True, mergebool=False):
        return _boxc(_lib.L.akp_simplify_uniontype(self._h, int(arg_bool(merge, "simplify")),
                                                   int(arg_bool(mergebool, "simplify"))))

    ns = {"__slots__": (), "__init__": __init__, "__module__": "awkward._ext",
          "sparse_index": staticmethod(sparse_index), "regular_index": staticmethod(regular_index),
          "nested_tags_index": staticmethod(nested_tags_index),
          "tags": _index_prop(b"tags"), "index": _index_prop(b"index"), "contents": property(contents),
          "numcontents": property(lambda self: _lib.okint(_lib.L.akp_union_numcontents, self._h)),
          "content": content, "project": project, "simplify": simplify}
    return type(name, (_ContentMethods, Content), ns)


UnionArray8_32 = _make_union("UnionArray8_32", _index.Index32, 2)
UnionArray8_U32 = _make_union("UnionArray8_U32", _index.IndexU32, 3)
UnionArray8_64 = _make_union("UnionArray8_64", _index.Index64, 4)


@_ext
class VirtualArray(_ContentMethods, Content):
    __slots__ = ()

    def __init__(self, generator, cache=None, cache_key=None, identities=None, parameters=None):
        from akext import virtual
        self._h = virtual.virtualarray_new(generator, cache, cache_key, identities, parameters)

    @property
    def generator(self):
        from akext import virtual
        return virtual.virtualarray_generator(self._h)

    @property
    def cache(self):
        from akext import virtual
        return virtual.virtualarray_cache(self._h)

    @property
    def peek_array(self):
        from akext import virtual
        p = virtual.virtualarray_peek_array(self._h)
        if not p:
            return None
        return _box(p)

    @property
    def array(self):
        from akext import virtual
        return _box(virtual.virtualarray_array(self._h))

    def _array_shared(self):
        """raw->array() for toslice_part: an object owning the materialized ContentPtr"""
        from akext import virtual
        return _Unboxed(virtual.virtualarray_array(self._h))

    @property
    def cache_key(self):
        from akext import virtual
        return virtual.virtualarray_cache_key(self._h)

    @property
    def ptr_lib(self):
        from akext import virtual
        lib = virtual.virtualarray_ptr_lib(self._h)
        if lib == 0:
            return "cpu"
        elif lib == 1:
            return "cuda"
        raise RuntimeError("unrecognized ptr_lib" + _fn(2999))


for _cid, _cls in [(1, Record), (2, NumpyArray), (3, EmptyArray), (4, IndexedArray32), (5, IndexedArrayU32),
                   (6, IndexedArray64), (7, IndexedOptionArray32), (8, IndexedOptionArray64), (9, ByteMaskedArray),
                   (10, BitMaskedArray), (11, UnmaskedArray), (12, ListArray32), (13, ListArrayU32),
                   (14, ListArray64), (15, ListOffsetArray32), (16, ListOffsetArrayU32), (17, ListOffsetArray64),
                   (18, RecordArray), (19, RegularArray), (20, UnionArray8_32), (21, UnionArray8_U32),
                   (22, UnionArray8_64), (23, VirtualArray)]:
    CLASS_BY_ID[_cid] = _cls
Content.__module__ = "awkward._ext"


# ---------------------------------------------------------------- Iterator, _PersistentSharedPtr

@no_pickle
@_ext
class Iterator(object):
    __slots__ = ("_h", "__weakref__")

    def __init__(self, content):
        self._h = _lib.ptr(_lib.L.akp_iter_new(unbox_content(content), 1))

    @classmethod
    def _from(cls, content_handle, unbox):
        self = object.__new__(cls)
        self._h = _lib.ptr(_lib.L.akp_iter_new(content_handle, 1 if unbox else 0))
        return self

    def __del__(self):
        h = getattr(self, "_h", None)
        if h and _lib.L is not None:
            self._h = None
            _lib.L.akp_iter_free(h)

    def __repr__(self):
        return _lib.string(_lib.L.akp_iter_tostring(self._h))

    def __next__(self):
        if _lib.rc(_lib.L.akp_iter_isdone(self._h)):
            raise StopIteration
        return _boxc(_lib.L.akp_iter_next(self._h))

    next = __next__

    def __iter__(self):
        return self


@no_pickle
@_ext
class _PersistentSharedPtr(object):
    """holds one more std::shared_ptr<Content> to the node; ptr() is the address of that shared_ptr"""
    __slots__ = ("_h", "__weakref__")

    def __init__(self, *args, **kwargs):
        raise TypeError("awkward._ext._PersistentSharedPtr: No constructor defined!")

    @classmethod
    def _from(cls, content_handle):
        self = object.__new__(cls)
        self._h = _lib.L.akp_share(content_handle)
        return self

    def __del__(self):
        h = getattr(self, "_h", None)
        if h:
            self._h = None
            _free(h)

    def layout(self):
        return _box(_lib.L.akp_share(self._h))

    def ptr(self):
        return self._h


# ---------------------------------------------------------------- ArrayBuilder

def _builder_datetime(self, obj, name, bridge_fn):
    if isinstance(obj, str):
        date_time = getattr(numpy, name)(obj)
        ptr = date_time.astype(numpy.int64)
        units = cast_string(str(numpy.dtype(date_time)))
        _lib.rc(bridge_fn(self._h, cast_int64(ptr), units))
    elif isinstance(obj, getattr(numpy, name)):
        ptr = obj.astype(numpy.int64)
        _lib.rc(bridge_fn(self._h, cast_int64(ptr), cast_string(str(obj.dtype))))
    else:
        raise ValueError("cannot convert " + repr(obj) + " (type " + type(obj).__name__ + ") to an array element"
                         + _fn(850 if name == "datetime64" else 871))


@no_pickle
@_ext
class ArrayBuilder(object):
    __slots__ = ("_h", "__weakref__")

    def __init__(self, initial=1024, resize=1.5):
        initial = arg_int64(initial, "ArrayBuilder")
        resize = arg_double(resize, "ArrayBuilder")
        p = _lib.L.akb_builder_new(initial, resize)
        if not p:
            _lib.raise_error()
        self._h = p

    def __del__(self):
        h = getattr(self, "_h", None)
        if h and _lib.L is not None:
            self._h = None
            _lib.L.akb_builder_free(h)

    @property
    def _ptr(self):
        return _lib.L.akb_builder_raw(self._h)

    def __repr__(self):
        return _lib.string(_lib.L.akp_builder_tostring(self._h))

    def __len__(self):
        n = _lib.L.akb_builder_length(self._h)
        if n < 0 and _lib.failed():
            _lib.raise_error()
        return n

    def clear(self):
        _lib.rc(_lib.L.akb_builder_clear(self._h))

    def type(self, typestrs):
        from akext import aktypes as types
        ks, vs = typestrs_arg(typestrs, "type")
        return types.share(_lib.ptr(_lib.L.akp_builder_type(self._h, _lib.cstrs(ks), _lib.cstrs(vs), len(ks))))

    def snapshot(self):
        return _boxc(_lib.L.akb_builder_snapshot(self._h))

    def __getitem__(self, obj):
        L = _lib.L
        return _getitem(self, obj, L.akp_builder_getitem_at, L.akp_builder_getitem_range, L.akp_builder_getitem_field,
                        L.akp_builder_getitem_fields, L.akp_builder_getitem)

    def __iter__(self):
        snap = _lib.ptr(_lib.L.akb_builder_snapshot(self._h))
        try:
            return Iterator._from(snap, False)
        finally:
            _free(snap)

    def null(self):
        _lib.rc(_lib.L.akb_builder_null(self._h))

    def boolean(self, x):
        _lib.rc(_lib.L.akb_builder_boolean(self._h, int(arg_bool(x, "boolean"))))

    def integer(self, x):
        _lib.rc(_lib.L.akb_builder_integer(self._h, arg_int64(x, "integer")))

    def real(self, x):
        _lib.rc(_lib.L.akb_builder_real(self._h, arg_double(x, "real")))

    def complex(self, x):
        from akext._util import arg_complex
        z = arg_complex(x, "complex")
        _lib.rc(_lib.L.akb_builder_complex(self._h, z.real, z.imag))

    def datetime(self, obj):
        _builder_datetime(self, obj, "datetime64", _lib.L.akb_builder_datetime)

    def timedelta(self, obj):
        _builder_datetime(self, obj, "timedelta64", _lib.L.akb_builder_timedelta)

    def bytestring(self, x):
        if not isinstance(x, bytes):
            raise _badarg("bytestring", x, "bytes")
        _lib.rc(_lib.L.akb_builder_bytestring(self._h, x, len(x)))

    def string(self, x):
        if not isinstance(x, str):
            raise _badarg("string", x, "str")
        raw = cast_string(x)
        _lib.rc(_lib.L.akb_builder_string(self._h, raw, len(raw)))

    def beginlist(self):
        _lib.rc(_lib.L.akb_builder_beginlist(self._h))

    def endlist(self):
        _lib.rc(_lib.L.akb_builder_endlist(self._h))

    def begintuple(self, numfields):
        _lib.rc(_lib.L.akb_builder_begintuple(self._h, arg_int64(numfields, "begintuple")))

    def index(self, index):
        _lib.rc(_lib.L.akb_builder_index(self._h, arg_int64(index, "index")))

    def endtuple(self):
        _lib.rc(_lib.L.akb_builder_endtuple(self._h))

    def beginrecord(self, name=None):
        if name is None:
            _lib.rc(_lib.L.akb_builder_beginrecord(self._h, None))
        else:
            _lib.rc(_lib.L.akb_builder_beginrecord(self._h, cast_string(name)))

    def field(self, x):
        _lib.rc(_lib.L.akb_builder_field(self._h, arg_string(x, "field")))

    def endrecord(self):
        _lib.rc(_lib.L.akb_builder_endrecord(self._h))

    def append(self, array, at):
        _lib.rc(_lib.L.akb_builder_append(self._h, _content_arg(array, "append"), arg_int64(at, "append")))

    def extend(self, array):
        _lib.rc(_lib.L.akb_builder_extend(self._h, _content_arg(array, "extend")))

    def fromiter(self, obj):
        _builder_fromiter(self, obj)


def _builder_fromiter(self, obj):
    """builder_fromiter of content.cpp, branch for branch"""
    L, h = _lib.L, self._h
    if obj is None:
        _lib.rc(L.akb_builder_null(h))
    elif isinstance(obj, bool):
        _lib.rc(L.akb_builder_boolean(h, int(obj)))
    elif isinstance(obj, int):
        _lib.rc(L.akb_builder_integer(h, cast_int64(obj)))
    elif isinstance(obj, float):
        _lib.rc(L.akb_builder_real(h, float(obj)))
    elif isinstance(obj, complex):
        _lib.rc(L.akb_builder_complex(h, obj.real, obj.imag))
    elif isinstance(obj, bytes):
        _lib.rc(L.akb_builder_bytestring(h, obj, len(obj)))
    elif isinstance(obj, str):
        raw = cast_string(obj)
        _lib.rc(L.akb_builder_string(h, raw, len(raw)))
    elif isinstance(obj, tuple):
        _lib.rc(L.akb_builder_begintuple(h, len(obj)))
        for i in range(len(obj)):
            _lib.rc(L.akb_builder_index(h, i))
            _builder_fromiter(self, obj[i])
        _lib.rc(L.akb_builder_endtuple(h))
    elif isinstance(obj, dict):
        _lib.rc(L.akb_builder_beginrecord(h, None))
        for k, v in obj.items():
            if not isinstance(k, str):
                raise ValueError("keys of dicts in 'fromiter' must all be strings" + _fn(914))
            _lib.rc(L.akb_builder_field(h, cast_string(k)))
            _builder_fromiter(self, v)
        _lib.rc(L.akb_builder_endrecord(h))
    elif is_iterable(obj):
        _lib.rc(L.akb_builder_beginlist(h))
        for x in obj:
            _builder_fromiter(self, x)
        _lib.rc(L.akb_builder_endlist(h))
    elif isinstance(obj, numpy.ndarray):
        _builder_fromiter(self, obj.tolist())
    elif isinstance(obj, numpy.datetime64):
        _builder_datetime(self, obj, "datetime64", L.akb_builder_datetime)
    elif isinstance(obj, numpy.timedelta64):
        _builder_datetime(self, obj, "timedelta64", L.akb_builder_timedelta)
    elif isinstance(obj, numpy.bool_):
        _lib.rc(L.akb_builder_boolean(h, int(bool(obj))))
    elif isinstance(obj, numpy.integer):
        _lib.rc(L.akb_builder_integer(h, cast_int64(obj)))
    elif isinstance(obj, numpy.floating):
        _lib.rc(L.akb_builder_real(h, cast_double(obj)))
    else:
        raise ValueError("cannot convert " + repr(obj) + " (type " + type(obj).__name__ + ") to an array element"
                         + _fn(954))
