"""ctypes access to the lane P section of libakbridge.so (bridge/akbridge_p*.cpp).

The library is opened with ctypes.PyDLL: like pybind11, calls keep the GIL, so the C++ deleters that
release Python-owned buffers (and the generator/cache callbacks of virtual arrays) can run at any point
inside a call.  `init(builddir)` must be called once (vlib/lanep.py does it) before any class is used.
"""
from __future__ import absolute_import

import atexit
import ctypes
import os
from ctypes import c_void_p, c_char_p, c_int, c_int64, c_uint64, c_double, POINTER

from akext._sigs import SIGS

L = None            # the PyDLL
builddir = None

_CODES = {
    "None": None, "vp": c_void_p, "pvp": POINTER(c_void_p), "cp": c_char_p, "pcp": POINTER(c_char_p),
    "i": c_int, "pi": POINTER(c_int), "i64": c_int64, "pi64": POINTER(c_int64), "u64": c_uint64,
    "pu64": POINTER(c_uint64), "d": c_double, "pd": POINTER(c_double),
}

# functions of the existing bridge sections that akext reuses (declared here for the PyDLL handle)
_REUSED = {
    "akb_error": ("cp", []), "akb_error_kind": ("i", []), "akb_clear_error": ("None", []),
    "akb_str_len": ("i64", []), "akb_str_ptr": ("vp", []),
    "akb_free": ("None", ["vp"]), "akb_index_free": ("None", ["vp"]),
    "akb_index_kind": ("i", ["vp"]),
    "akb_builder_new": ("vp", ["i64", "d"]), "akb_builder_free": ("None", ["vp"]), "akb_builder_raw": ("vp", ["vp"]),
    "akb_builder_length": ("i64", ["vp"]), "akb_builder_clear": ("i", ["vp"]), "akb_builder_null": ("i", ["vp"]),
    "akb_builder_boolean": ("i", ["vp", "i"]), "akb_builder_integer": ("i", ["vp", "i64"]),
    "akb_builder_real": ("i", ["vp", "d"]), "akb_builder_complex": ("i", ["vp", "d", "d"]),
    "akb_builder_datetime": ("i", ["vp", "i64", "cp"]), "akb_builder_timedelta": ("i", ["vp", "i64", "cp"]),
    "akb_builder_string": ("i", ["vp", "cp", "i64"]), "akb_builder_bytestring": ("i", ["vp", "cp", "i64"]),
    "akb_builder_beginlist": ("i", ["vp"]), "akb_builder_endlist": ("i", ["vp"]),
    "akb_builder_begintuple": ("i", ["vp", "i64"]), "akb_builder_index": ("i", ["vp", "i64"]),
    "akb_builder_endtuple": ("i", ["vp"]), "akb_builder_beginrecord": ("i", ["vp", "cp"]),
    "akb_builder_field": ("i", ["vp", "cp"]), "akb_builder_endrecord": ("i", ["vp"]),
    "akb_builder_append": ("i", ["vp", "vp", "i64"]), "akb_builder_extend": ("i", ["vp", "vp"]),
    "akb_builder_snapshot": ("vp", ["vp"]),
}

MISSING = []        # bridge functions named in SIGS that the loaded library does not export


def init(build_dir):
    """load libakbridge.so from a vbuild output directory (idempotent for the same directory)"""
    global L, builddir
    if L is not None:
        if os.path.realpath(build_dir) != os.path.realpath(builddir):
            raise RuntimeError("akext is already bound to %s" % builddir)
        return L
    path = os.path.join(build_dir, "libakbridge.so")
    lib = ctypes.PyDLL(path, mode=ctypes.RTLD_GLOBAL)
    for table in (_REUSED, SIGS):
        for name, (res, args) in table.items():
            try:
                f = getattr(lib, name)
            except AttributeError:
                MISSING.append(name)
                continue
            f.restype = _CODES[res]
            f.argtypes = [_CODES[a] for a in args]
    if "akp_set_pyapi" in MISSING:
        raise RuntimeError("%s has no lane P section (akbridge_p*.cpp not built?)" % path)
    api = ctypes.pythonapi
    addr = lambda f: ctypes.cast(f, c_void_p).value
    lib.akp_set_pyapi(addr(api.Py_IncRef), addr(api.Py_DecRef), addr(api.PyGILState_Ensure),
                      addr(api.PyGILState_Release))
    atexit.register(lib.akp_pyapi_shutdown)
    L = lib
    builddir = build_dir
    return L


# ---------------------------------------------------------------- errors

class BridgeError(Exception):
    pass


# error kind -> Python exception, as pybind11's default translator does for the C++ exception classes
_EXC = {
    1: ValueError,        # std::invalid_argument
    2: RuntimeError,      # std::runtime_error
    3: RuntimeError,      # std::exception
    4: RuntimeError,      # unknown (pybind11: "Caught an unknown exception!")
    5: MemoryError,       # std::bad_alloc
    6: IndexError,        # std::out_of_range
    7: OverflowError,     # std::overflow_error
    8: ValueError,        # std::domain_error, std::length_error, std::range_error
}


import threading

_tls = threading.local()        # Python exceptions raised inside callbacks (virtual arrays), innermost last


def _pending():
    try:
        return _tls.pending
    except AttributeError:
        _tls.pending = []
        return _tls.pending


def set_pending(exc):
    _pending().append(exc)


def raise_error():
    kind = L.akb_error_kind()
    msg = L.akb_error()
    msg = msg.decode("utf-8", "surrogateescape") if msg is not None else ""
    L.akb_clear_error()
    PENDING = _pending()
    if PENDING:
        # pybind11's error_already_set: the original Python exception travels through the C++ frames
        exc = PENDING.pop()
        del PENDING[:]
        if kind == 9 or (kind == 3 and msg == "a Python callback raised an exception"):
            raise exc
    if kind == 0:
        raise BridgeError("bridge call failed without an error record")
    raise _EXC.get(kind, RuntimeError)(msg)


def failed():
    return L.akb_error_kind() != 0


def nullable(f, *args):
    """call a function whose NULL result can be legitimate (a null shared_ptr): any stale error record (the
    thread-local record is shared with the other bridge sections) is dropped first"""
    L.akb_clear_error()
    return ptr(f(*args))


def ptr(p):
    """pointer result: NULL with an error record raises; NULL without one is a null shared_ptr"""
    if not p:
        if L.akb_error_kind() != 0:
            raise_error()
        return None
    return p


def rc(code):
    """int result: negative means error"""
    if code < 0:
        raise_error()
    return code


def string(p):
    """const char* result (returned as void*): the text lives in akb_str"""
    if not p:
        raise_error()
    n = L.akb_str_len()
    return ctypes.string_at(L.akb_str_ptr(), n).decode("utf-8", "surrogateescape")


def curstr():
    n = L.akb_str_len()
    return ctypes.string_at(L.akb_str_ptr(), n).decode("utf-8", "surrogateescape")


def strs():
    out = []
    for i in range(L.akp_strs_count()):
        out.append(ctypes.string_at(L.akp_strs_ptr(i), L.akp_strs_len(i)).decode("utf-8", "surrogateescape"))
    return out


def ptrs():
    return [L.akp_ptrs_at(i) for i in range(L.akp_ptrs_count())]


def ints():
    return [L.akp_ints_at(i) for i in range(L.akp_ints_count())]


def okint(f, *args):
    """functions of the form int64 f(..., int* ok)"""
    ok = c_int(0)
    out = f(*(args + (ctypes.byref(ok),)))
    if not ok.value:
        raise_error()
    return out


def cstr(s):
    if isinstance(s, bytes):
        return s
    return s.encode("utf-8", "surrogateescape")


def cstrs(strings):
    arr = (c_char_p * max(1, len(strings)))()
    for i, s in enumerate(strings):
        arr[i] = cstr(s)
    return arr


def cptrs(pointers):
    return (c_void_p * max(1, len(pointers)))(*pointers)


def ci64s(values):
    return (c_int64 * max(1, len(values)))(*values)
