"""Index8/IndexU8/Index32/IndexU32/Index64 (src/python/index.cpp)."""
from __future__ import absolute_import

import ctypes
from ctypes import c_void_p, c_int64, byref

import numpy

from akext import _lib
from akext import _mem
from akext._util import FILENAME, arg_int64, cast_int64, arg_string, no_pickle


def _fn(line):
    return FILENAME("index.cpp", line)


@no_pickle
class _Index(object):
    """common implementation; the five concrete classes differ by `_kind`/`_dtype`"""
    __slots__ = ("_h", "__weakref__")
    _kind = None
    _dtype = None
    _name = None
    _format = None

    def __init__(self, anyarray):
        name = self._name
        module = type(anyarray).__module__
        if module.startswith("cupy."):
            raise ValueError(name + ".from_cupy() can only accept CuPy Arrays!" + _fn(198)
                             + " (akext: CUDA is not available in this sandbox)")
        elif module.startswith("jax."):
            self._from_jax_array(anyarray)
            return
        # py::array_t<T, c_style | forcecast>
        array = numpy.asarray(anyarray, dtype=self._dtype, order="C")
        if type(array) is not numpy.ndarray:
            array = array.view(numpy.ndarray)
        info = memoryview(array)        # array.request(): the buffer interface normalizes strides of contiguous arrays
        if info.ndim != 1:
            raise ValueError(name + " must be built from a one-dimensional array; try array.ravel()" + _fn(263))
        if info.strides[0] != info.itemsize:
            raise ValueError(name + " must be built from a contiguous array (array.strides == (array.itemsize,)); "
                             "try array.copy()" + _fn(269))
        self._h = _lib.ptr(_lib.L.akp_index_wrap(self._kind, array.ctypes.data, array.shape[0], id(array)))

    def _from_jax_array(self, array):
        name = self._name
        device = array.device_buffer.device().platform
        if device == "cpu":
            jax_array = numpy.asarray(array, dtype=self._dtype, order="C")
            info = memoryview(jax_array)
            if info.ndim != 1:
                raise ValueError(name + " must be built from a one-dimensional array; try array.ravel()" + _fn(213))
            if info.strides[0] != info.itemsize:
                raise ValueError(name + " must be built from a contiguous array (array.strides == "
                                 "(array.itemsize,)); try array.copy()" + _fn(219))
            # the binding keeps `array` (the JAX object) alive, not the NumPy view
            self._h = _lib.ptr(_lib.L.akp_index_wrap(self._kind, jax_array.ctypes.data, jax_array.shape[0],
                                                      id(jax_array)))
        elif device == "gpu":
            raise ValueError(name + ".from_jaxgpu() needs a __cuda_array_interface__ dict of the given array, "
                             "to accept JAX GPU buffers" + _fn(232))
        else:
            raise ValueError("Awkward Arrays don't support " + str(device) + _fn(237))

    @classmethod
    def _wrap(cls, h):
        self = object.__new__(cls)
        self._h = h
        return self

    def __del__(self):
        h = getattr(self, "_h", None)
        if h and _lib.L is not None:
            self._h = None
            _lib.L.akb_index_free(h)

    # ---- buffer protocol
    def _raw(self):
        base, offset, length = c_void_p(), c_int64(), c_int64()
        _lib.rc(_lib.L.akp_index_raw(self._h, byref(base), byref(offset), byref(length)))
        return (base.value or 0), offset.value, length.value

    def _view(self, own=True):
        base, offset, length = self._raw()
        itemsize = numpy.dtype(self._dtype).itemsize
        # py::format_descriptor<T>::format(): "b" "B" "i" "I" "q" (8-byte integers are exported as long long)
        return _mem.view(self if own else None, base + offset * itemsize if base else 0, (length,), (itemsize,),
                         _mem.dtype_from_format(self._format))

    def __buffer__(self, flags):
        return memoryview(self._view(False))

    # ---- methods of the binding
    @property
    def ptr_lib(self):
        lib = _lib.rc(_lib.L.akp_index_ptr_lib(self._h))
        if lib == 0:
            return "cpu"
        elif lib == 1:
            return "cuda"
        raise RuntimeError("unrecognized ptr_lib" + _fn(283))

    def __repr__(self):
        return _lib.string(_lib.L.akp_index_tostring(self._h))

    def __len__(self):
        return self._raw()[2]

    def __getitem__(self, obj):
        if isinstance(obj, int):
            return _lib.okint(_lib.L.akp_index_getitem_at, self._h, cast_int64(obj))
        elif isinstance(obj, slice):
            pystep = obj.step
            if (isinstance(pystep, int) and cast_int64(pystep) == 1) or pystep is None:
                start = stop = _lib.L.akp_slice_none()
                if obj.start is not None:
                    start = cast_int64(obj.start)
                if obj.stop is not None:
                    stop = cast_int64(obj.stop)
                return type(self)._wrap(_lib.ptr(_lib.L.akp_index_getitem_range(self._h, start, stop)))
            else:
                raise ValueError("Index slices cannot contain step != 1" + _fn(311))
        else:
            raise ValueError("Index can only be sliced by an integer or start:stop slice" + _fn(316))

    @classmethod
    def from_cupy(cls, array):
        raise ValueError(cls._name + ".from_cupy() can only accept CuPy Arrays!" + _fn(198))

    @classmethod
    def from_jax(cls, array):
        self = object.__new__(cls)
        self._from_jax_array(array)
        return self

    def copy_to(self, ptr_lib):
        ptr_lib = arg_string(ptr_lib, "copy_to").decode("utf-8")
        if ptr_lib == "cuda":
            return type(self)._wrap(_lib.ptr(_lib.L.akp_index_copy_to(self._h, 1)))
        elif ptr_lib == "cpu":
            return type(self)._wrap(_lib.ptr(_lib.L.akp_index_copy_to(self._h, 0)))
        else:
            raise ValueError("specify 'cpu' or 'cuda'" + _fn(336))

    def to_cupy(self):
        if self.ptr_lib != "cuda":
            raise ValueError(self._name + " resides in main memory, must be converted to NumPy, not CuPy" + _fn(344))
        raise NotImplementedError("akext: CUDA is not available in this sandbox")

    def to_jax(self):
        # the binding hands the buffer to JAX through DLPack; JAX's from_dlpack accepts __dlpack__ exporters
        import jax.dlpack
        return jax.dlpack.from_dlpack(self._view())


def _make(name, kind, dtype, fmt):
    return type(name, (_Index,), {"__slots__": (), "_kind": kind, "_dtype": dtype, "_name": name, "_format": fmt,
                                  "__module__": "awkward._ext"})


Index8 = _make("Index8", 0, numpy.int8, "b")
IndexU8 = _make("IndexU8", 1, numpy.uint8, "B")
Index32 = _make("Index32", 2, numpy.int32, "i")
IndexU32 = _make("IndexU32", 3, numpy.uint32, "I")
Index64 = _make("Index64", 4, numpy.int64, "q")

BY_KIND = {0: Index8, 1: IndexU8, 2: Index32, 3: IndexU32, 4: Index64}


def wrap(h):
    """an Index handle of any width -> the matching Python class (takes ownership)"""
    if not h:
        return None
    return BY_KIND[_lib.L.akb_index_kind(h)]._wrap(h)


def arg(x, cls, what):
    """a `const ak::IndexOf<T>&` argument: an instance of exactly that registered class"""
    if not isinstance(x, cls):
        raise TypeError("%s: incompatible function arguments: expected %s, got %s"
                        % (what, cls.__name__, type(x).__name__))
    return x._h
