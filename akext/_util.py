"""Argument conversion helpers that mirror pybind11's type casters, and small shared utilities."""
from __future__ import absolute_import

import json
import operator

VERSION = "1.4.0"

INT64_MIN = -(1 << 63)
INT64_MAX = (1 << 63) - 1


def FILENAME(source, line):
    """the suffix that FILENAME(__LINE__) appends to exception messages in src/python/<source>"""
    return "\n\n(https://github.com/scikit-hep/awkward-1.0/blob/%s/src/python/%s#L%d)" % (VERSION, source, line)


class CastError(RuntimeError):
    """py::cast_error (pybind11 translates it to RuntimeError)"""
    pass


def _number_check(x):
    t = type(x)
    return (hasattr(t, "__index__") or hasattr(t, "__int__") or hasattr(t, "__float__")
            or isinstance(x, complex)) and not isinstance(x, (str, bytes, bytearray))


def _load_int(x, lo, hi):
    """pybind11 type_caster<integer>::load(src, convert=True); returns (ok, value)"""
    if isinstance(x, float):
        return False, None
    try:
        v = operator.index(x)
    except TypeError:
        if _number_check(x):
            try:
                v = int(x)
            except Exception:
                return False, None
            if isinstance(v, float) or not isinstance(v, int):
                return False, None
        else:
            return False, None
    if v < lo or v > hi:
        return False, None
    return True, int(v)


def _badarg(what, x, expected):
    return TypeError("%s: incompatible function arguments: expected %s, got %s" % (what, expected, type(x).__name__))


def arg_int64(x, what="argument"):
    ok, v = _load_int(x, INT64_MIN, INT64_MAX)
    if not ok:
        raise _badarg(what, x, "int")
    return v


def cast_int64(x):
    """obj.cast<int64_t>(): failure is a py::cast_error"""
    ok, v = _load_int(x, INT64_MIN, INT64_MAX)
    if not ok:
        raise CastError("Unable to cast Python instance of type %s to C++ type 'long'" % type(x))
    return v


def cast_uint64(x):
    ok, v = _load_int(x, 0, (1 << 64) - 1)
    if not ok:
        raise CastError("Unable to cast Python instance of type %s to C++ type 'unsigned long'" % type(x))
    return v


def _load_double(x):
    if isinstance(x, float):
        return True, float(x)
    if isinstance(x, (str, bytes, bytearray)):
        return False, None
    try:
        return True, float(x)
    except Exception:
        return False, None


def arg_double(x, what="argument"):
    ok, v = _load_double(x)
    if not ok:
        raise _badarg(what, x, "float")
    return v


def cast_double(x):
    ok, v = _load_double(x)
    if not ok:
        raise CastError("Unable to cast Python instance of type %s to C++ type 'double'" % type(x))
    return v


def _load_bool(x):
    if x is True:
        return True, True
    if x is False:
        return True, False
    if x is None:
        return True, False
    t = type(x)
    if hasattr(t, "__bool__"):
        try:
            v = t.__bool__(x)
        except Exception:
            return False, None
        if v is True or v is False:
            return True, v
    return False, None


def arg_bool(x, what="argument"):
    ok, v = _load_bool(x)
    if not ok:
        raise _badarg(what, x, "bool")
    return v


def cast_bool(x):
    ok, v = _load_bool(x)
    if not ok:
        raise CastError("Unable to cast Python instance of type %s to C++ type 'bool'" % type(x))
    return v


def _load_complex(x):
    if isinstance(x, (str, bytes, bytearray)):
        return False, None
    try:
        return True, complex(x)
    except Exception:
        return False, None


def arg_complex(x, what="argument"):
    ok, v = _load_complex(x)
    if not ok:
        raise _badarg(what, x, "complex")
    return v


def cast_complex(x):
    ok, v = _load_complex(x)
    if not ok:
        raise CastError("Unable to cast Python instance of type %s to C++ type 'std::complex<double>'" % type(x))
    return v


def _load_string(x):
    """std::string caster: str (UTF-8) or bytes"""
    if isinstance(x, str):
        try:
            return True, x.encode("utf-8")
        except UnicodeEncodeError:
            return False, None
    if isinstance(x, (bytes, bytearray)):
        return True, bytes(x)
    return False, None


def arg_string(x, what="argument"):
    ok, v = _load_string(x)
    if not ok:
        raise _badarg(what, x, "str")
    return v


def cast_string(x):
    ok, v = _load_string(x)
    if not ok:
        raise CastError("Unable to cast Python instance of type %s to C++ type 'std::string'" % type(x))
    return v


def arg_optstring(x, what="argument"):
    """const char* argument: None -> NULL"""
    if x is None:
        return None
    return arg_string(x, what)


def is_iterable(obj):
    """py::isinstance<py::iterable>: PyObject_GetIter succeeds"""
    try:
        iter(obj)
    except Exception:
        return False
    return True


# ---------------------------------------------------------------- parameters

def dict2parameters(obj):
    """-> (keys, values) as lists of bytes; values are JSON text (json.dumps)"""
    if obj is None:
        return [], []
    if isinstance(obj, dict):
        out = {}
        for k, v in obj.items():
            key = cast_string(k)
            out[key] = cast_string(json.dumps(v))
        keys = list(out)
        return keys, [out[k] for k in keys]
    raise ValueError("type parameters must be a dict (or None)" + FILENAME("content.cpp", 1212))


def parameters2dict(flat):
    """flat = [k0, v0, k1, v1, ...] of str (C++ map order) -> dict with json.loads'ed values"""
    out = {}
    for i in range(0, len(flat), 2):
        out[flat[i]] = json.loads(flat[i + 1])
    return out


def typestrs_arg(obj, what="type"):
    """std::map<std::string, std::string> argument"""
    if not isinstance(obj, dict):
        raise _badarg(what, obj, "Dict[str, str]")
    ks, vs = [], []
    for k, v in obj.items():
        ks.append(arg_string(k, what))
        vs.append(arg_string(v, what))
    return ks, vs


class InstanceRegistry(object):
    """pybind11 keeps a map from C++ object addresses to live Python wrappers: casting a std::shared_ptr to an
    object that is already wrapped returns the existing wrapper (`layout.content is layout.content`, `rec.array is
    recordarray`).  One registry per handle family; `raw(handle)` gives the C++ object address."""

    def __init__(self, raw):
        import weakref
        self._raw = raw
        self._map = weakref.WeakValueDictionary()

    def add(self, obj):
        h = getattr(obj, "_h", None)
        if h:
            self._map[self._raw(h)] = obj
        return obj

    def find(self, h, cls):
        existing = self._map.get(self._raw(h))
        if existing is not None and type(existing) is cls and getattr(existing, "_h", None):
            return existing
        return None

    def metaclass(self, name="_Registered"):
        registry = self

        class _Registered(type):
            """registers instances made through the constructor (wrappers made from handles register themselves)"""

            def __call__(cls, *args, **kwargs):
                return registry.add(type.__call__(cls, *args, **kwargs))

        _Registered.__name__ = name
        return _Registered


def no_pickle(cls):
    """pybind11 classes without py::pickle cannot be pickled or copied with the copy module; the stand-in objects
    hold a raw bridge handle, so the default slot-based reduction must never run"""
    def __reduce_ex__(self, protocol):
        raise TypeError("cannot pickle '%s.%s' object" % (type(self).__module__, type(self).__name__))
    cls.__reduce_ex__ = __reduce_ex__
    return cls
