"""Form classes of awkward._ext (src/python/forms.cpp) over bridge handles (ak::FormPtr*).

All Form objects are handed around as std::shared_ptr in the binding, so every Python object shares the C++
object it was made from (there is no box()-style copy here).
"""
from __future__ import absolute_import

import json
from ctypes import c_int, c_int64, byref

import numpy

from akext import _lib
from akext._util import (FILENAME, CastError, arg_int64, arg_bool, arg_string, cast_int64, cast_bool, cast_string,
                         dict2parameters, parameters2dict, typestrs_arg, is_iterable, _badarg, InstanceRegistry)


def _fn(line):
    return FILENAME("forms.cpp", line)


CLASS_BY_ID = {}
INSTANCES = InstanceRegistry(lambda h: _lib.L.akp_form_raw(h))
_Registered = INSTANCES.metaclass()


def _new(cls, h):
    self = object.__new__(cls)
    self._h = h
    return INSTANCES.add(self)


def share(h):
    """cast of a std::shared_ptr<Form>; None for null; takes ownership"""
    if not h:
        return None
    cls = CLASS_BY_ID.get(_lib.L.akp_form_classid(h), Form)
    existing = INSTANCES.find(h, cls)
    if existing is not None:
        _lib.L.akp_form_free(h)
        return existing
    return _new(cls, h)


def form_arg(obj, what, allow_none=True):
    """a std::shared_ptr<ak::Form> argument: a Form instance or None (null pointer)"""
    if obj is None and allow_none:
        return None
    if isinstance(obj, Form):
        return obj._h
    raise _badarg(what, obj, "awkward._ext.Form")


def form_vector_arg(obj, what):
    """std::vector<std::shared_ptr<ak::Form>>: a sequence (not str/bytes)"""
    if isinstance(obj, (str, bytes)) or not hasattr(obj, "__len__") or not hasattr(obj, "__getitem__") \
            or isinstance(obj, dict):
        raise _badarg(what, obj, "List[awkward._ext.Form]")
    keep = list(obj)
    return keep, [form_arg(x, what) for x in keep]


def obj2form_key(form_key):
    if form_key is None:
        return None
    return cast_string(form_key)


def _fa(has_identities, parameters, form_key, what):
    has_identities = arg_bool(has_identities, what)
    ks, vs = dict2parameters(parameters)
    return int(has_identities), _lib.cstrs(ks), _lib.cstrs(vs), len(ks), obj2form_key(form_key)


def _str2form(s, what):
    return _lib.rc(_lib.L.akp_index_str2form(arg_string(s, what)))


class Form(object, metaclass=_Registered):
    __slots__ = ("_h", "__weakref__")

    def __init__(self, *args, **kwargs):
        raise TypeError("awkward._ext.Form: No constructor defined!")

    def __del__(self):
        h = getattr(self, "_h", None)
        if h and _lib.L is not None:
            self._h = None
            _lib.L.akp_form_free(h)

    def __eq__(self, other):
        return bool(_lib.rc(_lib.L.akp_form_equal(self._h, form_arg(other, "__eq__"), 1, 1, 1, 0)))

    def __ne__(self, other):
        return not bool(_lib.rc(_lib.L.akp_form_equal(self._h, form_arg(other, "__ne__"), 1, 1, 1, 0)))

    __hash__ = None

    @staticmethod
    def fromjson(data):
        data = arg_string(data, "fromjson")
        return share(_lib.ptr(_lib.L.akp_form_fromjson(data, len(data))))

    @staticmethod
    def from_numpy(dtype):
        if not isinstance(dtype, numpy.dtype):
            raise ValueError("Form.from_numpy requires a numpy.dtype" + _fn(29))
        inner_shape = [cast_int64(x) for x in dtype.shape]
        if len(inner_shape) == 0:
            kind = dtype.kind
            itemsize = cast_int64(dtype.itemsize)
        else:
            subdtype = dtype.subdtype[0]
            kind = subdtype.kind
            itemsize = cast_int64(subdtype.itemsize)
        return share(_lib.ptr(_lib.L.akp_form_fromnumpy(ord(kind), itemsize, _lib.ci64s(inner_shape),
                                                        len(inner_shape))))


class _FormMethods(object):
    __slots__ = ()

    def __repr__(self):
        return _lib.string(_lib.L.akp_form_tostring(self._h))

    @property
    def has_identities(self):
        return bool(_lib.rc(_lib.L.akp_form_has_identities(self._h)))

    @property
    def parameters(self):
        _lib.rc(_lib.L.akp_form_parameters(self._h))
        return parameters2dict(_lib.strs())

    def parameter(self, key):
        return json.loads(_lib.string(_lib.L.akp_form_parameter(self._h, arg_string(key, "parameter"))))

    @property
    def form_key(self):
        if _lib.rc(_lib.L.akp_form_form_key(self._h)) == 0:
            return None
        return _lib.curstr()

    def type(self, typestrs):
        from akext import aktypes as types
        ks, vs = typestrs_arg(typestrs, "type")
        return types.share(_lib.ptr(_lib.L.akp_form_type(self._h, _lib.cstrs(ks), _lib.cstrs(vs), len(ks))))

    def tojson(self, pretty=False, verbose=True):
        return _lib.string(_lib.L.akp_form_tojson(self._h, int(arg_bool(pretty, "tojson")),
                                                  int(arg_bool(verbose, "tojson"))))

    @property
    def purelist_depth(self):
        return _lib.okint(_lib.L.akp_form_purelist_depth, self._h)

    def with_form_key(self, form_key):
        if form_key is None:
            return share(_lib.ptr(_lib.L.akp_form_with_form_key(self._h, None)))
        return share(_lib.ptr(_lib.L.akp_form_with_form_key(self._h, cast_string(form_key))))


def _content(self):
    ok = c_int(0)
    p = _lib.L.akp_form_content(self._h, byref(ok))
    if not ok.value:
        _lib.raise_error()
    return share(p)


def _indexform(which):
    def getter(self):
        return _lib.string(_lib.L.akp_index_form2str(_lib.rc(_lib.L.akp_form_indexform(self._h, which))))
    return property(getter)


def _flag(which):
    def getter(self):
        return bool(_lib.rc(_lib.L.akp_form_flag(self._h, which)))
    return property(getter)


def _common_state(self):
    return (self.has_identities, self.parameters, self.form_key)


def _state_common(state, what):
    ks, vs = dict2parameters(state[1])
    return int(cast_bool(state[0])), _lib.cstrs(ks), _lib.cstrs(vs), len(ks), obj2form_key(state[2])


def _state_form(obj):
    """state[i].cast<std::shared_ptr<ak::Form>>()"""
    if obj is None:
        return None
    if isinstance(obj, Form):
        return obj._h
    raise CastError("Unable to cast Python instance to C++ type 'std::shared_ptr<awkward::Form>'")


def _ext(cls):
    cls.__module__ = "awkward._ext"
    return cls


@_ext
class BitMaskedForm(_FormMethods, Form):
    __slots__ = ()

    def __init__(self, mask, content, valid_when, lsb_order, has_identities=False, parameters=None, form_key=None):
        w = "BitMaskedForm"
        mask = arg_string(mask, w)
        ch = form_arg(content, w)
        valid_when, lsb_order = arg_bool(valid_when, w), arg_bool(lsb_order, w)
        hi, pk, pv, n, fk = _fa(has_identities, parameters, form_key, w)
        m = _lib.rc(_lib.L.akp_index_str2form(mask))
        self._h = _lib.ptr(_lib.L.akp_bitmaskedform_new(hi, pk, pv, n, fk, m, ch, int(valid_when), int(lsb_order)))

    mask = _indexform(b"mask")
    content = property(_content)
    valid_when = _flag(b"valid_when")
    lsb_order = _flag(b"lsb_order")

    def __getstate__(self):
        return _common_state(self) + (self.mask, self.content, self.valid_when, self.lsb_order)

    def __setstate__(self, state):
        hi, pk, pv, n, fk = _state_common(state, "BitMaskedForm")
        m = _lib.rc(_lib.L.akp_index_str2form(cast_string(state[3])))
        self._h = _lib.ptr(_lib.L.akp_bitmaskedform_new(hi, pk, pv, n, fk, m, _state_form(state[4]),
                                                        int(cast_bool(state[5])), int(cast_bool(state[6]))))
        INSTANCES.add(self)


@_ext
class ByteMaskedForm(_FormMethods, Form):
    __slots__ = ()

    def __init__(self, mask, content, valid_when, has_identities=False, parameters=None, form_key=None):
        w = "ByteMaskedForm"
        mask = arg_string(mask, w)
        ch = form_arg(content, w)
        valid_when = arg_bool(valid_when, w)
        hi, pk, pv, n, fk = _fa(has_identities, parameters, form_key, w)
        m = _lib.rc(_lib.L.akp_index_str2form(mask))
        self._h = _lib.ptr(_lib.L.akp_bytemaskedform_new(hi, pk, pv, n, fk, m, ch, int(valid_when)))

    mask = _indexform(b"mask")
    content = property(_content)
    valid_when = _flag(b"valid_when")

    def __getstate__(self):
        return _common_state(self) + (self.mask, self.content, self.valid_when)

    def __setstate__(self, state):
        hi, pk, pv, n, fk = _state_common(state, "ByteMaskedForm")
        m = _lib.rc(_lib.L.akp_index_str2form(cast_string(state[3])))
        self._h = _lib.ptr(_lib.L.akp_bytemaskedform_new(hi, pk, pv, n, fk, m, _state_form(state[4]),
                                                         int(cast_bool(state[5]))))
        INSTANCES.add(self)


@_ext
class EmptyForm(_FormMethods, Form):
    __slots__ = ()

    def __init__(self, has_identities=False, parameters=None, form_key=None):
        hi, pk, pv, n, fk = _fa(has_identities, parameters, form_key, "EmptyForm")
        self._h = _lib.ptr(_lib.L.akp_emptyform_new(hi, pk, pv, n, fk))

    def __getstate__(self):
        return _common_state(self)

    def __setstate__(self, state):
        hi, pk, pv, n, fk = _state_common(state, "EmptyForm")
        self._h = _lib.ptr(_lib.L.akp_emptyform_new(hi, pk, pv, n, fk))
        INSTANCES.add(self)


def _make_indexedform(name, isoption):
    def __init__(self, index, content, has_identities=False, parameters=None, form_key=None):
        index = arg_string(index, name)
        ch = form_arg(content, name)
        hi, pk, pv, n, fk = _fa(has_identities, parameters, form_key, name)
        i = _lib.rc(_lib.L.akp_index_str2form(index))
        self._h = _lib.ptr(_lib.L.akp_indexedform_new(hi, pk, pv, n, fk, i, ch, isoption))

    def __getstate__(self):
        return _common_state(self) + (self.index, self.content)

    def __setstate__(self, state):
        hi, pk, pv, n, fk = _state_common(state, name)
        i = _lib.rc(_lib.L.akp_index_str2form(cast_string(state[3])))
        self._h = _lib.ptr(_lib.L.akp_indexedform_new(hi, pk, pv, n, fk, i, _state_form(state[4]), isoption))
        INSTANCES.add(self)

    ns = {"__slots__": (), "__init__": __init__, "__module__": "awkward._ext", "index": _indexform(b"index"),
          "content": property(_content), "__getstate__": __getstate__, "__setstate__": __setstate__}
    return type(name, (_FormMethods, Form), ns)


IndexedForm = _make_indexedform("IndexedForm", 0)
IndexedOptionForm = _make_indexedform("IndexedOptionForm", 1)


@_ext
class ListForm(_FormMethods, Form):
    __slots__ = ()

    def __init__(self, starts, stops, content, has_identities=False, parameters=None, form_key=None):
        w = "ListForm"
        starts, stops = arg_string(starts, w), arg_string(stops, w)
        ch = form_arg(content, w)
        hi, pk, pv, n, fk = _fa(has_identities, parameters, form_key, w)
        a = _lib.rc(_lib.L.akp_index_str2form(starts))
        b = _lib.rc(_lib.L.akp_index_str2form(stops))
        self._h = _lib.ptr(_lib.L.akp_listform_new(hi, pk, pv, n, fk, a, b, ch))

    starts = _indexform(b"starts")
    stops = _indexform(b"stops")
    content = property(_content)

    def __getstate__(self):
        return _common_state(self) + (self.starts, self.stops, self.content)

    def __setstate__(self, state):
        hi, pk, pv, n, fk = _state_common(state, "ListForm")
        a = _lib.rc(_lib.L.akp_index_str2form(cast_string(state[3])))
        b = _lib.rc(_lib.L.akp_index_str2form(cast_string(state[4])))
        self._h = _lib.ptr(_lib.L.akp_listform_new(hi, pk, pv, n, fk, a, b, _state_form(state[5])))
        INSTANCES.add(self)


@_ext
class ListOffsetForm(_FormMethods, Form):
    __slots__ = ()

    def __init__(self, offsets, content, has_identities=False, parameters=None, form_key=None):
        w = "ListOffsetForm"
        offsets = arg_string(offsets, w)
        ch = form_arg(content, w)
        hi, pk, pv, n, fk = _fa(has_identities, parameters, form_key, w)
        o = _lib.rc(_lib.L.akp_index_str2form(offsets))
        self._h = _lib.ptr(_lib.L.akp_listoffsetform_new(hi, pk, pv, n, fk, o, ch))

    offsets = _indexform(b"offsets")
    content = property(_content)

    def __getstate__(self):
        return _common_state(self) + (self.offsets, self.content)

    def __setstate__(self, state):
        hi, pk, pv, n, fk = _state_common(state, "ListOffsetForm")
        o = _lib.rc(_lib.L.akp_index_str2form(cast_string(state[3])))
        self._h = _lib.ptr(_lib.L.akp_listoffsetform_new(hi, pk, pv, n, fk, o, _state_form(state[4])))
        INSTANCES.add(self)


def _int_vector(obj, what):
    if isinstance(obj, (str, bytes)) or not hasattr(obj, "__len__") or not hasattr(obj, "__getitem__") \
            or isinstance(obj, dict):
        raise _badarg(what, obj, "List[int]")
    return [arg_int64(x, what) for x in obj]


_NUMPY_DT = {"bool": "bool", "int8": "i1", "int16": "i2", "int32": "i4", "int64": "i8", "uint8": "u1",
             "uint16": "u2", "uint32": "u4", "uint64": "u8", "float16": "f2", "float32": "f4", "float64": "f8",
             "float128": "f16", "complex64": "c8", "complex128": "c16", "complex256": "c32",
             "datetime64": "?", "timedelta64": "?"}


@_ext
class NumpyForm(_FormMethods, Form):
    __slots__ = ()

    def __init__(self, inner_shape, itemsize, format, has_identities=False, parameters=None, form_key=None):
        w = "NumpyForm"
        inner_shape = _int_vector(inner_shape, w)
        itemsize = arg_int64(itemsize, w)
        format = arg_string(format, w)
        hi, pk, pv, n, fk = _fa(has_identities, parameters, form_key, w)
        self._h = _lib.ptr(_lib.L.akp_numpyform_new(hi, pk, pv, n, fk, _lib.ci64s(inner_shape), len(inner_shape),
                                                    itemsize, format))

    def _info(self):
        itemsize, dtype = c_int64(), c_int()
        _lib.rc(_lib.L.akp_numpyform_info(self._h, byref(itemsize), byref(dtype)))
        return {"inner_shape": _lib.ints(), "itemsize": itemsize.value, "dtype": dtype.value,
                "format": _lib.curstr(), "primitive": _lib.strs()[0]}

    inner_shape = property(lambda self: self._info()["inner_shape"])
    itemsize = property(lambda self: self._info()["itemsize"])
    format = property(lambda self: self._info()["format"])
    primitive = property(lambda self: self._info()["primitive"])

    def to_numpy(self):
        info = self._info()
        name = _lib.string(_lib.L.akp_dtype_to_name(info["dtype"]))
        # the switch in forms.cpp: the primitive dtypes by name, "?" for datetimes, "O" for everything else
        dt = _NUMPY_DT.get(name.split("[")[0], "O")
        return numpy.dtype((dt, tuple(info["inner_shape"])))

    def __getstate__(self):
        info = self._info()
        return _common_state(self) + (info["inner_shape"], info["itemsize"], info["format"])

    def __setstate__(self, state):
        hi, pk, pv, n, fk = _state_common(state, "NumpyForm")
        itemsize = cast_int64(state[4])
        format = cast_string(state[5])
        inner_shape = [cast_int64(x) for x in state[3]]
        self._h = _lib.ptr(_lib.L.akp_numpyform_new(hi, pk, pv, n, fk, _lib.ci64s(inner_shape), len(inner_shape),
                                                    itemsize, format))
        INSTANCES.add(self)


@_ext
class RecordForm(_FormMethods, Form):
    __slots__ = ()

    def __init__(self, contents, *args, **kwargs):
        w = "RecordForm"
        # overload 1: (contents: List[Form], keys=None, has_identities=False, parameters=None, form_key=None)
        # overload 2: (contents: Dict[str, Form], has_identities=False, parameters=None, form_key=None)
        if not isinstance(contents, dict):
            bound = self._bind(["keys", "has_identities", "parameters", "form_key"], args, kwargs)
            try:
                if bound is None:
                    raise TypeError
                keep, handles = form_vector_arg(contents, w)
                has_identities = arg_bool(bound["has_identities"], w)
            except TypeError:
                pass
            else:
                keys = bound["keys"]
                ckeys, nkeys = None, 0
                if keys is not None:
                    if not is_iterable(keys):
                        raise CastError("Unable to cast Python instance to C++ type 'iterable'")
                    lookup = [cast_string(x) for x in keys]
                    ckeys, nkeys = _lib.cstrs(lookup), len(lookup)
                ks, vs = dict2parameters(bound["parameters"])
                self._h = _lib.ptr(_lib.L.akp_recordform_new2(
                    int(has_identities), _lib.cstrs(ks), _lib.cstrs(vs), len(ks), obj2form_key(bound["form_key"]),
                    _lib.cptrs(handles), len(handles), ckeys, nkeys))
                return
        else:
            bound = self._bind(["has_identities", "parameters", "form_key"], args, kwargs)
            if bound is not None:
                # std::map<std::string, FormPtr>: iterated in key order
                items = {}
                for k, v in contents.items():
                    items[arg_string(k, w)] = form_arg(v, w)
                lookup = sorted(items)
                handles = [items[k] for k in lookup]
                hi, pk, pv, n, fk = _fa(bound["has_identities"], bound["parameters"], bound["form_key"], w)
                self._h = _lib.ptr(_lib.L.akp_recordform_new2(hi, pk, pv, n, fk, _lib.cptrs(handles), len(handles),
                                                              _lib.cstrs(lookup), len(lookup)))
                return
        raise TypeError("RecordForm.__init__(): incompatible constructor arguments")

    @staticmethod
    def _bind(names, args, kwargs):
        defaults = {"keys": None, "has_identities": False, "parameters": None, "form_key": None}
        if len(args) > len(names):
            return None
        bound = dict((n, defaults[n]) for n in names)
        for n, a in zip(names, args):
            bound[n] = a
        for k, v in kwargs.items():
            if k not in names or k in names[:len(args)]:
                return None
            bound[k] = v
        return bound

    @property
    def contents(self):
        out = {}
        for i in range(self.numfields):
            out[self.key(i)] = share(_lib.ptr(_lib.L.akp_form_content_at(self._h, i)))
        return dict((k, out[k]) for k in sorted(out, key=lambda s: s.encode("utf-8", "surrogateescape")))

    istuple = _flag(b"istuple")

    @property
    def numfields(self):
        return _lib.okint(_lib.L.akp_form_numfields, self._h)

    def fieldindex(self, key):
        return _lib.okint(_lib.L.akp_form_fieldindex, self._h, arg_string(key, "fieldindex"))

    def key(self, fieldindex):
        return _lib.string(_lib.L.akp_form_key(self._h, arg_int64(fieldindex, "key")))

    def haskey(self, key):
        return bool(_lib.rc(_lib.L.akp_form_haskey(self._h, arg_string(key, "haskey"))))

    def keys(self):
        _lib.rc(_lib.L.akp_form_keys(self._h))
        return _lib.strs()

    def content(self, fieldindex):
        if isinstance(fieldindex, (str, bytes)):
            return share(_lib.ptr(_lib.L.akp_form_content_key(self._h, arg_string(fieldindex, "content"))))
        return share(_lib.ptr(_lib.L.akp_form_content_at(self._h, arg_int64(fieldindex, "content"))))

    def items(self):
        _lib.rc(_lib.L.akp_recordform_items(self._h))
        keys, ps = _lib.strs(), _lib.ptrs()
        return [(k, share(p)) for k, p in zip(keys, ps)]

    def values(self):
        _lib.rc(_lib.L.akp_form_contents(self._h))
        return [share(p) for p in _lib.ptrs()]

    def __getstate__(self):
        recordlookup = None
        n = self.numfields
        if not self.istuple:
            _lib.rc(_lib.L.akp_recordform_recordlookup(self._h))
            lookup = _lib.strs()
            recordlookup = tuple(lookup[i] for i in range(n))
        contents = tuple(share(_lib.ptr(_lib.L.akp_form_content_at(self._h, i))) for i in range(n))
        return _common_state(self) + (recordlookup, contents)

    def __setstate__(self, state):
        hi, pk, pv, n, fk = _state_common(state, "RecordForm")
        ckeys, nkeys = None, 0
        if state[3] is not None:
            lookup = [cast_string(x) for x in tuple(state[3])]
            ckeys, nkeys = _lib.cstrs(lookup), len(lookup)
        keep = tuple(state[4])
        handles = [_state_form(x) for x in keep]
        self._h = _lib.ptr(_lib.L.akp_recordform_new2(hi, pk, pv, n, fk, _lib.cptrs(handles), len(handles),
                                                      ckeys, nkeys))
        INSTANCES.add(self)


@_ext
class RegularForm(_FormMethods, Form):
    __slots__ = ()

    def __init__(self, content, size, has_identities=False, parameters=None, form_key=None):
        w = "RegularForm"
        ch = form_arg(content, w)
        size = arg_int64(size, w)
        hi, pk, pv, n, fk = _fa(has_identities, parameters, form_key, w)
        self._h = _lib.ptr(_lib.L.akp_regularform_new(hi, pk, pv, n, fk, ch, size))

    content = property(_content)
    size = property(lambda self: _lib.okint(_lib.L.akp_regularform_size, self._h))

    def __getstate__(self):
        return _common_state(self) + (self.content, self.size)

    def __setstate__(self, state):
        hi, pk, pv, n, fk = _state_common(state, "RegularForm")
        self._h = _lib.ptr(_lib.L.akp_regularform_new(hi, pk, pv, n, fk, _state_form(state[3]),
                                                      cast_int64(state[4])))
        INSTANCES.add(self)


@_ext
class UnionForm(_FormMethods, Form):
    __slots__ = ()

    def __init__(self, tags, index, contents, has_identities=False, parameters=None, form_key=None):
        w = "UnionForm"
        tags, index = arg_string(tags, w), arg_string(index, w)
        keep, handles = form_vector_arg(contents, w)
        hi, pk, pv, n, fk = _fa(has_identities, parameters, form_key, w)
        t = _lib.rc(_lib.L.akp_index_str2form(tags))
        i = _lib.rc(_lib.L.akp_index_str2form(index))
        self._h = _lib.ptr(_lib.L.akp_unionform_new(hi, pk, pv, n, fk, t, i, _lib.cptrs(handles), len(handles)))

    tags = _indexform(b"tags")
    index = _indexform(b"index")

    @property
    def contents(self):
        _lib.rc(_lib.L.akp_form_contents(self._h))
        return [share(p) for p in _lib.ptrs()]

    @property
    def numcontents(self):
        return _lib.okint(_lib.L.akp_form_numcontents, self._h)

    def content(self, index):
        return share(_lib.ptr(_lib.L.akp_form_content_at(self._h, arg_int64(index, "content"))))

    def __getstate__(self):
        contents = tuple(share(_lib.ptr(_lib.L.akp_form_content_at(self._h, i))) for i in range(self.numcontents))
        return _common_state(self) + (self.tags, self.index, contents)

    def __setstate__(self, state):
        hi, pk, pv, n, fk = _state_common(state, "UnionForm")
        keep = tuple(state[5])
        handles = [_state_form(x) for x in keep]
        t = _lib.rc(_lib.L.akp_index_str2form(cast_string(state[3])))
        i = _lib.rc(_lib.L.akp_index_str2form(cast_string(state[4])))
        self._h = _lib.ptr(_lib.L.akp_unionform_new(hi, pk, pv, n, fk, t, i, _lib.cptrs(handles), len(handles)))
        INSTANCES.add(self)


@_ext
class UnmaskedForm(_FormMethods, Form):
    __slots__ = ()

    def __init__(self, content, has_identities=False, parameters=None, form_key=None):
        w = "UnmaskedForm"
        ch = form_arg(content, w)
        hi, pk, pv, n, fk = _fa(has_identities, parameters, form_key, w)
        self._h = _lib.ptr(_lib.L.akp_unmaskedform_new(hi, pk, pv, n, fk, ch))

    content = property(_content)

    def __getstate__(self):
        return _common_state(self) + (self.content,)

    def __setstate__(self, state):
        hi, pk, pv, n, fk = _state_common(state, "UnmaskedForm")
        self._h = _lib.ptr(_lib.L.akp_unmaskedform_new(hi, pk, pv, n, fk, _state_form(state[3])))
        INSTANCES.add(self)


@_ext
class VirtualForm(_FormMethods, Form):
    __slots__ = ()

    def __init__(self, form, has_length, has_identities=False, parameters=None, form_key=None):
        w = "VirtualForm"
        fh = form_arg(form, w)
        has_length = arg_bool(has_length, w)
        hi, pk, pv, n, fk = _fa(has_identities, parameters, form_key, w)
        self._h = _lib.ptr(_lib.L.akp_virtualform_new(hi, pk, pv, n, fk, fh, int(has_length)))

    form = property(_content)
    has_length = _flag(b"has_length")

    def __getstate__(self):
        form = None
        if _lib.rc(_lib.L.akp_form_flag(self._h, b"has_form")):
            form = self.form
        return _common_state(self) + (form, self.has_length)

    def __setstate__(self, state):
        hi, pk, pv, n, fk = _state_common(state, "VirtualForm")
        fh = None
        if state[3] is not None:
            fh = _state_form(state[3])
        self._h = _lib.ptr(_lib.L.akp_virtualform_new(hi, pk, pv, n, fk, fh, int(cast_bool(state[4]))))
        INSTANCES.add(self)


Form.__module__ = "awkward._ext"
for _cid, _cls in [(1, BitMaskedForm), (2, ByteMaskedForm), (3, EmptyForm), (4, IndexedForm),
                   (5, IndexedOptionForm), (6, ListForm), (7, ListOffsetForm), (8, NumpyForm), (9, RecordForm),
                   (10, RegularForm), (11, UnionForm), (12, UnmaskedForm), (13, VirtualForm)]:
    CLASS_BY_ID[_cid] = _cls
