#!/bin/sh
# developer helper: thorough tier of the listed checks, one after the other; prints the verdict lines
# usage: sweep_thorough.sh "C05 C07" [seed]
HERE="$(cd "$(dirname "$0")" && pwd)"
cd "$HERE"
SEED="${2:-1}"
python3 vbuild.py plain asan > /dev/null 2>&1
for c in $1; do
  out=/tmp/thorough.$c.$SEED.out
  timeout 7200 ./check $c --tier thorough --seed $SEED > $out 2>&1
  echo "== $c rc=$?"
  grep -E "^(VIOLATION|INCONCLUSIVE|$c tier)" $out | cut -c1-600 | head -12
done
