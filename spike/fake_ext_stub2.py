import numpy
__version__ = "1.4.0"
def startup(): pass
class kernel_lib:
    cpu = "cpu"; cuda = "cuda"
class _PersistentSharedPtr:
    def ptr(self): return 0
class _Idx:
    def __init__(self, arr): self._a = numpy.ascontiguousarray(arr, dtype=self._dt)
    def __array__(self, dtype=None, copy=None): return self._a
    def __len__(self): return len(self._a)
class Index8(_Idx): _dt = numpy.int8
class IndexU8(_Idx): _dt = numpy.uint8
class Index32(_Idx): _dt = numpy.int32
class IndexU32(_Idx): _dt = numpy.uint32
class Index64(_Idx): _dt = numpy.int64
class Content:
    identities = None
    parameters = {}
    ptr_lib = "cpu"
    kernels = "cpu"
    caches = []
    def parameter(self, k): return self.parameters.get(k)
    def purelist_parameter(self, k): return self.parameters.get(k)
    @property
    def _persistent_shared_ptr(self): return _PersistentSharedPtr()
class NumpyArray(Content):
    def __init__(self, arr, identities=None, parameters=None): self._a = numpy.asarray(arr); self.parameters=parameters or {}
    def __array__(self, dtype=None, copy=None): return self._a
    def __len__(self): return len(self._a)
    @property
    def ndim(self): return self._a.ndim
    @property
    def shape(self): return self._a.shape
class ListOffsetArray64(Content):
    def __init__(self, offsets, content, identities=None, parameters=None): self.offsets=offsets; self.content=content; self.parameters=parameters or {}
    def __len__(self): return len(self.offsets)-1
    @property
    def starts(self): return Index64(numpy.asarray(self.offsets)[:-1])
    @property
    def stops(self): return Index64(numpy.asarray(self.offsets)[1:])
def mk(name): return type(name, (), {})
def __getattr__(n):
    if n.startswith("__"): raise AttributeError(n)
    c = mk(n); globals()[n] = c; return c
