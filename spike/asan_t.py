import ctypes, numpy as np, sys
lib = ctypes.CDLL("/tmp/sc/libck_asan.so")
class Err(ctypes.Structure):
    _fields_=[("str",ctypes.c_char_p),("filename",ctypes.c_char_p),("id",ctypes.c_int64),("attempt",ctypes.c_int64),("pass_through",ctypes.c_bool)]
f = lib.awkward_ListArray64_num_64
f.restype = Err
tonum = np.zeros(3, dtype=np.int64)
starts = np.array([0,2,5,6], dtype=np.int64); stops=np.array([2,5,5,9],dtype=np.int64)
n = int(sys.argv[1])
e = f(tonum.ctypes.data_as(ctypes.c_void_p), starts.ctypes.data_as(ctypes.c_void_p), stops.ctypes.data_as(ctypes.c_void_p), ctypes.c_int64(n))
print(tonum, e.str)
