#include "awkward/Content.h"
#include "awkward/io/json.h"
#include "awkward/builder/ArrayBuilderOptions.h"
#include "awkward/Reducer.h"
#include "awkward/Slice.h"
#include "awkward/type/Type.h"
#include <iostream>
using namespace awkward;
int main() {
  ArrayBuilderOptions opts(1024, 1.5);
  ContentPtr a = FromJsonString("[[1.1, 2.2, null], [], [3.3, 0.5], null, [7]]", opts, nullptr, nullptr, nullptr);
  std::cout << a->tostring() << "\n" << a->tojson(false, -1) << "\n";
  std::cout << a->type(util::TypeStrs())->tostring() << "\n";
  std::cout << a->form(true)->tojson(false, false) << "\n";
  ReducerSum sum;
  std::cout << a->reduce(sum, 1, false, false)->tojson(false, -1) << "\n";
  std::cout << a->reduce(sum, 0, false, false)->tojson(false, -1) << "\n";
  std::cout << a->sort(1, false, true)->tojson(false, -1) << "\n";
  std::cout << a->num(1, 0)->tojson(false,-1) << "\n";
  std::cout << "valid: '" << a->validityerror("layout") << "'\n";
  Slice s; s.append(std::make_shared<SliceRange>(Slice::none(), Slice::none(), -1)); s.append(std::make_shared<SliceRange>(1, Slice::none(), 1)); s.become_sealed();
  std::cout << a->getitem(s)->tojson(false,-1) << "\n";
  try { a->getitem_at(10); } catch (std::exception& e) { std::cout << "ERR " << e.what() << "\n"; }
}
