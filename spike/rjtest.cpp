#include "rapidjson/document.h"
#include "rapidjson/writer.h"
#include "rapidjson/prettywriter.h"
#include "rapidjson/stringbuffer.h"
#include <iostream>
namespace rj = rapidjson;
int main() {
  rj::Document d;
  d.Parse<rj::kParseNanAndInfFlag>("{\"a\": [1, 2.5, -3, \"x\\u00e9\\n\", null, true, {\"b\": {}}, [], NaN, -Infinity, 1e400], \"c\": 18446744073709551615}");
  std::cout << d.HasParseError() << " " << d.GetParseError() << "\n";
  d.Parse<rj::kParseNanAndInfFlag>("{\"a\": [1, 2.5, -3, \"x\\u00e9\\n\", null, true, {\"b\": {}}, [], 1e300, 0.1, 123456789012345678901234567890], \"c\": 18446744073709551615}");
  std::cout << d.HasParseError() << "\n";
  rj::StringBuffer sb; rj::Writer<rj::StringBuffer> w(sb); d.Accept(w); std::cout << sb.GetString() << "\n";
  rj::StringBuffer sb2; rj::PrettyWriter<rj::StringBuffer> w2(sb2); d.Accept(w2); std::cout << sb2.GetString() << "\n";
  rj::Document e; e.Parse("{\"c\": 18446744073709551615, \"a\": [1.0, 2.5, -3, \"x\\u00e9\\n\", null, true, {\"b\": {}}, [], 1e300, 0.1, 123456789012345678901234567890]}");
  std::cout << (d == e) << "\n";
  for (double x : {1.0, 0.1, 1e21, 1e22, 1.5e-7, 123456.789, 5e-324, 1.7976931348623157e308, -0.0, 100.0, 0.000001}) { rj::StringBuffer b; rj::Writer<rj::StringBuffer> ww(b); ww.Double(x); std::cout << b.GetString() << " "; }
  std::cout << "\n";
}
