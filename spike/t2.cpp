#include "awkward/forth/ForthMachine.h"
#include <iostream>
#include <cstring>
using namespace awkward;
int main(int argc, char** argv) {
  std::string src = argv[1];
  try {
    ForthMachine64 vm(src, 16, 16, 4, 1.5);
    std::shared_ptr<void> buf(new char[16], [](void* p){ delete [] (char*)p; });
    memset(buf.get(), 1, 16);
    std::map<std::string, std::shared_ptr<ForthInputBuffer>> inputs;
    inputs["x"] = std::make_shared<ForthInputBuffer>(buf, 0, 16);
    util::ForthError err = vm.run(inputs);
    std::cout << "err=" << (int)err << " stack:";
    for (auto v : vm.stack()) std::cout << " " << v;
    std::cout << "\n";
  } catch (std::exception& e) { std::cout << "EXC " << e.what() << "\n"; }
}
