import sys, types, importlib.abc, importlib.util
from unittest import mock
sys.path.insert(0, "/repo/src")
class F(importlib.abc.MetaPathFinder):
    def find_spec(self, name, path, target=None):
        if name == "awkward._ext":
            return importlib.util.spec_from_file_location(name, "/verif/spike/fake_ext_stub2.py")
sys.meta_path.insert(0, F())
pr = types.ModuleType("pkg_resources")
pr.resource_filename = lambda pkg, name: "/tmp/sc/libck.so" if "cpu" in name else "/tmp/sc/libawkward.so"
sys.modules["pkg_resources"] = pr
import traceback
import awkward as ak, numpy as np, numba
import numba.core.cgutils as cg
def pointer_add(builder, ptr, offset, return_type=None):
    intptr = builder.ptrtoint(ptr, cg.intp_t)
    if isinstance(offset, int):
        offset = cg.intp_t(offset)
    intptr = builder.add(intptr, offset)
    return builder.inttoptr(intptr, return_type or ptr.type)
cg.pointer_add = pointer_add

print(ak.__version__, numba.__version__)
ak._util.find_caches = lambda layout: ()
ak._util.arrayclass = lambda layout, behavior: ak.Array
lay = ak.layout.ListOffsetArray64(ak.layout.Index64(np.array([0,3,3,5])), ak.layout.NumpyArray(np.array([1.1,2.2,3.3,4.4,5.5])))
a = ak.Array(lay)
print(a.numba_type)
@numba.njit
def f(x):
    tot = 0.0
    n = 0
    for sub in x:
        n += len(sub)
        for y in sub:
            tot += y
    return tot, n, x[2][1], len(x)
print(f(a))
@numba.njit
def g(x, i, j):
    return x[i][j]
print(g(a, -1, -2))
try:
    print(g(a, 1, 0))
except Exception as e:
    print("ERR", type(e).__name__, e)
@numba.njit
def h(x):
    return x[1:]
try:
    r = h(a); print(type(r))
except Exception as e:
    traceback.print_exc()
