#!/bin/sh
# developer helper: run checks against a seeded defect in a scratch worktree (never in /repo)
# usage: tools_mutant.sh <patch.diff> "<check ids>" [seed]
P="$1"; CHECKS="$2"; SEED="${3:-0}"
W=/tmp/mutw/eval
git -C $W checkout -q -- . && git -C $W checkout -q --detach $(git -C /repo rev-parse HEAD) 2>/dev/null
git -C $W apply "$P" || { echo "PATCH DOES NOT APPLY"; exit 2; }
for c in $CHECKS; do
  VERIF_REPO=$W timeout 900 ./check $c --tier quick --seed $SEED > /tmp/mut.$c.out 2>&1
  echo "== $c rc=$? $(grep -c '^VIOLATION' /tmp/mut.$c.out) violation lines"
  grep -E "^(VIOLATION|INCONCLUSIVE|$c tier)" /tmp/mut.$c.out | cut -c1-330 | head -6
done
git -C $W checkout -q -- .
