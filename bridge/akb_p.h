// Harness code (not part of awkward-1.0): lane P additions to the C ABI bridge.
// These entry points back /verif/akext, the Python stand-in for the pybind11 module awkward._ext.
// Handle layouts are the same as in akb.h (Content: ak::ContentPtr*, Index: IndexH*, Form: ak::FormPtr*,
// Type: ak::TypePtr*), plus Identities: ak::IdentitiesPtr*.
#ifndef AKB_P_H_
#define AKB_P_H_

#include "akb.h"

#include <new>
#include <set>

#include "awkward/Iterator.h"
#include "awkward/type/ArrayType.h"
#include "awkward/type/ListType.h"
#include "awkward/type/OptionType.h"
#include "awkward/type/PrimitiveType.h"
#include "awkward/type/RecordType.h"
#include "awkward/type/RegularType.h"
#include "awkward/type/UnionType.h"
#include "awkward/type/UnknownType.h"
#include "awkward/builder/ArrayBuilder.h"
#include "awkward/builder/ArrayBuilderOptions.h"
#include "awkward/datetime_util.h"

// results that do not fit a scalar return value (thread local, valid until the next call)
extern thread_local std::vector<std::string> akp_strs;
extern thread_local std::vector<void*> akp_ptrs;
extern thread_local std::vector<int64_t> akp_ints;

// thrown when a callback into Python failed; the Python exception is pending on the akext side
struct AkpPyError: public std::exception {
  const char* what() const noexcept override { return "a Python callback raised an exception"; }
};

// error kinds beyond akb.h: 9 AkpPyError (a pending Python exception), 5 bad_alloc, 6 out_of_range, 7 overflow_error, 8 other logic/range errors that
// pybind11 maps to ValueError (domain_error, length_error, range_error)
#define AKP_TRY try {
#define AKP_CATCH(retval)                                                                   \
  }                                                                                         \
  catch (AkpPyError& e) { akb_err = e.what(); akb_errkind = 9; return retval; }             \
  catch (std::bad_alloc& e) { akb_err = e.what(); akb_errkind = 5; return retval; }         \
  catch (std::domain_error& e) { akb_err = e.what(); akb_errkind = 8; return retval; }      \
  catch (std::invalid_argument& e) { akb_err = e.what(); akb_errkind = 1; return retval; }  \
  catch (std::length_error& e) { akb_err = e.what(); akb_errkind = 8; return retval; }      \
  catch (std::out_of_range& e) { akb_err = e.what(); akb_errkind = 6; return retval; }      \
  catch (std::range_error& e) { akb_err = e.what(); akb_errkind = 8; return retval; }       \
  catch (std::overflow_error& e) { akb_err = e.what(); akb_errkind = 7; return retval; }    \
  catch (std::runtime_error& e) { akb_err = e.what(); akb_errkind = 2; return retval; }     \
  catch (std::exception& e) { akb_err = e.what(); akb_errkind = 3; return retval; }         \
  catch (...) { akb_err = "unknown C++ exception"; akb_errkind = 4; return retval; }

typedef ak::IdentitiesPtr IdsH;
inline const ak::IdentitiesPtr& IDS(void* h) {
  static const ak::IdentitiesPtr none(nullptr);
  if (h == nullptr) return none;
  return *reinterpret_cast<ak::IdentitiesPtr*>(h);
}
inline const ak::FormPtr& FORM(void* h) {
  static const ak::FormPtr none(nullptr);
  if (h == nullptr) return none;
  return *reinterpret_cast<ak::FormPtr*>(h);
}
inline const ak::TypePtr& TYPE(void* h) { return *reinterpret_cast<ak::TypePtr*>(h); }

// a shared handle (pybind11's cast of a std::shared_ptr): null stays null
inline void* share_content(const ak::ContentPtr& c) {
  if (c.get() == nullptr) return nullptr;
  return new ak::ContentPtr(c);
}
inline void* share_form(const ak::FormPtr& f) {
  if (f.get() == nullptr) return nullptr;
  return new ak::FormPtr(f);
}
inline void* share_type(const ak::TypePtr& t) {
  if (t.get() == nullptr) return nullptr;
  return new ak::TypePtr(t);
}
inline void* share_ids(const ak::IdentitiesPtr& t) {
  if (t.get() == nullptr) return nullptr;
  return new ak::IdentitiesPtr(t);
}

inline ak::util::Parameters akp_params(const char** keys, const char** vals, int n) {
  ak::util::Parameters p;
  for (int i = 0; i < n; i++) p[std::string(keys[i])] = std::string(vals[i]);
  return p;
}
inline void akp_put_params(const ak::util::Parameters& p) {
  akp_strs.clear();
  for (auto& kv : p) { akp_strs.push_back(kv.first); akp_strs.push_back(kv.second); }
}
inline std::vector<std::string> akp_strvec(const char** keys, int n) {
  std::vector<std::string> out;
  for (int i = 0; i < n; i++) out.push_back(std::string(keys[i]));
  return out;
}
inline ak::util::RecordLookupPtr akp_lookup(const char** keys, int n) {
  if (keys == nullptr) return ak::util::RecordLookupPtr(nullptr);
  ak::util::RecordLookupPtr out = std::make_shared<ak::util::RecordLookup>();
  for (int i = 0; i < n; i++) out->push_back(std::string(keys[i]));
  return out;
}
inline ak::util::TypeStrs akp_typestrs(const char** keys, const char** vals, int n) {
  ak::util::TypeStrs p;
  for (int i = 0; i < n; i++) p[std::string(keys[i])] = std::string(vals[i]);
  return p;
}

// a deleter that drops one reference of a Python object (pybind11's pyobject_deleter)
struct AkpPyDeleter {
  void* obj;
  explicit AkpPyDeleter(void* o);
  void operator()(void const*);
};

AkpPyDeleter akp_py_keep(void* obj);   // takes one reference

int akp_classid_of(ak::Content* raw);

#endif
