// Harness code: JSON conversion, Form and Type sections of the C ABI bridge.
#include "akb.h"
#include "awkward/io/json.h"
#include "awkward/builder/ArrayBuilderOptions.h"

static const char* nn(const char* s) { return (s != nullptr && s[0] == '\x01' && s[1] == 0) ? nullptr : s; }

// strings: pass "\x01" for "not given" (nullptr)
AKB_EXPORT const char* akb_tojson(void* h, int pretty, int64_t maxdecimals, const char* nan_s, const char* inf_s,
                                  const char* minf_s, const char* creal, const char* cimag) {
  AKB_TRY
  akb_str = C(h)->tojson(pretty != 0, maxdecimals, nn(nan_s), nn(inf_s), nn(minf_s), nn(creal), nn(cimag));
  return akb_str.c_str();
  AKB_CATCH(nullptr)
}

AKB_EXPORT int akb_tojson_file(void* h, const char* path, int pretty, int64_t maxdecimals, int64_t buffersize,
                               const char* nan_s, const char* inf_s, const char* minf_s,
                               const char* creal, const char* cimag) {
  FILE* f = fopen(path, "wb");
  if (f == nullptr) { akb_err = "bridge: cannot open file"; akb_errkind = 3; return -1; }
  try {
    C(h)->tojson(f, pretty != 0, maxdecimals, buffersize, nn(nan_s), nn(inf_s), nn(minf_s), nn(creal), nn(cimag));
  }
  catch (std::invalid_argument& e) { fclose(f); akb_err = e.what(); akb_errkind = 1; return -1; }
  catch (std::runtime_error& e) { fclose(f); akb_err = e.what(); akb_errkind = 2; return -1; }
  catch (std::exception& e) { fclose(f); akb_err = e.what(); akb_errkind = 3; return -1; }
  fclose(f);
  return 0;
}

AKB_EXPORT void* akb_fromjson(const char* source, int64_t initial, double resize, const char* nan_s,
                              const char* inf_s, const char* minf_s) {
  AKB_TRY
  ak::ArrayBuilderOptions options(initial, resize);
  return box_content(ak::FromJsonString(source, options, nn(nan_s), nn(inf_s), nn(minf_s)));
  AKB_CATCH(nullptr)
}

AKB_EXPORT void* akb_fromjson_file(const char* path, int64_t initial, double resize, int64_t buffersize,
                                   const char* nan_s, const char* inf_s, const char* minf_s) {
  FILE* f = fopen(path, "rb");
  if (f == nullptr) { akb_err = "bridge: cannot open file"; akb_errkind = 3; return nullptr; }
  void* out = nullptr;
  try {
    ak::ArrayBuilderOptions options(initial, resize);
    out = box_content(ak::FromJsonFile(f, options, buffersize, nn(nan_s), nn(inf_s), nn(minf_s)));
  }
  catch (std::invalid_argument& e) { akb_err = e.what(); akb_errkind = 1; }
  catch (std::runtime_error& e) { akb_err = e.what(); akb_errkind = 2; }
  catch (std::exception& e) { akb_err = e.what(); akb_errkind = 3; }
  fclose(f);
  return out;
}

// ---------------------------------------------------------------- forms

#define F(h) (*reinterpret_cast<ak::FormPtr*>(h))
AKB_EXPORT void akb_form_free(void* h) { delete reinterpret_cast<ak::FormPtr*>(h); }

AKB_EXPORT void* akb_form(void* h, int materialize) {
  AKB_TRY
  ak::FormPtr f = C(h)->form(materialize != 0);
  if (f.get() == nullptr) throw std::runtime_error("bridge: null form");
  return new ak::FormPtr(f);
  AKB_CATCH(nullptr)
}
AKB_EXPORT void* akb_form_fromjson(const char* text) {
  AKB_TRY
  ak::FormPtr f = ak::Form::fromjson(std::string(text));
  if (f.get() == nullptr) throw std::runtime_error("bridge: null form");
  return new ak::FormPtr(f);
  AKB_CATCH(nullptr)
}
AKB_EXPORT const char* akb_form_tojson(void* f, int pretty, int verbose) {
  AKB_TRY akb_str = F(f)->tojson(pretty != 0, verbose != 0); return akb_str.c_str(); AKB_CATCH(nullptr)
}
AKB_EXPORT const char* akb_form_tostring(void* f) {
  AKB_TRY akb_str = F(f)->tostring(); return akb_str.c_str(); AKB_CATCH(nullptr)
}
AKB_EXPORT int akb_form_equal(void* a, void* b, int ids, int params, int formkey, int compat) {
  AKB_TRY return F(a)->equal(F(b), ids != 0, params != 0, formkey != 0, compat != 0) ? 1 : 0; AKB_CATCH(-1)
}
AKB_EXPORT int64_t akb_form_purelist_depth(void* f) {
  AKB_TRY return F(f)->purelist_depth(); AKB_CATCH(-999)
}
AKB_EXPORT int akb_form_minmax_depth(void* f, int64_t* mn, int64_t* mx) {
  AKB_TRY std::pair<int64_t, int64_t> p = F(f)->minmax_depth(); *mn = p.first; *mx = p.second; return 0; AKB_CATCH(-1)
}
AKB_EXPORT int akb_form_branch_depth(void* f, int64_t* branch, int64_t* depth) {
  AKB_TRY std::pair<bool, int64_t> p = F(f)->branch_depth(); *branch = p.first ? 1 : 0; *depth = p.second; return 0; AKB_CATCH(-1)
}
AKB_EXPORT int akb_form_purelist_isregular(void* f) {
  AKB_TRY return F(f)->purelist_isregular() ? 1 : 0; AKB_CATCH(-1)
}
AKB_EXPORT int64_t akb_form_numfields(void* f) {
  AKB_TRY return F(f)->numfields(); AKB_CATCH(-999)
}
AKB_EXPORT int akb_form_haskey(void* f, const char* key) {
  AKB_TRY return F(f)->haskey(key) ? 1 : 0; AKB_CATCH(-1)
}
AKB_EXPORT const char* akb_form_keys(void* f) {
  AKB_TRY
  std::vector<std::string> ks = F(f)->keys();
  akb_str.clear();
  for (size_t i = 0; i < ks.size(); i++) { if (i) akb_str += '\x1f'; akb_str += ks[i]; }
  return akb_str.c_str();
  AKB_CATCH(nullptr)
}

// ---------------------------------------------------------------- types

#define T(h) (*reinterpret_cast<ak::TypePtr*>(h))
AKB_EXPORT void akb_type_free(void* h) { delete reinterpret_cast<ak::TypePtr*>(h); }

AKB_EXPORT void* akb_type(void* h) {
  AKB_TRY
  ak::TypePtr t = C(h)->type(ak::util::TypeStrs());
  if (t.get() == nullptr) throw std::runtime_error("bridge: null type");
  return new ak::TypePtr(t);
  AKB_CATCH(nullptr)
}
AKB_EXPORT void* akb_form_type(void* f) {
  AKB_TRY
  ak::TypePtr t = F(f)->type(ak::util::TypeStrs());
  if (t.get() == nullptr) throw std::runtime_error("bridge: null type");
  return new ak::TypePtr(t);
  AKB_CATCH(nullptr)
}
AKB_EXPORT const char* akb_type_tostring(void* t) {
  AKB_TRY akb_str = T(t)->tostring(); return akb_str.c_str(); AKB_CATCH(nullptr)
}
AKB_EXPORT int akb_type_equal(void* a, void* b, int check_parameters) {
  AKB_TRY return T(a)->equal(T(b), check_parameters != 0) ? 1 : 0; AKB_CATCH(-1)
}
// convenience: type string of a content in one call
AKB_EXPORT const char* akb_typestr(void* h) {
  AKB_TRY
  akb_str = C(h)->type(ak::util::TypeStrs())->tostring();
  return akb_str.c_str();
  AKB_CATCH(nullptr)
}
