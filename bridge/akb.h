// Harness code (not part of awkward-1.0): a C ABI over libawkward's public C++ API.
#ifndef AKB_H_
#define AKB_H_

#include <cstdint>
#include <cstdio>
#include <cstring>
#include <cstdlib>
#include <string>
#include <vector>
#include <map>
#include <memory>
#include <stdexcept>
#include <sstream>
#include <complex>

#include "awkward/common.h"
#include "awkward/util.h"
#include "awkward/Index.h"
#include "awkward/Slice.h"
#include "awkward/Content.h"
#include "awkward/Identities.h"
#include "awkward/Reducer.h"
#include "awkward/array/NumpyArray.h"
#include "awkward/array/EmptyArray.h"
#include "awkward/array/RegularArray.h"
#include "awkward/array/ListArray.h"
#include "awkward/array/ListOffsetArray.h"
#include "awkward/array/IndexedArray.h"
#include "awkward/array/ByteMaskedArray.h"
#include "awkward/array/BitMaskedArray.h"
#include "awkward/array/UnmaskedArray.h"
#include "awkward/array/RecordArray.h"
#include "awkward/array/Record.h"
#include "awkward/array/None.h"
#include "awkward/array/UnionArray.h"
#include "awkward/array/VirtualArray.h"
#include "awkward/type/Type.h"

namespace ak = awkward;

#define AKB_EXPORT extern "C" __attribute__((visibility("default")))

struct IndexH {
  int kind;   // 0 i8, 1 u8, 2 i32, 3 u32, 4 i64
  std::shared_ptr<ak::Index> p;
};

typedef ak::ContentPtr ContentH;

extern thread_local std::string akb_err;
extern thread_local int akb_errkind;   // 0 none, 1 invalid_argument, 2 runtime_error, 3 other std::exception, 4 unknown
extern thread_local std::string akb_str;

#define AKB_TRY try {
#define AKB_CATCH(retval)                                              \
  }                                                                    \
  catch (std::invalid_argument& e) { akb_err = e.what(); akb_errkind = 1; return retval; } \
  catch (std::runtime_error& e) { akb_err = e.what(); akb_errkind = 2; return retval; }    \
  catch (std::exception& e) { akb_err = e.what(); akb_errkind = 3; return retval; }        \
  catch (...) { akb_err = "unknown C++ exception"; akb_errkind = 4; return retval; }

inline void* box_content(const ak::ContentPtr& c) {
  if (c.get() == nullptr) {
    akb_err = "bridge: operation returned a null ContentPtr";
    akb_errkind = 3;
    return nullptr;
  }
  return new ak::ContentPtr(c);
}
inline const ak::ContentPtr& C(void* h) { return *reinterpret_cast<ak::ContentPtr*>(h); }

template <typename T> int index_kind();
template <> inline int index_kind<int8_t>() { return 0; }
template <> inline int index_kind<uint8_t>() { return 1; }
template <> inline int index_kind<int32_t>() { return 2; }
template <> inline int index_kind<uint32_t>() { return 3; }
template <> inline int index_kind<int64_t>() { return 4; }

template <typename T>
inline void* box_index(const ak::IndexOf<T>& idx) {
  IndexH* h = new IndexH();
  h->kind = index_kind<T>();
  h->p = std::make_shared<ak::IndexOf<T>>(idx);
  return h;
}
template <typename T>
inline const ak::IndexOf<T>& IDX(void* h) {
  IndexH* ih = reinterpret_cast<IndexH*>(h);
  if (ih->kind != index_kind<T>()) {
    throw std::invalid_argument("bridge: Index handle has the wrong width");
  }
  return *reinterpret_cast<ak::IndexOf<T>*>(ih->p.get());
}

std::string akb_json_escape(const std::string& s);
ak::util::Parameters akb_parse_params(const char* flat);
std::string akb_describe_content(const ak::ContentPtr& c);

#endif
