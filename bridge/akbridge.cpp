// Harness code (not part of awkward-1.0): a C ABI over libawkward's public C++ API.
// Every C++ exception is caught at the boundary; a signal or sanitizer abort is not.
#include "akb.h"

thread_local std::string akb_err;
thread_local int akb_errkind = 0;
thread_local std::string akb_str;

AKB_EXPORT const char* akb_error() { return akb_err.c_str(); }
AKB_EXPORT int akb_error_kind() { return akb_errkind; }
AKB_EXPORT void akb_clear_error() { akb_err.clear(); akb_errkind = 0; }
AKB_EXPORT int64_t akb_str_len() { return (int64_t)akb_str.size(); }
AKB_EXPORT const char* akb_str_ptr() { return akb_str.data(); }

std::string akb_json_escape(const std::string& s) {
  std::string out = "\"";
  char buf[8];
  for (size_t i = 0; i < s.size(); i++) {
    unsigned char c = (unsigned char)s[i];
    if (c == '"') out += "\\\"";
    else if (c == '\\') out += "\\\\";
    else if (c < 0x20) { snprintf(buf, 8, "\\u%04x", c); out += buf; }
    else out += (char)c;
  }
  out += "\"";
  return out;
}

static ak::util::Parameters mkparams(const char** keys, const char** vals, int n) {
  ak::util::Parameters p;
  for (int i = 0; i < n; i++) p[std::string(keys[i])] = std::string(vals[i]);
  return p;
}

static std::shared_ptr<void> copybuf(const void* src, int64_t nbytes) {
  void* p = malloc(nbytes > 0 ? (size_t)nbytes : 0);
  if (nbytes > 0) memcpy(p, src, (size_t)nbytes);
  return std::shared_ptr<void>(p, free);
}

// ---------------------------------------------------------------- Index

template <typename T>
static void* mk_index(const void* data, int64_t total, int64_t offset, int64_t length) {
  std::shared_ptr<void> raw = copybuf(data, total * (int64_t)sizeof(T));
  std::shared_ptr<T> ptr(raw, reinterpret_cast<T*>(raw.get()));
  return box_index<T>(ak::IndexOf<T>(ptr, offset, length, ak::kernel::lib::cpu));
}

AKB_EXPORT void* akb_index(int kind, const void* data, int64_t total, int64_t offset, int64_t length) {
  AKB_TRY
  switch (kind) {
    case 0: return mk_index<int8_t>(data, total, offset, length);
    case 1: return mk_index<uint8_t>(data, total, offset, length);
    case 2: return mk_index<int32_t>(data, total, offset, length);
    case 3: return mk_index<uint32_t>(data, total, offset, length);
    case 4: return mk_index<int64_t>(data, total, offset, length);
  }
  throw std::invalid_argument("bridge: bad index kind");
  AKB_CATCH(nullptr)
}
AKB_EXPORT void akb_index_free(void* h) { delete reinterpret_cast<IndexH*>(h); }
AKB_EXPORT int akb_index_kind(void* h) { return reinterpret_cast<IndexH*>(h)->kind; }

template <typename T>
static void index_info(void* h, int64_t* length, int64_t* offset, void** data) {
  const ak::IndexOf<T>& x = IDX<T>(h);
  *length = x.length(); *offset = x.offset(); *data = (void*)x.data();
}
// data points at element 0 of the window (ptr + offset)
AKB_EXPORT int akb_index_info(void* h, int64_t* length, int64_t* offset, void** data) {
  AKB_TRY
  switch (reinterpret_cast<IndexH*>(h)->kind) {
    case 0: index_info<int8_t>(h, length, offset, data); break;
    case 1: index_info<uint8_t>(h, length, offset, data); break;
    case 2: index_info<int32_t>(h, length, offset, data); break;
    case 3: index_info<uint32_t>(h, length, offset, data); break;
    case 4: index_info<int64_t>(h, length, offset, data); break;
  }
  return 0;
  AKB_CATCH(-1)
}

template <typename T>
static std::string describe_index(const ak::IndexOf<T>& x) {
  static const char* names[] = {"i8", "u8", "i32", "u32", "i64"};
  std::stringstream out;
  out << "{\"k\":\"" << names[index_kind<T>()] << "\",\"v\":[";
  for (int64_t i = 0; i < x.length(); i++) {
    if (i) out << ",";
    out << (int64_t)x.data()[i];
  }
  out << "]}";
  return out.str();
}
static std::string describe_index_u64safe(const ak::IndexOf<uint32_t>& x) { return describe_index<uint32_t>(x); }

AKB_EXPORT const char* akb_index_describe(void* h) {
  AKB_TRY
  switch (reinterpret_cast<IndexH*>(h)->kind) {
    case 0: akb_str = describe_index(IDX<int8_t>(h)); break;
    case 1: akb_str = describe_index(IDX<uint8_t>(h)); break;
    case 2: akb_str = describe_index(IDX<int32_t>(h)); break;
    case 3: akb_str = describe_index(IDX<uint32_t>(h)); break;
    case 4: akb_str = describe_index(IDX<int64_t>(h)); break;
  }
  return akb_str.c_str();
  AKB_CATCH(nullptr)
}

// ---------------------------------------------------------------- node constructors

AKB_EXPORT void akb_free(void* h) { delete reinterpret_cast<ak::ContentPtr*>(h); }
AKB_EXPORT int64_t akb_use_count(void* h) { return (int64_t)C(h).use_count(); }

AKB_EXPORT void* akb_numpy(const void* buf, int64_t nbytes, int64_t byteoffset, int ndim,
                           const int64_t* shape, const int64_t* strides, int64_t itemsize,
                           const char* format, const char* dtypename) {
  AKB_TRY
  std::shared_ptr<void> raw = copybuf(buf, nbytes);
  std::vector<ssize_t> sh, st;
  for (int i = 0; i < ndim; i++) { sh.push_back((ssize_t)shape[i]); st.push_back((ssize_t)strides[i]); }
  ak::util::dtype dt = ak::util::name_to_dtype(dtypename);
  return box_content(std::make_shared<ak::NumpyArray>(
      ak::Identities::none(), ak::util::Parameters(), raw, sh, st, (ssize_t)byteoffset,
      (ssize_t)itemsize, std::string(format), dt, ak::kernel::lib::cpu));
  AKB_CATCH(nullptr)
}

AKB_EXPORT void* akb_empty() {
  AKB_TRY
  return box_content(std::make_shared<ak::EmptyArray>(ak::Identities::none(), ak::util::Parameters()));
  AKB_CATCH(nullptr)
}

AKB_EXPORT void* akb_regular(void* content, int64_t size, int64_t zeros_length) {
  AKB_TRY
  return box_content(std::make_shared<ak::RegularArray>(
      ak::Identities::none(), ak::util::Parameters(), C(content), size, zeros_length));
  AKB_CATCH(nullptr)
}

AKB_EXPORT void* akb_listoffset(void* offsets, void* content) {
  AKB_TRY
  switch (reinterpret_cast<IndexH*>(offsets)->kind) {
    case 2: return box_content(std::make_shared<ak::ListOffsetArray32>(
        ak::Identities::none(), ak::util::Parameters(), IDX<int32_t>(offsets), C(content)));
    case 3: return box_content(std::make_shared<ak::ListOffsetArrayU32>(
        ak::Identities::none(), ak::util::Parameters(), IDX<uint32_t>(offsets), C(content)));
    case 4: return box_content(std::make_shared<ak::ListOffsetArray64>(
        ak::Identities::none(), ak::util::Parameters(), IDX<int64_t>(offsets), C(content)));
  }
  throw std::invalid_argument("bridge: bad offsets kind");
  AKB_CATCH(nullptr)
}

AKB_EXPORT void* akb_list(void* starts, void* stops, void* content) {
  AKB_TRY
  switch (reinterpret_cast<IndexH*>(starts)->kind) {
    case 2: return box_content(std::make_shared<ak::ListArray32>(
        ak::Identities::none(), ak::util::Parameters(), IDX<int32_t>(starts), IDX<int32_t>(stops), C(content)));
    case 3: return box_content(std::make_shared<ak::ListArrayU32>(
        ak::Identities::none(), ak::util::Parameters(), IDX<uint32_t>(starts), IDX<uint32_t>(stops), C(content)));
    case 4: return box_content(std::make_shared<ak::ListArray64>(
        ak::Identities::none(), ak::util::Parameters(), IDX<int64_t>(starts), IDX<int64_t>(stops), C(content)));
  }
  throw std::invalid_argument("bridge: bad starts kind");
  AKB_CATCH(nullptr)
}

AKB_EXPORT void* akb_indexed(void* index, void* content, int isoption) {
  AKB_TRY
  int k = reinterpret_cast<IndexH*>(index)->kind;
  if (isoption) {
    if (k == 2) return box_content(std::make_shared<ak::IndexedOptionArray32>(
        ak::Identities::none(), ak::util::Parameters(), IDX<int32_t>(index), C(content)));
    if (k == 4) return box_content(std::make_shared<ak::IndexedOptionArray64>(
        ak::Identities::none(), ak::util::Parameters(), IDX<int64_t>(index), C(content)));
  }
  else {
    if (k == 2) return box_content(std::make_shared<ak::IndexedArray32>(
        ak::Identities::none(), ak::util::Parameters(), IDX<int32_t>(index), C(content)));
    if (k == 3) return box_content(std::make_shared<ak::IndexedArrayU32>(
        ak::Identities::none(), ak::util::Parameters(), IDX<uint32_t>(index), C(content)));
    if (k == 4) return box_content(std::make_shared<ak::IndexedArray64>(
        ak::Identities::none(), ak::util::Parameters(), IDX<int64_t>(index), C(content)));
  }
  throw std::invalid_argument("bridge: bad index kind for IndexedArray");
  AKB_CATCH(nullptr)
}

AKB_EXPORT void* akb_bytemasked(void* mask, void* content, int valid_when) {
  AKB_TRY
  return box_content(std::make_shared<ak::ByteMaskedArray>(
      ak::Identities::none(), ak::util::Parameters(), IDX<int8_t>(mask), C(content), valid_when != 0));
  AKB_CATCH(nullptr)
}

AKB_EXPORT void* akb_bitmasked(void* mask, void* content, int valid_when, int64_t length, int lsb_order) {
  AKB_TRY
  return box_content(std::make_shared<ak::BitMaskedArray>(
      ak::Identities::none(), ak::util::Parameters(), IDX<uint8_t>(mask), C(content), valid_when != 0,
      length, lsb_order != 0));
  AKB_CATCH(nullptr)
}

AKB_EXPORT void* akb_unmasked(void* content) {
  AKB_TRY
  return box_content(std::make_shared<ak::UnmaskedArray>(
      ak::Identities::none(), ak::util::Parameters(), C(content)));
  AKB_CATCH(nullptr)
}

// keys == NULL -> tuple
AKB_EXPORT void* akb_record(void** contents, int n, const char** keys, int64_t length) {
  AKB_TRY
  ak::ContentPtrVec cs;
  for (int i = 0; i < n; i++) cs.push_back(C(contents[i]));
  ak::util::RecordLookupPtr lookup(nullptr);
  if (keys != nullptr) {
    lookup = std::make_shared<ak::util::RecordLookup>();
    for (int i = 0; i < n; i++) lookup->push_back(std::string(keys[i]));
  }
  return box_content(std::make_shared<ak::RecordArray>(
      ak::Identities::none(), ak::util::Parameters(), cs, lookup, length));
  AKB_CATCH(nullptr)
}

AKB_EXPORT void* akb_union(void* tags, void* index, void** contents, int n) {
  AKB_TRY
  ak::ContentPtrVec cs;
  for (int i = 0; i < n; i++) cs.push_back(C(contents[i]));
  switch (reinterpret_cast<IndexH*>(index)->kind) {
    case 2: return box_content(std::make_shared<ak::UnionArray8_32>(
        ak::Identities::none(), ak::util::Parameters(), IDX<int8_t>(tags), IDX<int32_t>(index), cs));
    case 3: return box_content(std::make_shared<ak::UnionArray8_U32>(
        ak::Identities::none(), ak::util::Parameters(), IDX<int8_t>(tags), IDX<uint32_t>(index), cs));
    case 4: return box_content(std::make_shared<ak::UnionArray8_64>(
        ak::Identities::none(), ak::util::Parameters(), IDX<int8_t>(tags), IDX<int64_t>(index), cs));
  }
  throw std::invalid_argument("bridge: bad index kind for UnionArray");
  AKB_CATCH(nullptr)
}

AKB_EXPORT int akb_setparameters(void* h, const char** keys, const char** vals, int n) {
  AKB_TRY
  C(h)->setparameters(mkparams(keys, vals, n));
  return 0;
  AKB_CATCH(-1)
}

// ---------------------------------------------------------------- describe

static std::string describe_params(const ak::util::Parameters& p) {
  std::string out = "{";
  bool first = true;
  for (auto& kv : p) {
    if (!first) out += ",";
    first = false;
    out += akb_json_escape(kv.first) + ":" + akb_json_escape(kv.second);   // values kept as JSON *text*
  }
  return out + "}";
}

static std::string hexbytes(const uint8_t* p, int64_t n) {
  static const char* d = "0123456789abcdef";
  std::string out;
  out.reserve((size_t)(n * 2));
  for (int64_t i = 0; i < n; i++) { out += d[p[i] >> 4]; out += d[p[i] & 15]; }
  return out;
}

static std::string describe_numpy(const ak::NumpyArray* a) {
  std::stringstream out;
  std::vector<ssize_t> shape = a->shape();
  std::vector<ssize_t> strides = a->strides();
  out << "{\"c\":\"NumpyArray\",\"dtype\":" << akb_json_escape(ak::util::dtype_to_name(a->dtype()))
      << ",\"format\":" << akb_json_escape(a->format())
      << ",\"itemsize\":" << a->itemsize() << ",\"shape\":[";
  for (size_t i = 0; i < shape.size(); i++) { if (i) out << ","; out << shape[i]; }
  out << "],\"strides\":[";
  for (size_t i = 0; i < strides.size(); i++) { if (i) out << ","; out << strides[i]; }
  out << "],";
  int64_t lo = 0, hi = (int64_t)a->itemsize();
  bool empty = false;
  for (size_t i = 0; i < shape.size(); i++) {
    if (shape[i] == 0) empty = true;
    else {
      int64_t span = (int64_t)(shape[i] - 1) * (int64_t)strides[i];
      if (span < 0) lo += span; else hi += span;
    }
  }
  if (empty) { lo = 0; hi = 0; }
  const uint8_t* base = reinterpret_cast<const uint8_t*>(a->ptr().get()) + a->byteoffset();
  out << "\"lo\":" << lo << ",\"hex\":\"" << (hi > lo ? hexbytes(base + lo, hi - lo) : std::string()) << "\""
      << ",\"scalar\":" << (a->isscalar() ? "true" : "false")
      << ",\"params\":" << describe_params(a->parameters()) << "}";
  return out.str();
}

std::string akb_describe_content(const ak::ContentPtr& c) {
  ak::Content* raw = c.get();
  if (raw == nullptr) return "null";
  std::string P = ",\"params\":" + describe_params(raw->parameters()) + "}";
  std::stringstream out;
  if (ak::NumpyArray* a = dynamic_cast<ak::NumpyArray*>(raw)) return describe_numpy(a);
  if (dynamic_cast<ak::None*>(raw)) return "{\"c\":\"None\"}";
  if (dynamic_cast<ak::EmptyArray*>(raw)) return "{\"c\":\"EmptyArray\"" + P;
  if (ak::RegularArray* a = dynamic_cast<ak::RegularArray*>(raw)) {
    out << "{\"c\":\"RegularArray\",\"size\":" << a->size() << ",\"length\":" << a->length()
        << ",\"content\":" << akb_describe_content(a->content()) << P;
    return out.str();
  }
#define LISTOFFSET(CLS, W)                                                          \
  if (ak::CLS* a = dynamic_cast<ak::CLS*>(raw)) {                                   \
    out << "{\"c\":\"ListOffsetArray\",\"w\":\"" W "\",\"offsets\":" << describe_index(a->offsets()) \
        << ",\"content\":" << akb_describe_content(a->content()) << P;              \
    return out.str();                                                               \
  }
  LISTOFFSET(ListOffsetArray32, "32") LISTOFFSET(ListOffsetArrayU32, "U32") LISTOFFSET(ListOffsetArray64, "64")
#define LISTARR(CLS, W)                                                             \
  if (ak::CLS* a = dynamic_cast<ak::CLS*>(raw)) {                                   \
    out << "{\"c\":\"ListArray\",\"w\":\"" W "\",\"starts\":" << describe_index(a->starts()) \
        << ",\"stops\":" << describe_index(a->stops())                              \
        << ",\"content\":" << akb_describe_content(a->content()) << P;              \
    return out.str();                                                               \
  }
  LISTARR(ListArray32, "32") LISTARR(ListArrayU32, "U32") LISTARR(ListArray64, "64")
#define INDEXED(CLS, W, OPT)                                                        \
  if (ak::CLS* a = dynamic_cast<ak::CLS*>(raw)) {                                   \
    out << "{\"c\":\"" OPT "\",\"w\":\"" W "\",\"index\":" << describe_index(a->index()) \
        << ",\"content\":" << akb_describe_content(a->content()) << P;              \
    return out.str();                                                               \
  }
  INDEXED(IndexedArray32, "32", "IndexedArray") INDEXED(IndexedArrayU32, "U32", "IndexedArray")
  INDEXED(IndexedArray64, "64", "IndexedArray")
  INDEXED(IndexedOptionArray32, "32", "IndexedOptionArray") INDEXED(IndexedOptionArray64, "64", "IndexedOptionArray")
  if (ak::ByteMaskedArray* a = dynamic_cast<ak::ByteMaskedArray*>(raw)) {
    out << "{\"c\":\"ByteMaskedArray\",\"mask\":" << describe_index(a->mask())
        << ",\"valid_when\":" << (a->valid_when() ? "true" : "false")
        << ",\"content\":" << akb_describe_content(a->content()) << P;
    return out.str();
  }
  if (ak::BitMaskedArray* a = dynamic_cast<ak::BitMaskedArray*>(raw)) {
    out << "{\"c\":\"BitMaskedArray\",\"mask\":" << describe_index(a->mask())
        << ",\"valid_when\":" << (a->valid_when() ? "true" : "false")
        << ",\"length\":" << a->length()
        << ",\"lsb_order\":" << (a->lsb_order() ? "true" : "false")
        << ",\"content\":" << akb_describe_content(a->content()) << P;
    return out.str();
  }
  if (ak::UnmaskedArray* a = dynamic_cast<ak::UnmaskedArray*>(raw)) {
    out << "{\"c\":\"UnmaskedArray\",\"content\":" << akb_describe_content(a->content()) << P;
    return out.str();
  }
  if (ak::RecordArray* a = dynamic_cast<ak::RecordArray*>(raw)) {
    out << "{\"c\":\"RecordArray\",\"length\":" << a->length() << ",\"keys\":";
    if (a->istuple()) out << "null";
    else {
      out << "[";
      std::vector<std::string> ks = a->keys();
      for (size_t i = 0; i < ks.size(); i++) { if (i) out << ","; out << akb_json_escape(ks[i]); }
      out << "]";
    }
    out << ",\"contents\":[";
    ak::ContentPtrVec cs = a->contents();
    for (size_t i = 0; i < cs.size(); i++) { if (i) out << ","; out << akb_describe_content(cs[i]); }
    out << "]" << P;
    return out.str();
  }
  if (ak::Record* a = dynamic_cast<ak::Record*>(raw)) {
    out << "{\"c\":\"Record\",\"at\":" << a->at() << ",\"array\":"
        << akb_describe_content(std::const_pointer_cast<ak::RecordArray>(a->array())) << "}";
    return out.str();
  }
#define UNION(CLS, W)                                                               \
  if (ak::CLS* a = dynamic_cast<ak::CLS*>(raw)) {                                   \
    out << "{\"c\":\"UnionArray\",\"w\":\"" W "\",\"tags\":" << describe_index(a->tags()) \
        << ",\"index\":" << describe_index(a->index()) << ",\"contents\":[";        \
    ak::ContentPtrVec cs = a->contents();                                           \
    for (size_t i = 0; i < cs.size(); i++) { if (i) out << ","; out << akb_describe_content(cs[i]); } \
    out << "]" << P;                                                                \
    return out.str();                                                               \
  }
  UNION(UnionArray8_32, "32") UNION(UnionArray8_U32, "U32") UNION(UnionArray8_64, "64")
  if (ak::VirtualArray* a = dynamic_cast<ak::VirtualArray*>(raw)) {
    out << "{\"c\":\"VirtualArray\",\"cache_key\":" << akb_json_escape(a->cache_key()) << P;
    return out.str();
  }
  return "{\"c\":" + akb_json_escape(raw->classname()) + ",\"unknown\":true}";
}

AKB_EXPORT const char* akb_describe(void* h) {
  AKB_TRY
  akb_str = akb_describe_content(C(h));
  return akb_str.c_str();
  AKB_CATCH(nullptr)
}

// ---------------------------------------------------------------- simple queries

AKB_EXPORT int64_t akb_length(void* h) {
  AKB_TRY return C(h)->length(); AKB_CATCH(-1)
}
AKB_EXPORT const char* akb_classname(void* h) {
  AKB_TRY akb_str = C(h)->classname(); return akb_str.c_str(); AKB_CATCH(nullptr)
}
AKB_EXPORT const char* akb_tostring(void* h) {
  AKB_TRY akb_str = C(h)->tostring(); return akb_str.c_str(); AKB_CATCH(nullptr)
}
AKB_EXPORT const char* akb_validityerror(void* h) {
  AKB_TRY akb_str = C(h)->validityerror("layout"); return akb_str.c_str(); AKB_CATCH(nullptr)
}
AKB_EXPORT int akb_isscalar(void* h) {
  AKB_TRY return C(h)->isscalar() ? 1 : 0; AKB_CATCH(-1)
}
AKB_EXPORT int64_t akb_purelist_depth(void* h) {
  AKB_TRY return C(h)->purelist_depth(); AKB_CATCH(-999)
}
AKB_EXPORT int akb_minmax_depth(void* h, int64_t* mn, int64_t* mx) {
  AKB_TRY std::pair<int64_t, int64_t> p = C(h)->minmax_depth(); *mn = p.first; *mx = p.second; return 0; AKB_CATCH(-1)
}
AKB_EXPORT int akb_branch_depth(void* h, int64_t* branch, int64_t* depth) {
  AKB_TRY std::pair<bool, int64_t> p = C(h)->branch_depth(); *branch = p.first ? 1 : 0; *depth = p.second; return 0; AKB_CATCH(-1)
}
AKB_EXPORT int akb_purelist_isregular(void* h) {
  AKB_TRY return C(h)->purelist_isregular() ? 1 : 0; AKB_CATCH(-1)
}
AKB_EXPORT int64_t akb_numfields(void* h) {
  AKB_TRY return C(h)->numfields(); AKB_CATCH(-999)
}
AKB_EXPORT int akb_haskey(void* h, const char* key) {
  AKB_TRY return C(h)->haskey(key) ? 1 : 0; AKB_CATCH(-1)
}
AKB_EXPORT int64_t akb_fieldindex(void* h, const char* key) {
  AKB_TRY return C(h)->fieldindex(key); AKB_CATCH(-999)
}
AKB_EXPORT const char* akb_key(void* h, int64_t i) {
  AKB_TRY akb_str = C(h)->key(i); return akb_str.c_str(); AKB_CATCH(nullptr)
}
// keys joined by \x1f
AKB_EXPORT const char* akb_keys(void* h) {
  AKB_TRY
  std::vector<std::string> ks = C(h)->keys();
  akb_str.clear();
  for (size_t i = 0; i < ks.size(); i++) { if (i) akb_str += '\x1f'; akb_str += ks[i]; }
  return akb_str.c_str();
  AKB_CATCH(nullptr)
}
AKB_EXPORT const char* akb_purelist_parameter(void* h, const char* key) {
  AKB_TRY akb_str = C(h)->purelist_parameter(key); return akb_str.c_str(); AKB_CATCH(nullptr)
}
AKB_EXPORT int64_t akb_axis_wrap_if_negative(void* h, int64_t axis, int* ok) {
  *ok = 0;
  AKB_TRY int64_t r = C(h)->axis_wrap_if_negative(axis); *ok = 1; return r; AKB_CATCH(0)
}
AKB_EXPORT int64_t akb_nbytes(void* h) {
  AKB_TRY return C(h)->nbytes(); AKB_CATCH(-1)
}

// ---------------------------------------------------------------- structure accessors

AKB_EXPORT void* akb_content_of(void* h, int64_t i) {
  AKB_TRY
  ak::Content* raw = C(h).get();
#define GETC(CLS) if (ak::CLS* a = dynamic_cast<ak::CLS*>(raw)) return box_content(a->content());
  GETC(RegularArray) GETC(ListOffsetArray32) GETC(ListOffsetArrayU32) GETC(ListOffsetArray64)
  GETC(ListArray32) GETC(ListArrayU32) GETC(ListArray64)
  GETC(IndexedArray32) GETC(IndexedArrayU32) GETC(IndexedArray64) GETC(IndexedOptionArray32) GETC(IndexedOptionArray64)
  GETC(ByteMaskedArray) GETC(BitMaskedArray) GETC(UnmaskedArray)
  if (ak::RecordArray* a = dynamic_cast<ak::RecordArray*>(raw)) return box_content(a->contents().at((size_t)i));
  if (ak::UnionArray8_32* a = dynamic_cast<ak::UnionArray8_32*>(raw)) return box_content(a->contents().at((size_t)i));
  if (ak::UnionArray8_U32* a = dynamic_cast<ak::UnionArray8_U32*>(raw)) return box_content(a->contents().at((size_t)i));
  if (ak::UnionArray8_64* a = dynamic_cast<ak::UnionArray8_64*>(raw)) return box_content(a->contents().at((size_t)i));
  if (ak::Record* a = dynamic_cast<ak::Record*>(raw)) return box_content(std::const_pointer_cast<ak::RecordArray>(a->array()));
  throw std::invalid_argument("bridge: node has no content");
  AKB_CATCH(nullptr)
}

AKB_EXPORT int64_t akb_numcontents(void* h) {
  AKB_TRY
  ak::Content* raw = C(h).get();
  if (ak::RecordArray* a = dynamic_cast<ak::RecordArray*>(raw)) return (int64_t)a->contents().size();
  if (ak::UnionArray8_32* a = dynamic_cast<ak::UnionArray8_32*>(raw)) return a->numcontents();
  if (ak::UnionArray8_U32* a = dynamic_cast<ak::UnionArray8_U32*>(raw)) return a->numcontents();
  if (ak::UnionArray8_64* a = dynamic_cast<ak::UnionArray8_64*>(raw)) return a->numcontents();
  return 1;
  AKB_CATCH(-1)
}

// which: "offsets" "starts" "stops" "index" "mask" "tags"
AKB_EXPORT void* akb_index_of(void* h, const char* which) {
  AKB_TRY
  ak::Content* raw = C(h).get();
  std::string w(which);
#define GETI(CLS, NAME, METH) if (w == NAME) if (ak::CLS* a = dynamic_cast<ak::CLS*>(raw)) return box_index(a->METH());
  GETI(ListOffsetArray32, "offsets", offsets) GETI(ListOffsetArrayU32, "offsets", offsets) GETI(ListOffsetArray64, "offsets", offsets)
  GETI(ListArray32, "starts", starts) GETI(ListArrayU32, "starts", starts) GETI(ListArray64, "starts", starts)
  GETI(ListArray32, "stops", stops) GETI(ListArrayU32, "stops", stops) GETI(ListArray64, "stops", stops)
  GETI(IndexedArray32, "index", index) GETI(IndexedArrayU32, "index", index) GETI(IndexedArray64, "index", index)
  GETI(IndexedOptionArray32, "index", index) GETI(IndexedOptionArray64, "index", index)
  GETI(ByteMaskedArray, "mask", mask) GETI(BitMaskedArray, "mask", mask)
  GETI(UnionArray8_32, "tags", tags) GETI(UnionArray8_U32, "tags", tags) GETI(UnionArray8_64, "tags", tags)
  GETI(UnionArray8_32, "index", index) GETI(UnionArray8_U32, "index", index) GETI(UnionArray8_64, "index", index)
  throw std::invalid_argument("bridge: node has no such index");
  AKB_CATCH(nullptr)
}

// NumpyArray raw view: pointer to element 0 (ptr + byteoffset); shape/strides via describe
AKB_EXPORT void* akb_numpy_data(void* h) {
  AKB_TRY
  if (ak::NumpyArray* a = dynamic_cast<ak::NumpyArray*>(C(h).get())) return a->data();
  throw std::invalid_argument("bridge: not a NumpyArray");
  AKB_CATCH(nullptr)
}

// ---------------------------------------------------------------- slices

AKB_EXPORT void* akb_slice_new() { return new ak::Slice(); }
AKB_EXPORT void akb_slice_free(void* s) { delete reinterpret_cast<ak::Slice*>(s); }
AKB_EXPORT void akb_sliceitem_free(void* s) { delete reinterpret_cast<ak::SliceItemPtr*>(s); }
#define SL(s) (*reinterpret_cast<ak::Slice*>(s))

AKB_EXPORT int akb_slice_at(void* s, int64_t at) {
  AKB_TRY SL(s).append(std::make_shared<ak::SliceAt>(at)); return 0; AKB_CATCH(-1)
}
AKB_EXPORT int akb_slice_range(void* s, int hasstart, int64_t start, int hasstop, int64_t stop, int64_t step) {
  AKB_TRY
  if (step == 0) throw std::invalid_argument("slice step must not be 0");
  SL(s).append(std::make_shared<ak::SliceRange>(hasstart ? start : ak::Slice::none(),
                                               hasstop ? stop : ak::Slice::none(), step));
  return 0;
  AKB_CATCH(-1)
}
AKB_EXPORT int akb_slice_ellipsis(void* s) {
  AKB_TRY SL(s).append(std::make_shared<ak::SliceEllipsis>()); return 0; AKB_CATCH(-1)
}
AKB_EXPORT int akb_slice_newaxis(void* s) {
  AKB_TRY SL(s).append(std::make_shared<ak::SliceNewAxis>()); return 0; AKB_CATCH(-1)
}
AKB_EXPORT int akb_slice_field(void* s, const char* key) {
  AKB_TRY SL(s).append(std::make_shared<ak::SliceField>(std::string(key))); return 0; AKB_CATCH(-1)
}
AKB_EXPORT int akb_slice_fields(void* s, const char** keys, int n) {
  AKB_TRY
  std::vector<std::string> ks;
  for (int i = 0; i < n; i++) ks.push_back(std::string(keys[i]));
  SL(s).append(std::make_shared<ak::SliceFields>(ks));
  return 0;
  AKB_CATCH(-1)
}
// strides in items, like the binding
AKB_EXPORT int akb_slice_array(void* s, void* index64, int ndim, const int64_t* shape, const int64_t* strides, int frombool) {
  AKB_TRY
  std::vector<int64_t> sh(shape, shape + ndim), st(strides, strides + ndim);
  SL(s).append(std::make_shared<ak::SliceArray64>(IDX<int64_t>(index64), sh, st, frombool != 0));
  return 0;
  AKB_CATCH(-1)
}
AKB_EXPORT int akb_slice_item(void* s, void* item) {
  AKB_TRY SL(s).append(*reinterpret_cast<ak::SliceItemPtr*>(item)); return 0; AKB_CATCH(-1)
}
AKB_EXPORT int akb_slice_seal(void* s) {
  AKB_TRY SL(s).become_sealed(); return 0; AKB_CATCH(-1)
}
AKB_EXPORT const char* akb_slice_tostring(void* s) {
  AKB_TRY akb_str = SL(s).tostring(); return akb_str.c_str(); AKB_CATCH(nullptr)
}
AKB_EXPORT void* akb_asslice(void* h) {
  AKB_TRY
  ak::SliceItemPtr item = C(h)->asslice();
  return new ak::SliceItemPtr(item);
  AKB_CATCH(nullptr)
}

// ---------------------------------------------------------------- operations

AKB_EXPORT void* akb_getitem(void* h, void* s) {
  AKB_TRY return box_content(C(h)->getitem(SL(s))); AKB_CATCH(nullptr)
}
AKB_EXPORT void* akb_getitem_at(void* h, int64_t at) {
  AKB_TRY return box_content(C(h)->getitem_at(at)); AKB_CATCH(nullptr)
}
AKB_EXPORT void* akb_getitem_range(void* h, int64_t start, int64_t stop) {
  AKB_TRY return box_content(C(h)->getitem_range(start, stop)); AKB_CATCH(nullptr)
}
AKB_EXPORT void* akb_getitem_field(void* h, const char* key) {
  AKB_TRY return box_content(C(h)->getitem_field(std::string(key))); AKB_CATCH(nullptr)
}
AKB_EXPORT void* akb_getitem_fields(void* h, const char** keys, int n) {
  AKB_TRY
  std::vector<std::string> ks;
  for (int i = 0; i < n; i++) ks.push_back(std::string(keys[i]));
  return box_content(C(h)->getitem_fields(ks));
  AKB_CATCH(nullptr)
}
AKB_EXPORT void* akb_getitem_nothing(void* h) {
  AKB_TRY return box_content(C(h)->getitem_nothing()); AKB_CATCH(nullptr)
}
AKB_EXPORT void* akb_carry(void* h, void* index64, int allow_lazy) {
  AKB_TRY return box_content(C(h)->carry(IDX<int64_t>(index64), allow_lazy != 0)); AKB_CATCH(nullptr)
}
AKB_EXPORT void* akb_shallow_copy(void* h) {
  AKB_TRY return box_content(C(h)->shallow_copy()); AKB_CATCH(nullptr)
}
AKB_EXPORT void* akb_deep_copy(void* h, int arrays, int indexes, int identities) {
  AKB_TRY return box_content(C(h)->deep_copy(arrays != 0, indexes != 0, identities != 0)); AKB_CATCH(nullptr)
}
AKB_EXPORT void* akb_num(void* h, int64_t axis) {
  AKB_TRY return box_content(C(h)->num(axis, 0)); AKB_CATCH(nullptr)
}
AKB_EXPORT void* akb_flatten(void* h, int64_t axis, void** offsets_out) {
  AKB_TRY
  std::pair<ak::Index64, ak::ContentPtr> p = C(h)->offsets_and_flattened(axis, 0);
  if (offsets_out != nullptr) *offsets_out = box_index<int64_t>(p.first);
  return box_content(p.second);
  AKB_CATCH(nullptr)
}
AKB_EXPORT void* akb_localindex(void* h, int64_t axis) {
  AKB_TRY return box_content(C(h)->localindex(axis, 0)); AKB_CATCH(nullptr)
}
AKB_EXPORT void* akb_reduce(void* h, const char* name, int64_t axis, int mask, int keepdims) {
  AKB_TRY
  std::string n(name);
  bool m = mask != 0, k = keepdims != 0;
  if (n == "count") { ak::ReducerCount r; return box_content(C(h)->reduce(r, axis, m, k)); }
  if (n == "count_nonzero") { ak::ReducerCountNonzero r; return box_content(C(h)->reduce(r, axis, m, k)); }
  if (n == "sum") { ak::ReducerSum r; return box_content(C(h)->reduce(r, axis, m, k)); }
  if (n == "prod") { ak::ReducerProd r; return box_content(C(h)->reduce(r, axis, m, k)); }
  if (n == "any") { ak::ReducerAny r; return box_content(C(h)->reduce(r, axis, m, k)); }
  if (n == "all") { ak::ReducerAll r; return box_content(C(h)->reduce(r, axis, m, k)); }
  if (n == "min") { ak::ReducerMin r; return box_content(C(h)->reduce(r, axis, m, k)); }
  if (n == "max") { ak::ReducerMax r; return box_content(C(h)->reduce(r, axis, m, k)); }
  if (n == "argmin") { ak::ReducerArgmin r; return box_content(C(h)->reduce(r, axis, m, k)); }
  if (n == "argmax") { ak::ReducerArgmax r; return box_content(C(h)->reduce(r, axis, m, k)); }
  throw std::invalid_argument("bridge: unknown reducer");
  AKB_CATCH(nullptr)
}
AKB_EXPORT void* akb_reduce_initial(void* h, const char* name, int64_t axis, int mask, int keepdims,
                                    double f64, uint64_t u64, int64_t i64) {
  AKB_TRY
  std::string n(name);
  bool m = mask != 0, k = keepdims != 0;
  if (n == "min") { ak::ReducerMin r(f64, u64, i64); return box_content(C(h)->reduce(r, axis, m, k)); }
  if (n == "max") { ak::ReducerMax r(f64, u64, i64); return box_content(C(h)->reduce(r, axis, m, k)); }
  throw std::invalid_argument("bridge: unknown reducer with initial");
  AKB_CATCH(nullptr)
}
AKB_EXPORT void* akb_sort(void* h, int64_t axis, int ascending, int stable) {
  AKB_TRY return box_content(C(h)->sort(axis, ascending != 0, stable != 0)); AKB_CATCH(nullptr)
}
AKB_EXPORT void* akb_argsort(void* h, int64_t axis, int ascending, int stable) {
  AKB_TRY return box_content(C(h)->argsort(axis, ascending != 0, stable != 0)); AKB_CATCH(nullptr)
}
AKB_EXPORT void* akb_combinations(void* h, int64_t n, int replacement, const char** keys, int nkeys,
                                  const char** pkeys, const char** pvals, int np, int64_t axis) {
  AKB_TRY
  ak::util::RecordLookupPtr lookup(nullptr);
  if (keys != nullptr) {
    lookup = std::make_shared<ak::util::RecordLookup>();
    for (int i = 0; i < nkeys; i++) lookup->push_back(std::string(keys[i]));
    if (n != (int64_t)lookup->size())
      throw std::invalid_argument("if provided, the length of 'keys' must be 'n'");
  }
  return box_content(C(h)->combinations(n, replacement != 0, lookup, mkparams(pkeys, pvals, np), axis, 0));
  AKB_CATCH(nullptr)
}
AKB_EXPORT void* akb_rpad(void* h, int64_t target, int64_t axis, int clip) {
  AKB_TRY
  if (clip) return box_content(C(h)->rpad_and_clip(target, axis, 0));
  return box_content(C(h)->rpad(target, axis, 0));
  AKB_CATCH(nullptr)
}
AKB_EXPORT void* akb_fillna(void* h, void* value) {
  AKB_TRY return box_content(C(h)->fillna(C(value))); AKB_CATCH(nullptr)
}
AKB_EXPORT void* akb_merge(void* h, void* other) {
  AKB_TRY return box_content(C(h)->merge(C(other))); AKB_CATCH(nullptr)
}
AKB_EXPORT void* akb_merge_as_union(void* h, void* other) {
  AKB_TRY return box_content(C(h)->merge_as_union(C(other))); AKB_CATCH(nullptr)
}
AKB_EXPORT void* akb_mergemany(void* h, void** others, int n) {
  AKB_TRY
  ak::ContentPtrVec v;
  for (int i = 0; i < n; i++) v.push_back(C(others[i]));
  return box_content(C(h)->mergemany(v));
  AKB_CATCH(nullptr)
}
AKB_EXPORT int akb_mergeable(void* h, void* other, int mergebool) {
  AKB_TRY return C(h)->mergeable(C(other), mergebool != 0) ? 1 : 0; AKB_CATCH(-1)
}
AKB_EXPORT void* akb_shallow_simplify(void* h) {
  AKB_TRY return box_content(C(h)->shallow_simplify()); AKB_CATCH(nullptr)
}
AKB_EXPORT void* akb_numbers_to_type(void* h, const char* name) {
  AKB_TRY return box_content(C(h)->numbers_to_type(std::string(name))); AKB_CATCH(nullptr)
}
AKB_EXPORT int akb_is_unique(void* h) {
  AKB_TRY return C(h)->is_unique() ? 1 : 0; AKB_CATCH(-1)
}
AKB_EXPORT void* akb_unique(void* h) {
  AKB_TRY return box_content(C(h)->unique()); AKB_CATCH(nullptr)
}

// ---- class-specific conversions (dispatch by dynamic_cast; invalid_argument when the class has none)

#define OPTCLASSES(M) M(IndexedOptionArray32) M(IndexedOptionArray64) M(ByteMaskedArray) M(BitMaskedArray) M(UnmaskedArray)
#define IDXCLASSES(M) M(IndexedArray32) M(IndexedArrayU32) M(IndexedArray64)
#define LISTCLASSES(M) M(ListArray32) M(ListArrayU32) M(ListArray64) M(ListOffsetArray32) M(ListOffsetArrayU32) M(ListOffsetArray64) M(RegularArray)
#define UNIONCLASSES(M) M(UnionArray8_32) M(UnionArray8_U32) M(UnionArray8_64)

AKB_EXPORT void* akb_project(void* h) {
  AKB_TRY
  ak::Content* raw = C(h).get();
#define M(CLS) if (ak::CLS* a = dynamic_cast<ak::CLS*>(raw)) return box_content(a->project());
  OPTCLASSES(M) IDXCLASSES(M)
#undef M
  throw std::invalid_argument("bridge: class has no project()");
  AKB_CATCH(nullptr)
}
AKB_EXPORT void* akb_project_mask(void* h, void* mask8) {
  AKB_TRY
  ak::Content* raw = C(h).get();
#define M(CLS) if (ak::CLS* a = dynamic_cast<ak::CLS*>(raw)) return box_content(a->project(IDX<int8_t>(mask8)));
  OPTCLASSES(M) IDXCLASSES(M)
#undef M
  throw std::invalid_argument("bridge: class has no project(mask)");
  AKB_CATCH(nullptr)
}
AKB_EXPORT void* akb_union_project(void* h, int64_t which) {
  AKB_TRY
  ak::Content* raw = C(h).get();
#define M(CLS) if (ak::CLS* a = dynamic_cast<ak::CLS*>(raw)) return box_content(a->project(which));
  UNIONCLASSES(M)
#undef M
  throw std::invalid_argument("bridge: class has no project(which)");
  AKB_CATCH(nullptr)
}
AKB_EXPORT void* akb_bytemask(void* h) {
  AKB_TRY
  ak::Content* raw = C(h).get();
#define M(CLS) if (ak::CLS* a = dynamic_cast<ak::CLS*>(raw)) return box_index<int8_t>(a->bytemask());
  OPTCLASSES(M) IDXCLASSES(M)
#undef M
  throw std::invalid_argument("bridge: class has no bytemask()");
  AKB_CATCH(nullptr)
}
AKB_EXPORT void* akb_simplify_optiontype(void* h) {
  AKB_TRY
  ak::Content* raw = C(h).get();
#define M(CLS) if (ak::CLS* a = dynamic_cast<ak::CLS*>(raw)) return box_content(a->simplify_optiontype());
  OPTCLASSES(M) IDXCLASSES(M)
#undef M
  throw std::invalid_argument("bridge: class has no simplify_optiontype()");
  AKB_CATCH(nullptr)
}
AKB_EXPORT void* akb_simplify_uniontype(void* h, int merge, int mergebool) {
  AKB_TRY
  ak::Content* raw = C(h).get();
#define M(CLS) if (ak::CLS* a = dynamic_cast<ak::CLS*>(raw)) return box_content(a->simplify_uniontype(merge != 0, mergebool != 0));
  UNIONCLASSES(M)
#undef M
  throw std::invalid_argument("bridge: class has no simplify_uniontype()");
  AKB_CATCH(nullptr)
}
AKB_EXPORT void* akb_toIndexedOptionArray64(void* h) {
  AKB_TRY
  ak::Content* raw = C(h).get();
  if (ak::ByteMaskedArray* a = dynamic_cast<ak::ByteMaskedArray*>(raw)) return box_content(a->toIndexedOptionArray64());
  if (ak::BitMaskedArray* a = dynamic_cast<ak::BitMaskedArray*>(raw)) return box_content(a->toIndexedOptionArray64());
  if (ak::UnmaskedArray* a = dynamic_cast<ak::UnmaskedArray*>(raw)) return box_content(a->toIndexedOptionArray64());
  throw std::invalid_argument("bridge: class has no toIndexedOptionArray64()");
  AKB_CATCH(nullptr)
}
AKB_EXPORT void* akb_toByteMaskedArray(void* h) {
  AKB_TRY
  if (ak::BitMaskedArray* a = dynamic_cast<ak::BitMaskedArray*>(C(h).get())) return box_content(a->toByteMaskedArray());
  throw std::invalid_argument("bridge: class has no toByteMaskedArray()");
  AKB_CATCH(nullptr)
}
AKB_EXPORT void* akb_toListOffsetArray64(void* h, int start_at_zero) {
  AKB_TRY
  ak::Content* raw = C(h).get();
#define M(CLS) if (ak::CLS* a = dynamic_cast<ak::CLS*>(raw)) return box_content(a->toListOffsetArray64(start_at_zero != 0));
  LISTCLASSES(M)
#undef M
  throw std::invalid_argument("bridge: class has no toListOffsetArray64()");
  AKB_CATCH(nullptr)
}
AKB_EXPORT void* akb_compact_offsets64(void* h, int start_at_zero) {
  AKB_TRY
  ak::Content* raw = C(h).get();
#define M(CLS) if (ak::CLS* a = dynamic_cast<ak::CLS*>(raw)) return box_index<int64_t>(a->compact_offsets64(start_at_zero != 0));
  LISTCLASSES(M)
#undef M
  throw std::invalid_argument("bridge: class has no compact_offsets64()");
  AKB_CATCH(nullptr)
}
AKB_EXPORT void* akb_broadcast_tooffsets64(void* h, void* offsets64) {
  AKB_TRY
  ak::Content* raw = C(h).get();
#define M(CLS) if (ak::CLS* a = dynamic_cast<ak::CLS*>(raw)) return box_content(a->broadcast_tooffsets64(IDX<int64_t>(offsets64)));
  LISTCLASSES(M)
#undef M
  throw std::invalid_argument("bridge: class has no broadcast_tooffsets64()");
  AKB_CATCH(nullptr)
}
AKB_EXPORT void* akb_toRegularArray(void* h) {
  AKB_TRY
  ak::Content* raw = C(h).get();
  if (ak::NumpyArray* a = dynamic_cast<ak::NumpyArray*>(raw)) return box_content(a->toRegularArray());
#define M(CLS) if (ak::CLS* a = dynamic_cast<ak::CLS*>(raw)) return box_content(a->toRegularArray());
  M(ListArray32) M(ListArrayU32) M(ListArray64) M(ListOffsetArray32) M(ListOffsetArrayU32) M(ListOffsetArray64)
#undef M
  throw std::invalid_argument("bridge: class has no toRegularArray()");
  AKB_CATCH(nullptr)
}
AKB_EXPORT void* akb_numpy_contiguous(void* h) {
  AKB_TRY
  if (ak::NumpyArray* a = dynamic_cast<ak::NumpyArray*>(C(h).get()))
    return box_content(std::make_shared<ak::NumpyArray>(a->contiguous()));
  throw std::invalid_argument("bridge: not a NumpyArray");
  AKB_CATCH(nullptr)
}
AKB_EXPORT void* akb_setitem_field(void* h, const char* key, void* what) {
  AKB_TRY
  if (ak::RecordArray* a = dynamic_cast<ak::RecordArray*>(C(h).get()))
    return box_content(a->setitem_field(std::string(key), C(what)));
  throw std::invalid_argument("bridge: not a RecordArray");
  AKB_CATCH(nullptr)
}
AKB_EXPORT void* akb_setitem_field_at(void* h, int64_t where, void* what) {
  AKB_TRY
  if (ak::RecordArray* a = dynamic_cast<ak::RecordArray*>(C(h).get()))
    return box_content(a->setitem_field(where, C(what)));
  throw std::invalid_argument("bridge: not a RecordArray");
  AKB_CATCH(nullptr)
}
AKB_EXPORT void* akb_none() {
  AKB_TRY return box_content(ak::none); AKB_CATCH(nullptr)
}
