// Harness code: lane P virtual-array section -- C++ mirrors of PyArrayGenerator and PyArrayCache of
// src/python/virtual.cpp whose Python halves (callable/args/kwargs, the weakly referenced mapping) live in akext,
// reached through C callbacks; plus SliceGenerator and VirtualArray accessors.
//
// A callback that fails leaves a Python exception pending on the akext side and reports failure; the C++ side then
// throws AkpPyError, which unwinds to the C ABI boundary exactly like pybind11's error_already_set would and is
// reported with error kind 9 (akext re-raises the stored exception).
#include "akb_p.h"
#include "awkward/virtual/ArrayGenerator.h"
#include "awkward/virtual/ArrayCache.h"

// ---- callbacks (set once by akext)
typedef void* (*akp_cb_generate)(void* state);                       // boxed ContentPtr* (ownership passes) / null = error
typedef int (*akp_cb_gen_repr)(void* state, int which);              // 0 callable 1 args 2 kwargs; text via akp_cb_set_str;
                                                                      // returns -1 error, 0 empty, 1 non-empty
typedef int (*akp_cb_gen_caches)(void* state);                       // pushes caches with akp_cb_push_cache; -1 error
typedef int (*akp_cb_gen_equal)(void* a, void* b);                   // callable/args/kwargs identical objects
typedef void* (*akp_cb_cache_get)(void* state, const char* key, int64_t n, int* status);   // status -1 error 0 miss 1 hit
typedef int (*akp_cb_cache_set)(void* state, const char* key, int64_t n, void* boxed);     // callee owns boxed; -1 error
typedef int (*akp_cb_cache_broken)(void* state);                     // -1 error, 0, 1
typedef int (*akp_cb_cache_repr)(void* state);                       // text via akp_cb_set_str; -1 error

static akp_cb_generate cb_generate = nullptr;
static akp_cb_gen_repr cb_gen_repr = nullptr;
static akp_cb_gen_caches cb_gen_caches = nullptr;
static akp_cb_gen_equal cb_gen_equal = nullptr;
static akp_cb_cache_get cb_cache_get = nullptr;
static akp_cb_cache_set cb_cache_set = nullptr;
static akp_cb_cache_broken cb_cache_broken = nullptr;
static akp_cb_cache_repr cb_cache_repr = nullptr;

static thread_local std::string cb_str;
static thread_local std::vector<ak::ArrayCachePtr> cb_caches;

AKB_EXPORT void akp_virtual_set_callbacks(void* generate, void* gen_repr, void* gen_caches, void* gen_equal,
                                          void* cache_get, void* cache_set, void* cache_broken, void* cache_repr) {
  cb_generate = (akp_cb_generate)generate;
  cb_gen_repr = (akp_cb_gen_repr)gen_repr;
  cb_gen_caches = (akp_cb_gen_caches)gen_caches;
  cb_gen_equal = (akp_cb_gen_equal)gen_equal;
  cb_cache_get = (akp_cb_cache_get)cache_get;
  cb_cache_set = (akp_cb_cache_set)cache_set;
  cb_cache_broken = (akp_cb_cache_broken)cache_broken;
  cb_cache_repr = (akp_cb_cache_repr)cache_repr;
}
AKB_EXPORT void akp_cb_set_str(const char* s, int64_t n) { cb_str.assign(s, (size_t)n); }

#define GEN(h) (*reinterpret_cast<ak::ArrayGeneratorPtr*>(h))
#define CACHE(h) (*reinterpret_cast<ak::ArrayCachePtr*>(h))
AKB_EXPORT void akp_cb_push_cache(void* cache_handle) { cb_caches.push_back(CACHE(cache_handle)); }

namespace {
  typedef std::shared_ptr<void> PyState;      // a Python object kept alive with one reference

  PyState keep(void* pyobj) { return PyState(pyobj, akp_py_keep(pyobj)); }

  class PyArrayCache: public ak::ArrayCache {
  public:
    PyArrayCache(const PyState& state): state_(state) { }
    void* state() const { return state_.get(); }
    ak::ContentPtr get(const std::string& key) const override {
      int status = -1;
      void* p = cb_cache_get(state_.get(), key.data(), (int64_t)key.size(), &status);
      if (status < 0) throw AkpPyError();
      if (status == 0 || p == nullptr) return ak::ContentPtr(nullptr);
      ak::ContentPtr out = *reinterpret_cast<ak::ContentPtr*>(p);
      delete reinterpret_cast<ak::ContentPtr*>(p);
      return out;
    }
    void set(const std::string& key, const ak::ContentPtr& value) override {
      if (cb_cache_set(state_.get(), key.data(), (int64_t)key.size(), new ak::ContentPtr(value)) < 0) throw AkpPyError();
    }
    bool is_broken() const override {
      int r = cb_cache_broken(state_.get());
      if (r < 0) throw AkpPyError();
      return r != 0;
    }
    const std::string tostring_part(const std::string& indent, const std::string& pre,
                                    const std::string& post) const override {
      if (is_broken()) {
        std::stringstream out;
        out << indent << pre << "<ArrayCache is_broken=\"true\"/>" << post;
        return out.str();
      }
      else {
        if (cb_cache_repr(state_.get()) < 0) throw AkpPyError();
        std::string repr = cb_str;
        if (repr.length() > 50) {
          repr = repr.substr(0, 47) + std::string("...");
        }
        std::stringstream out;
        out << indent << pre << "<ArrayCache mapping=\"" << repr << "\"/>" << post;
        return out.str();
      }
    }
  private:
    const PyState state_;
  };

  class PyArrayGenerator: public ak::ArrayGenerator {
  public:
    PyArrayGenerator(const ak::FormPtr& form, int64_t length, const PyState& state)
        : ak::ArrayGenerator(form, length), state_(state) { }
    void* state() const { return state_.get(); }
    const PyState& pystate() const { return state_; }
    const ak::ContentPtr generate() const override {
      void* p = cb_generate(state_.get());
      if (p == nullptr) throw AkpPyError();
      ak::ContentPtr out = *reinterpret_cast<ak::ContentPtr*>(p);
      delete reinterpret_cast<ak::ContentPtr*>(p);
      return out;
    }
    void caches(std::vector<ak::ArrayCachePtr>& out) const override {
      cb_caches.clear();
      if (cb_gen_caches(state_.get()) < 0) { cb_caches.clear(); throw AkpPyError(); }
      std::vector<ak::ArrayCachePtr> mine;
      mine.swap(cb_caches);
      for (auto& ptr : mine) {
        if (ptr.get() != nullptr) {
          bool found = false;
          for (auto oldcache : out) {
            if (oldcache.get() == ptr.get()) { found = true; break; }
          }
          if (!found) out.push_back(ptr);
        }
      }
    }
    const std::string tostring_part(const std::string& indent, const std::string& pre,
                                    const std::string& post) const override {
      std::stringstream out;
      out << indent << pre << "<ArrayGenerator f=\"";
      if (cb_gen_repr(state_.get(), 0) < 0) throw AkpPyError();
      out << cb_str << "\"";
      int r = cb_gen_repr(state_.get(), 1);
      if (r < 0) throw AkpPyError();
      if (r > 0) out << " args=\"" << cb_str << "\"";
      r = cb_gen_repr(state_.get(), 2);
      if (r < 0) throw AkpPyError();
      if (r > 0) out << " kwargs=\"" << cb_str << "\"";
      if (form_.get() == nullptr  &&  length_ < 0) {
        out << "/>";
      }
      else {
        out << ">\n";
        if (length_ >= 0) {
          out << indent << "    <length>" << length_ << "</length>\n";
        }
        if (form_.get() != nullptr) {
          std::string formstr = form_.get()->tojson(true, false);
          std::string replace = std::string("\n") + indent + std::string("        ");
          size_t pos = 0;
          while ((pos = formstr.find("\n", pos)) != std::string::npos) {
            formstr.replace(pos, 1, replace);
            pos += replace.length();
          }
          out << indent << "    <form>\n" << indent << "        " << formstr << "\n" << indent << "    </form>\n";
        }
        out << indent << "</ArrayGenerator>";
      }
      out << post;
      return out.str();
    }
    const std::shared_ptr<ak::ArrayGenerator> shallow_copy() const override {
      return std::make_shared<PyArrayGenerator>(form_, length_, state_);
    }
    const std::shared_ptr<ak::ArrayGenerator> with_form(const ak::FormPtr& form) const override {
      return std::make_shared<PyArrayGenerator>(form, length_, state_);
    }
    const std::shared_ptr<ak::ArrayGenerator> with_length(int64_t length) const override {
      return std::make_shared<PyArrayGenerator>(form_, length, state_);
    }
    // with_callable / with_args / with_kwargs: the declared form_ (not the inferred one) is carried over
    const std::shared_ptr<ak::ArrayGenerator> with_state(const PyState& state) const {
      return std::make_shared<PyArrayGenerator>(form_, length_, state);
    }
    bool referentially_equal(const ak::ArrayGeneratorPtr& other) const override {
      if (length_ != other.get()->length()) return false;
      if (form_.get() == nullptr  &&  other.get()->form().get() != nullptr) return false;
      if (form_.get() != nullptr  &&  other.get()->form().get() == nullptr) return false;
      if (form_.get() != nullptr  &&  other.get()->form().get() != nullptr) {
        return form_.get()->equal(other.get()->form(), true, true, true, false);
      }
      if (length_ < 0  &&  other.get()->length() >= 0) return false;
      if (length_ >= 0  &&  other.get()->length() < 0) return false;
      if (length_ >= 0  &&  other.get()->length() >= 0  &&  length_ != other.get()->length()) return false;
      if (PyArrayGenerator* raw = dynamic_cast<PyArrayGenerator*>(other.get())) {
        int r = cb_gen_equal(state_.get(), raw->state());
        if (r < 0) throw AkpPyError();
        return r != 0;
      }
      else {
        return false;
      }
    }
  private:
    const PyState state_;
  };
}

// ---------------------------------------------------------------- ArrayCache

AKB_EXPORT void akp_cache_free(void* h) { delete reinterpret_cast<ak::ArrayCachePtr*>(h); }
AKB_EXPORT void* akp_cache_new(void* state) {
  AKP_TRY return new ak::ArrayCachePtr(std::make_shared<PyArrayCache>(keep(state))); AKP_CATCH(nullptr)
}
AKB_EXPORT void* akp_cache_raw(void* h) { return (void*)CACHE(h).get(); }
// the Python state object (borrowed); NULL when the cache is not a PyArrayCache
AKB_EXPORT void* akp_cache_state(void* h) {
  PyArrayCache* raw = dynamic_cast<PyArrayCache*>(CACHE(h).get());
  return raw == nullptr ? nullptr : raw->state();
}
AKB_EXPORT const char* akp_cache_tostring(void* h) {
  AKP_TRY akb_str = CACHE(h)->tostring_part("", "", ""); return akb_str.c_str(); AKP_CATCH(nullptr)
}
// get: returns a shared Content handle or NULL (miss)
AKB_EXPORT void* akp_cache_get(void* h, const char* key, int64_t n, int* ok) {
  *ok = 0;
  AKP_TRY
  ak::ContentPtr out = CACHE(h)->get(std::string(key, (size_t)n));
  *ok = 1;
  return share_content(out);
  AKP_CATCH(nullptr)
}
AKB_EXPORT int akp_cache_set(void* h, const char* key, int64_t n, void* content) {
  AKP_TRY CACHE(h)->set(std::string(key, (size_t)n), C(content)->shallow_copy()); return 0; AKP_CATCH(-1)
}
// caches reachable from a Content node -> akp_ptrs (ArrayCachePtr* handles owned by the caller)
AKB_EXPORT int akp_caches(void* h) {
  AKP_TRY
  std::vector<ak::ArrayCachePtr> out;
  C(h)->caches(out);
  akp_ptrs.clear();
  for (auto& c : out) akp_ptrs.push_back(new ak::ArrayCachePtr(c));
  return 0;
  AKP_CATCH(-1)
}

// ---------------------------------------------------------------- generators

AKB_EXPORT void akp_gen_free(void* h) { delete reinterpret_cast<ak::ArrayGeneratorPtr*>(h); }
// form may be NULL (the binding passes form->shallow_copy())
AKB_EXPORT void* akp_pygen_new(void* form, int64_t length, void* state) {
  AKP_TRY
  ak::FormPtr f(nullptr);
  if (form != nullptr) f = FORM(form)->shallow_copy();
  return new ak::ArrayGeneratorPtr(std::make_shared<PyArrayGenerator>(f, length, keep(state)));
  AKP_CATCH(nullptr)
}
// the same form/length with another Python state (with_callable / with_args / with_kwargs)
AKB_EXPORT void* akp_pygen_with_state(void* h, void* state) {
  AKP_TRY
  PyArrayGenerator* g = dynamic_cast<PyArrayGenerator*>(GEN(h).get());
  if (g == nullptr) throw std::invalid_argument("bridge: not a PyArrayGenerator");
  return new ak::ArrayGeneratorPtr(g->with_state(keep(state)));
  AKP_CATCH(nullptr)
}
AKB_EXPORT void* akp_slicegen_new(void* form, int64_t length, void* content, void* slice) {
  AKP_TRY
  ak::FormPtr f(nullptr);
  if (form != nullptr) f = FORM(form)->shallow_copy();
  return new ak::ArrayGeneratorPtr(std::make_shared<ak::SliceGenerator>(
      f, length, C(content)->shallow_copy(), *reinterpret_cast<ak::Slice*>(slice)));
  AKP_CATCH(nullptr)
}
// 1 PyArrayGenerator, 2 SliceGenerator, -1 other
AKB_EXPORT int akp_gen_classid(void* h) {
  ak::ArrayGenerator* g = GEN(h).get();
  if (dynamic_cast<PyArrayGenerator*>(g)) return 1;
  if (dynamic_cast<ak::SliceGenerator*>(g)) return 2;
  return -1;
}
AKB_EXPORT void* akp_gen_raw(void* h) { return (void*)GEN(h).get(); }
AKB_EXPORT void* akp_gen_state(void* h) {
  PyArrayGenerator* raw = dynamic_cast<PyArrayGenerator*>(GEN(h).get());
  return raw == nullptr ? nullptr : raw->state();
}
AKB_EXPORT void* akp_gen_form(void* h) { AKP_TRY return share_form(GEN(h)->form()); AKP_CATCH(nullptr) }
AKB_EXPORT int64_t akp_gen_length(void* h) { return GEN(h)->length(); }
AKB_EXPORT int akp_gen_caches(void* h) {
  AKP_TRY
  std::vector<ak::ArrayCachePtr> out;
  GEN(h)->caches(out);
  akp_ptrs.clear();
  for (auto& c : out) akp_ptrs.push_back(new ak::ArrayCachePtr(c));
  return 0;
  AKP_CATCH(-1)
}
AKB_EXPORT void* akp_gen_generate_and_check(void* h) {
  AKP_TRY return share_content(GEN(h)->generate_and_check()); AKP_CATCH(nullptr)
}
AKB_EXPORT const char* akp_gen_tostring(void* h) {
  AKP_TRY akb_str = GEN(h)->tostring_part("", "", ""); return akb_str.c_str(); AKP_CATCH(nullptr)
}
// form may be NULL (a null std::shared_ptr<Form> argument)
AKB_EXPORT void* akp_gen_with_form(void* h, void* form) {
  AKP_TRY return new ak::ArrayGeneratorPtr(GEN(h)->with_form(FORM(form))); AKP_CATCH(nullptr)
}
AKB_EXPORT void* akp_gen_with_length(void* h, int64_t length) {
  AKP_TRY return new ak::ArrayGeneratorPtr(GEN(h)->with_length(length)); AKP_CATCH(nullptr)
}
AKB_EXPORT void* akp_slicegen_content(void* h) {
  AKP_TRY
  if (ak::SliceGenerator* g = dynamic_cast<ak::SliceGenerator*>(GEN(h).get())) return share_content(g->content());
  throw std::invalid_argument("bridge: not a SliceGenerator");
  AKP_CATCH(nullptr)
}

// ---------------------------------------------------------------- VirtualArray

static ak::VirtualArray* VA(void* h) {
  ak::VirtualArray* a = dynamic_cast<ak::VirtualArray*>(C(h).get());
  if (a == nullptr) throw std::invalid_argument("bridge: not a VirtualArray");
  return a;
}
// cache may be NULL; cache_key == NULL: the constructor that makes up a key
AKB_EXPORT void* akp_virtual_new(void* ids, const char** pk, const char** pv, int np, void* generator, void* cache,
                                 const char* cache_key, int64_t nkey) {
  AKP_TRY
  ak::ArrayCachePtr c(nullptr);
  if (cache != nullptr) c = CACHE(cache);
  if (cache_key != nullptr) {
    return share_content(std::make_shared<ak::VirtualArray>(IDS(ids), akp_params(pk, pv, np), GEN(generator), c,
                                                            std::string(cache_key, (size_t)nkey)));
  }
  return share_content(std::make_shared<ak::VirtualArray>(IDS(ids), akp_params(pk, pv, np), GEN(generator), c));
  AKP_CATCH(nullptr)
}
AKB_EXPORT void* akp_virtual_generator(void* h) {
  AKP_TRY return new ak::ArrayGeneratorPtr(VA(h)->generator()); AKP_CATCH(nullptr)
}
// NULL without an error record: no cache
AKB_EXPORT void* akp_virtual_cache(void* h) {
  AKP_TRY
  ak::ArrayCachePtr c = VA(h)->cache();
  if (c.get() == nullptr) return nullptr;
  return new ak::ArrayCachePtr(c);
  AKP_CATCH(nullptr)
}
AKB_EXPORT void* akp_virtual_peek_array(void* h) { AKP_TRY return share_content(VA(h)->peek_array()); AKP_CATCH(nullptr) }
AKB_EXPORT void* akp_virtual_array(void* h) { AKP_TRY return share_content(VA(h)->array()); AKP_CATCH(nullptr) }
AKB_EXPORT const char* akp_virtual_cache_key(void* h) {
  AKP_TRY akb_str = VA(h)->cache_key(); return akb_str.c_str(); AKP_CATCH(nullptr)
}
AKB_EXPORT int akp_virtual_ptr_lib(void* h) { AKP_TRY return (int)VA(h)->ptr_lib(); AKP_CATCH(-1) }
