// Harness code: lane P content section -- node constructors, the methods of content_methods<T> and the
// class-specific methods of src/python/content.cpp, slices, Record and Iterator, over the C ABI.
//
// Conventions:
//   * a returned Content handle is "shared" (a new shared_ptr to the very object the library returned); the
//     Python side decides whether the binding would have copied it (box) or shared it (shared_ptr cast).
//   * arguments that the binding passes through unbox_content() are shallow-copied here (UNBOX).
#include "akb_p.h"

#define UNBOX(h) (C(h)->shallow_copy())

#define ALL_ARRAY_CLASSES(M)                                                                         \
  M(NumpyArray, 2) M(EmptyArray, 3) M(IndexedArray32, 4) M(IndexedArrayU32, 5) M(IndexedArray64, 6)  \
  M(IndexedOptionArray32, 7) M(IndexedOptionArray64, 8) M(ByteMaskedArray, 9) M(BitMaskedArray, 10)  \
  M(UnmaskedArray, 11) M(ListArray32, 12) M(ListArrayU32, 13) M(ListArray64, 14)                     \
  M(ListOffsetArray32, 15) M(ListOffsetArrayU32, 16) M(ListOffsetArray64, 17) M(RecordArray, 18)     \
  M(RegularArray, 19) M(UnionArray8_32, 20) M(UnionArray8_U32, 21) M(UnionArray8_64, 22)             \
  M(VirtualArray, 23)

int akp_classid_of(ak::Content* raw) {
  if (raw == nullptr) return -2;
  if (dynamic_cast<ak::None*>(raw)) return 0;
  if (dynamic_cast<ak::Record*>(raw)) return 1;
#define M(CLS, ID) if (dynamic_cast<ak::CLS*>(raw)) return ID;
  ALL_ARRAY_CLASSES(M)
#undef M
  return -1;
}

AKB_EXPORT int akp_classid(void* h) { return akp_classid_of(C(h).get()); }

// box() of src/python/content.cpp.  Consumes h.  Returns
//   classid 0 (None): null
//   scalar NumpyArray: h itself, *scalar = 1 (the Python side converts the value and frees it)
//   otherwise: a handle to a copy of the node (py::cast(*raw) copy-constructs), h is freed
AKB_EXPORT void* akp_box(void* h, int* classid, int* scalar) {
  *scalar = 0;
  *classid = -2;
  ak::ContentPtr* hp = reinterpret_cast<ak::ContentPtr*>(h);
  AKP_TRY
  ak::Content* raw = hp->get();
  int id = akp_classid_of(raw);
  *classid = id;
  if (id == 0) { delete hp; return nullptr; }
  if (id == 2 && raw->isscalar()) { *scalar = 1; return h; }
  if (id < 0) {
    std::string name = (raw == nullptr ? std::string("nullptr") : raw->classname());
    delete hp;
    throw std::runtime_error(std::string("missing boxer for Content subtype: ") + name + std::string(" ")
                             + std::string("\n\n(https://github.com/scikit-hep/awkward-1.0/blob/" VERSION_INFO
                                           "/src/python/content.cpp#L206)"));
  }
  void* out = new ak::ContentPtr(raw->shallow_copy());
  delete hp;
  return out;
  AKP_CATCH(nullptr)
}

AKB_EXPORT void* akp_share(void* h) { return new ak::ContentPtr(C(h)); }
AKB_EXPORT void* akp_raw(void* h) { return (void*)C(h).get(); }

// ---------------------------------------------------------------- constructors

#define IDS_PARAMS void* ids, const char** pk, const char** pv, int np
#define IDS_PARAMS_ARGS IDS(ids), akp_params(pk, pv, np)

AKB_EXPORT void* akp_numpy_wrap(IDS_PARAMS, void* data, int ndim, const int64_t* shape, const int64_t* strides,
                                int64_t itemsize, const char* format, int dtype, void* pyobj) {
  AKP_TRY
  std::vector<ssize_t> sh, st;
  for (int i = 0; i < ndim; i++) { sh.push_back((ssize_t)shape[i]); st.push_back((ssize_t)strides[i]); }
  ak::util::Parameters params = akp_params(pk, pv, np);
  // keep-alive object first: it must be released if anything below throws
  std::shared_ptr<void> ptr(data, akp_py_keep(pyobj));
  return share_content(std::make_shared<ak::NumpyArray>(
      IDS(ids), params, ptr, sh, st, 0, (ssize_t)itemsize, std::string(format), (ak::util::dtype)dtype,
      ak::kernel::lib::cpu));
  AKP_CATCH(nullptr)
}

AKB_EXPORT void* akp_empty_new(IDS_PARAMS) {
  AKP_TRY return share_content(std::make_shared<ak::EmptyArray>(IDS_PARAMS_ARGS)); AKP_CATCH(nullptr)
}

AKB_EXPORT void* akp_indexed_new(IDS_PARAMS, void* index, void* content, int isoption) {
  AKP_TRY
  int k = reinterpret_cast<IndexH*>(index)->kind;
  ak::ContentPtr c = UNBOX(content);
  if (isoption) {
    if (k == 2) return share_content(std::make_shared<ak::IndexedOptionArray32>(IDS_PARAMS_ARGS, IDX<int32_t>(index), c));
    if (k == 4) return share_content(std::make_shared<ak::IndexedOptionArray64>(IDS_PARAMS_ARGS, IDX<int64_t>(index), c));
  }
  else {
    if (k == 2) return share_content(std::make_shared<ak::IndexedArray32>(IDS_PARAMS_ARGS, IDX<int32_t>(index), c));
    if (k == 3) return share_content(std::make_shared<ak::IndexedArrayU32>(IDS_PARAMS_ARGS, IDX<uint32_t>(index), c));
    if (k == 4) return share_content(std::make_shared<ak::IndexedArray64>(IDS_PARAMS_ARGS, IDX<int64_t>(index), c));
  }
  throw std::invalid_argument("bridge: bad index kind for IndexedArray");
  AKP_CATCH(nullptr)
}

AKB_EXPORT void* akp_bytemasked_new(IDS_PARAMS, void* mask, void* content, int valid_when) {
  AKP_TRY
  return share_content(std::make_shared<ak::ByteMaskedArray>(IDS_PARAMS_ARGS, IDX<int8_t>(mask), UNBOX(content),
                                                             valid_when != 0));
  AKP_CATCH(nullptr)
}

AKB_EXPORT void* akp_bitmasked_new(IDS_PARAMS, void* mask, void* content, int valid_when, int64_t length,
                                   int lsb_order) {
  AKP_TRY
  return share_content(std::make_shared<ak::BitMaskedArray>(IDS_PARAMS_ARGS, IDX<uint8_t>(mask), UNBOX(content),
                                                            valid_when != 0, length, lsb_order != 0));
  AKP_CATCH(nullptr)
}

AKB_EXPORT void* akp_unmasked_new(IDS_PARAMS, void* content) {
  AKP_TRY return share_content(std::make_shared<ak::UnmaskedArray>(IDS_PARAMS_ARGS, UNBOX(content))); AKP_CATCH(nullptr)
}

AKB_EXPORT void* akp_list_new(IDS_PARAMS, void* starts, void* stops, void* content) {
  AKP_TRY
  ak::ContentPtr c = UNBOX(content);
  switch (reinterpret_cast<IndexH*>(starts)->kind) {
    case 2: return share_content(std::make_shared<ak::ListArray32>(IDS_PARAMS_ARGS, IDX<int32_t>(starts), IDX<int32_t>(stops), c));
    case 3: return share_content(std::make_shared<ak::ListArrayU32>(IDS_PARAMS_ARGS, IDX<uint32_t>(starts), IDX<uint32_t>(stops), c));
    case 4: return share_content(std::make_shared<ak::ListArray64>(IDS_PARAMS_ARGS, IDX<int64_t>(starts), IDX<int64_t>(stops), c));
  }
  throw std::invalid_argument("bridge: bad starts kind");
  AKP_CATCH(nullptr)
}

AKB_EXPORT void* akp_listoffset_new(IDS_PARAMS, void* offsets, void* content) {
  AKP_TRY
  ak::ContentPtr c = UNBOX(content);
  switch (reinterpret_cast<IndexH*>(offsets)->kind) {
    case 2: return share_content(std::make_shared<ak::ListOffsetArray32>(IDS_PARAMS_ARGS, IDX<int32_t>(offsets), c));
    case 3: return share_content(std::make_shared<ak::ListOffsetArrayU32>(IDS_PARAMS_ARGS, IDX<uint32_t>(offsets), c));
    case 4: return share_content(std::make_shared<ak::ListOffsetArray64>(IDS_PARAMS_ARGS, IDX<int64_t>(offsets), c));
  }
  throw std::invalid_argument("bridge: bad offsets kind");
  AKP_CATCH(nullptr)
}

AKB_EXPORT void* akp_regular_new(IDS_PARAMS, void* content, int64_t size, int64_t zeros_length) {
  AKP_TRY
  return share_content(std::make_shared<ak::RegularArray>(IDS_PARAMS_ARGS, UNBOX(content), size, zeros_length));
  AKP_CATCH(nullptr)
}

// keys == NULL: tuple; has_length == 0: the constructor without a length
AKB_EXPORT void* akp_record_array_new(IDS_PARAMS, void** contents, int n, const char** keys, int has_length,
                                      int64_t length) {
  AKP_TRY
  ak::ContentPtrVec cs;
  for (int i = 0; i < n; i++) cs.push_back(UNBOX(contents[i]));
  ak::util::RecordLookupPtr lookup = akp_lookup(keys, n);
  if (has_length) return share_content(std::make_shared<ak::RecordArray>(IDS_PARAMS_ARGS, cs, lookup, length));
  return share_content(std::make_shared<ak::RecordArray>(IDS_PARAMS_ARGS, cs, lookup));
  AKP_CATCH(nullptr)
}

AKB_EXPORT void* akp_union_new(IDS_PARAMS, void* tags, void* index, void** contents, int n) {
  AKP_TRY
  ak::ContentPtrVec cs;
  for (int i = 0; i < n; i++) cs.push_back(UNBOX(contents[i]));
  switch (reinterpret_cast<IndexH*>(index)->kind) {
    case 2: return share_content(std::make_shared<ak::UnionArray8_32>(IDS_PARAMS_ARGS, IDX<int8_t>(tags), IDX<int32_t>(index), cs));
    case 3: return share_content(std::make_shared<ak::UnionArray8_U32>(IDS_PARAMS_ARGS, IDX<int8_t>(tags), IDX<uint32_t>(index), cs));
    case 4: return share_content(std::make_shared<ak::UnionArray8_64>(IDS_PARAMS_ARGS, IDX<int8_t>(tags), IDX<int64_t>(index), cs));
  }
  throw std::invalid_argument("bridge: bad index kind for UnionArray");
  AKP_CATCH(nullptr)
}

// Record(array, at): the RecordArray is shared, not copied (a std::shared_ptr argument in the binding)
AKB_EXPORT void* akp_record_new(void* array, int64_t at) {
  AKP_TRY
  std::shared_ptr<ak::RecordArray> ra = std::dynamic_pointer_cast<ak::RecordArray>(C(array));
  if (ra.get() == nullptr) throw std::invalid_argument("bridge: Record needs a RecordArray");
  return share_content(std::make_shared<ak::Record>(ra, at));
  AKP_CATCH(nullptr)
}

// ---------------------------------------------------------------- content_methods<T> (and Record)

AKB_EXPORT const char* akp_tostring(void* h) {
  AKP_TRY akb_str = C(h)->tostring(); return akb_str.c_str(); AKP_CATCH(nullptr)
}
AKB_EXPORT const char* akp_classname(void* h) {
  AKP_TRY akb_str = C(h)->classname(); return akb_str.c_str(); AKP_CATCH(nullptr)
}
AKB_EXPORT int64_t akp_length(void* h, int* ok) {
  *ok = 0;
  AKP_TRY int64_t out = C(h)->length(); *ok = 1; return out; AKP_CATCH(0)
}
AKB_EXPORT int akp_isscalar(void* h) { AKP_TRY return C(h)->isscalar() ? 1 : 0; AKP_CATCH(-1) }
AKB_EXPORT void* akp_identities(void* h, int* ok) {
  *ok = 0;
  AKP_TRY void* out = share_ids(C(h)->identities()); *ok = 1; return out; AKP_CATCH(nullptr)
}
// ids == NULL: Identities::none()
AKB_EXPORT int akp_setidentities(void* h, void* ids) {
  AKP_TRY
  if (ids == nullptr) C(h)->setidentities(ak::Identities::none());
  else C(h)->setidentities(IDS(ids)->shallow_copy());    // unbox_identities copies
  return 0;
  AKP_CATCH(-1)
}
AKB_EXPORT int akp_setidentities_new(void* h) { AKP_TRY C(h)->setidentities(); return 0; AKP_CATCH(-1) }
AKB_EXPORT int akp_parameters(void* h) { AKP_TRY akp_put_params(C(h)->parameters()); return 0; AKP_CATCH(-1) }
AKB_EXPORT int akp_setparameters(void* h, const char** pk, const char** pv, int np) {
  AKP_TRY C(h)->setparameters(akp_params(pk, pv, np)); return 0; AKP_CATCH(-1)
}
AKB_EXPORT int akp_setparameter(void* h, const char* key, const char* value) {
  AKP_TRY C(h)->setparameter(std::string(key), std::string(value)); return 0; AKP_CATCH(-1)
}
AKB_EXPORT void* akp_withparameter(void* h, const char* key, const char* value) {
  AKP_TRY
  ak::ContentPtr out = C(h)->shallow_copy();
  out->setparameter(std::string(key), std::string(value));
  return share_content(out);
  AKP_CATCH(nullptr)
}
AKB_EXPORT const char* akp_parameter(void* h, const char* key) {
  AKP_TRY akb_str = C(h)->parameter(std::string(key)); return akb_str.c_str(); AKP_CATCH(nullptr)
}
AKB_EXPORT const char* akp_purelist_parameter(void* h, const char* key) {
  AKP_TRY akb_str = C(h)->purelist_parameter(std::string(key)); return akb_str.c_str(); AKP_CATCH(nullptr)
}
AKB_EXPORT void* akp_content_type(void* h, const char** tk, const char** tv, int nt) {
  AKP_TRY return share_type(C(h)->type(akp_typestrs(tk, tv, nt))); AKP_CATCH(nullptr)
}
AKB_EXPORT void* akp_content_form(void* h, int materialize) {
  AKP_TRY return share_form(C(h)->form(materialize != 0)); AKP_CATCH(nullptr)
}
// 0 cpu, 1 cuda, 2 mixed
AKB_EXPORT int akp_kernels(void* h) {
  AKP_TRY
  switch (C(h)->kernels()) {
    case ak::kernel::lib::cpu: return 0;
    case ak::kernel::lib::cuda: return 1;
    default: return 2;
  }
  AKP_CATCH(-1)
}
AKB_EXPORT const char* akp_tojson(void* h, int pretty, int64_t maxdecimals, const char* nan_s, const char* inf_s,
                                  const char* minf_s, const char* creal, const char* cimag) {
  AKP_TRY
  akb_str = C(h)->tojson(pretty != 0, maxdecimals, nan_s, inf_s, minf_s, creal, cimag);
  return akb_str.c_str();
  AKP_CATCH(nullptr)
}
AKB_EXPORT int akp_tojson_file(void* h, const char* destination, int pretty, int64_t maxdecimals, int64_t buffersize,
                               const char* nan_s, const char* inf_s, const char* minf_s, const char* creal,
                               const char* cimag) {
  AKP_TRY
  FILE* file = fopen(destination, "wb");
  if (file == nullptr) {
    throw std::invalid_argument(std::string("file \"") + destination + std::string("\" could not be opened for writing")
                                + std::string("\n\n(https://github.com/scikit-hep/awkward-1.0/blob/" VERSION_INFO
                                              "/src/python/content.cpp#L755)"));
  }
  try {
    C(h)->tojson(file, pretty != 0, maxdecimals, buffersize, nan_s, inf_s, minf_s, creal, cimag);
  }
  catch (...) {
    fclose(file);
    throw;
  }
  fclose(file);
  return 0;
  AKP_CATCH(-1)
}
AKB_EXPORT int64_t akp_nbytes(void* h, int* ok) {
  *ok = 0;
  AKP_TRY int64_t out = C(h)->nbytes(); *ok = 1; return out; AKP_CATCH(0)
}
AKB_EXPORT void* akp_deep_copy(void* h, int arrays, int indexes, int identities) {
  AKP_TRY return share_content(C(h)->deep_copy(arrays != 0, indexes != 0, identities != 0)); AKP_CATCH(nullptr)
}
AKB_EXPORT void* akp_shallow_copy(void* h) { AKP_TRY return share_content(C(h)->shallow_copy()); AKP_CATCH(nullptr) }
AKB_EXPORT int64_t akp_numfields(void* h, int* ok) {
  *ok = 0;
  AKP_TRY int64_t out = C(h)->numfields(); *ok = 1; return out; AKP_CATCH(0)
}
AKB_EXPORT int64_t akp_fieldindex(void* h, const char* key, int* ok) {
  *ok = 0;
  AKP_TRY int64_t out = C(h)->fieldindex(std::string(key)); *ok = 1; return out; AKP_CATCH(0)
}
AKB_EXPORT const char* akp_key(void* h, int64_t i) {
  AKP_TRY akb_str = C(h)->key(i); return akb_str.c_str(); AKP_CATCH(nullptr)
}
AKB_EXPORT int akp_haskey(void* h, const char* key) {
  AKP_TRY return C(h)->haskey(std::string(key)) ? 1 : 0; AKP_CATCH(-1)
}
AKB_EXPORT int akp_keys(void* h) { AKP_TRY akp_strs = C(h)->keys(); return 0; AKP_CATCH(-1) }
AKB_EXPORT int akp_purelist_isregular(void* h) { AKP_TRY return C(h)->purelist_isregular() ? 1 : 0; AKP_CATCH(-1) }
AKB_EXPORT int64_t akp_purelist_depth(void* h, int* ok) {
  *ok = 0;
  AKP_TRY int64_t out = C(h)->purelist_depth(); *ok = 1; return out; AKP_CATCH(0)
}
AKB_EXPORT int akp_branch_depth(void* h, int64_t* branch, int64_t* depth) {
  AKP_TRY std::pair<bool, int64_t> p = C(h)->branch_depth(); *branch = p.first ? 1 : 0; *depth = p.second; return 0; AKP_CATCH(-1)
}
AKB_EXPORT int akp_minmax_depth(void* h, int64_t* mn, int64_t* mx) {
  AKP_TRY std::pair<int64_t, int64_t> p = C(h)->minmax_depth(); *mn = p.first; *mx = p.second; return 0; AKP_CATCH(-1)
}
AKB_EXPORT void* akp_getitem_nothing(void* h) { AKP_TRY return share_content(C(h)->getitem_nothing()); AKP_CATCH(nullptr) }
AKB_EXPORT void* akp_getitem_at(void* h, int64_t at) { AKP_TRY return share_content(C(h)->getitem_at(at)); AKP_CATCH(nullptr) }
AKB_EXPORT void* akp_getitem_at_nowrap(void* h, int64_t at) {
  AKP_TRY return share_content(C(h)->getitem_at_nowrap(at)); AKP_CATCH(nullptr)
}
AKB_EXPORT void* akp_getitem_range(void* h, int64_t start, int64_t stop) {
  AKP_TRY return share_content(C(h)->getitem_range(start, stop)); AKP_CATCH(nullptr)
}
AKB_EXPORT void* akp_getitem_range_nowrap(void* h, int64_t start, int64_t stop) {
  AKP_TRY return share_content(C(h)->getitem_range_nowrap(start, stop)); AKP_CATCH(nullptr)
}
AKB_EXPORT void* akp_getitem_field(void* h, const char* key) {
  AKP_TRY return share_content(C(h)->getitem_field(std::string(key))); AKP_CATCH(nullptr)
}
AKB_EXPORT void* akp_getitem_fields(void* h, const char** keys, int n) {
  AKP_TRY return share_content(C(h)->getitem_fields(akp_strvec(keys, n))); AKP_CATCH(nullptr)
}
AKB_EXPORT const char* akp_validityerror(void* h) {
  AKP_TRY akb_str = C(h)->validityerror(std::string("layout")); return akb_str.c_str(); AKP_CATCH(nullptr)
}
AKB_EXPORT void* akp_fillna(void* h, void* value) {
  AKP_TRY return share_content(C(h)->fillna(UNBOX(value))); AKP_CATCH(nullptr)
}
AKB_EXPORT void* akp_num(void* h, int64_t axis) { AKP_TRY return share_content(C(h)->num(axis, 0)); AKP_CATCH(nullptr) }
// offsets_out may be NULL
AKB_EXPORT void* akp_offsets_and_flattened(void* h, int64_t axis, void** offsets_out) {
  AKP_TRY
  std::pair<ak::Index64, ak::ContentPtr> p = C(h)->offsets_and_flattened(axis, 0);
  if (offsets_out != nullptr) *offsets_out = box_index<int64_t>(p.first);
  return share_content(p.second);
  AKP_CATCH(nullptr)
}
AKB_EXPORT void* akp_rpad(void* h, int64_t length, int64_t axis) {
  AKP_TRY return share_content(C(h)->rpad(length, axis, 0)); AKP_CATCH(nullptr)
}
AKB_EXPORT void* akp_rpad_and_clip(void* h, int64_t length, int64_t axis) {
  AKP_TRY return share_content(C(h)->rpad_and_clip(length, axis, 0)); AKP_CATCH(nullptr)
}
AKB_EXPORT int akp_mergeable(void* h, void* other, int mergebool) {
  AKP_TRY return C(h)->mergeable(UNBOX(other), mergebool != 0) ? 1 : 0; AKP_CATCH(-1)
}
AKB_EXPORT void* akp_merge(void* h, void* other) { AKP_TRY return share_content(C(h)->merge(UNBOX(other))); AKP_CATCH(nullptr) }
AKB_EXPORT void* akp_merge_as_union(void* h, void* other) {
  AKP_TRY return share_content(C(h)->merge_as_union(UNBOX(other))); AKP_CATCH(nullptr)
}
AKB_EXPORT void* akp_mergemany(void* h, void** others, int n) {
  AKP_TRY
  ak::ContentPtrVec v;
  for (int i = 0; i < n; i++) v.push_back(UNBOX(others[i]));
  return share_content(C(h)->mergemany(v));
  AKP_CATCH(nullptr)
}
AKB_EXPORT int64_t akp_axis_wrap_if_negative(void* h, int64_t axis, int* ok) {
  *ok = 0;
  AKP_TRY int64_t r = C(h)->axis_wrap_if_negative(axis); *ok = 1; return r; AKP_CATCH(0)
}
AKB_EXPORT void* akp_reduce(void* h, const char* name, int64_t axis, int mask, int keepdims) {
  AKP_TRY
  std::string n(name);
  bool m = mask != 0, k = keepdims != 0;
  if (n == "count") { ak::ReducerCount r; return share_content(C(h)->reduce(r, axis, m, k)); }
  if (n == "count_nonzero") { ak::ReducerCountNonzero r; return share_content(C(h)->reduce(r, axis, m, k)); }
  if (n == "sum") { ak::ReducerSum r; return share_content(C(h)->reduce(r, axis, m, k)); }
  if (n == "prod") { ak::ReducerProd r; return share_content(C(h)->reduce(r, axis, m, k)); }
  if (n == "any") { ak::ReducerAny r; return share_content(C(h)->reduce(r, axis, m, k)); }
  if (n == "all") { ak::ReducerAll r; return share_content(C(h)->reduce(r, axis, m, k)); }
  if (n == "min") { ak::ReducerMin r; return share_content(C(h)->reduce(r, axis, m, k)); }
  if (n == "max") { ak::ReducerMax r; return share_content(C(h)->reduce(r, axis, m, k)); }
  if (n == "argmin") { ak::ReducerArgmin r; return share_content(C(h)->reduce(r, axis, m, k)); }
  if (n == "argmax") { ak::ReducerArgmax r; return share_content(C(h)->reduce(r, axis, m, k)); }
  throw std::invalid_argument("bridge: unknown reducer");
  AKP_CATCH(nullptr)
}
AKB_EXPORT void* akp_reduce_initial(void* h, const char* name, int64_t axis, int mask, int keepdims, double f64,
                                    uint64_t u64, int64_t i64) {
  AKP_TRY
  std::string n(name);
  bool m = mask != 0, k = keepdims != 0;
  if (n == "min") { ak::ReducerMin r(f64, u64, i64); return share_content(C(h)->reduce(r, axis, m, k)); }
  if (n == "max") { ak::ReducerMax r(f64, u64, i64); return share_content(C(h)->reduce(r, axis, m, k)); }
  throw std::invalid_argument("bridge: unknown reducer with initial");
  AKP_CATCH(nullptr)
}
AKB_EXPORT void* akp_localindex(void* h, int64_t axis) { AKP_TRY return share_content(C(h)->localindex(axis, 0)); AKP_CATCH(nullptr) }
// keys == NULL: no recordlookup (the 'n == len(keys)' check is done by the caller, as in the binding)
AKB_EXPORT void* akp_combinations(void* h, int64_t n, int replacement, const char** keys, int nkeys, const char** pk,
                                  const char** pv, int np, int64_t axis) {
  AKP_TRY
  return share_content(C(h)->combinations(n, replacement != 0, akp_lookup(keys, nkeys), akp_params(pk, pv, np), axis, 0));
  AKP_CATCH(nullptr)
}
AKB_EXPORT void* akp_sort(void* h, int64_t axis, int ascending, int stable) {
  AKP_TRY return share_content(C(h)->sort(axis, ascending != 0, stable != 0)); AKP_CATCH(nullptr)
}
AKB_EXPORT void* akp_argsort(void* h, int64_t axis, int ascending, int stable) {
  AKP_TRY return share_content(C(h)->argsort(axis, ascending != 0, stable != 0)); AKP_CATCH(nullptr)
}
AKB_EXPORT void* akp_numbers_to_type(void* h, const char* name) {
  AKP_TRY return share_content(C(h)->numbers_to_type(std::string(name))); AKP_CATCH(nullptr)
}
AKB_EXPORT int akp_is_unique(void* h) { AKP_TRY return C(h)->is_unique() ? 1 : 0; AKP_CATCH(-1) }
AKB_EXPORT void* akp_copy_to(void* h, int lib) {
  AKP_TRY return share_content(C(h)->copy_to((ak::kernel::lib)lib)); AKP_CATCH(nullptr)
}
AKB_EXPORT void* akp_carry(void* h, void* index64, int allow_lazy) {
  AKP_TRY return share_content(C(h)->carry(IDX<int64_t>(index64), allow_lazy != 0)); AKP_CATCH(nullptr)
}
AKB_EXPORT void* akp_shallow_simplify(void* h) { AKP_TRY return share_content(C(h)->shallow_simplify()); AKP_CATCH(nullptr) }
// number of distinct ArrayCache objects reachable from this node
AKB_EXPORT int64_t akp_caches_count(void* h) {
  AKP_TRY
  std::vector<ak::ArrayCachePtr> out;
  C(h)->caches(out);
  return (int64_t)out.size();
  AKP_CATCH(-1)
}

// ---------------------------------------------------------------- class-specific accessors

#define OPTCLASSES(M) M(IndexedOptionArray32) M(IndexedOptionArray64) M(ByteMaskedArray) M(BitMaskedArray) M(UnmaskedArray)
#define IDXCLASSES(M) M(IndexedArray32) M(IndexedArrayU32) M(IndexedArray64)
#define LISTCLASSES(M) M(ListArray32) M(ListArrayU32) M(ListArray64) M(ListOffsetArray32) M(ListOffsetArrayU32) M(ListOffsetArray64)
#define UNIONCLASSES(M) M(UnionArray8_32) M(UnionArray8_U32) M(UnionArray8_64)

// the single 'content' of a node (shared)
AKB_EXPORT void* akp_content(void* h) {
  AKP_TRY
  ak::Content* raw = C(h).get();
#define M(CLS) if (ak::CLS* a = dynamic_cast<ak::CLS*>(raw)) return share_content(a->content());
  OPTCLASSES(M) IDXCLASSES(M) LISTCLASSES(M) M(RegularArray)
#undef M
  throw std::invalid_argument("bridge: node has no content");
  AKP_CATCH(nullptr)
}
// RecordArray / UnionArray / Record contents -> akp_ptrs (shared handles, owned by the caller)
AKB_EXPORT int akp_contents(void* h) {
  AKP_TRY
  ak::Content* raw = C(h).get();
  ak::ContentPtrVec cs;
  if (ak::RecordArray* a = dynamic_cast<ak::RecordArray*>(raw)) cs = a->contents();
  else if (ak::Record* a = dynamic_cast<ak::Record*>(raw)) cs = a->contents();
#define M(CLS) else if (ak::CLS* a = dynamic_cast<ak::CLS*>(raw)) cs = a->contents();
  UNIONCLASSES(M)
#undef M
  else throw std::invalid_argument("bridge: node has no contents");
  akp_ptrs.clear();
  for (auto& c : cs) akp_ptrs.push_back(share_content(c));
  return 0;
  AKP_CATCH(-1)
}
// which: "offsets" "starts" "stops" "index" "mask" "tags"
AKB_EXPORT void* akp_index_of(void* h, const char* which) {
  AKP_TRY
  ak::Content* raw = C(h).get();
  std::string w(which);
#define GETI(CLS, NAME, METH) if (w == NAME) if (ak::CLS* a = dynamic_cast<ak::CLS*>(raw)) return box_index(a->METH());
  GETI(ListOffsetArray32, "offsets", offsets) GETI(ListOffsetArrayU32, "offsets", offsets) GETI(ListOffsetArray64, "offsets", offsets)
  GETI(ListOffsetArray32, "starts", starts) GETI(ListOffsetArrayU32, "starts", starts) GETI(ListOffsetArray64, "starts", starts)
  GETI(ListOffsetArray32, "stops", stops) GETI(ListOffsetArrayU32, "stops", stops) GETI(ListOffsetArray64, "stops", stops)
  GETI(ListArray32, "starts", starts) GETI(ListArrayU32, "starts", starts) GETI(ListArray64, "starts", starts)
  GETI(ListArray32, "stops", stops) GETI(ListArrayU32, "stops", stops) GETI(ListArray64, "stops", stops)
  GETI(IndexedArray32, "index", index) GETI(IndexedArrayU32, "index", index) GETI(IndexedArray64, "index", index)
  GETI(IndexedOptionArray32, "index", index) GETI(IndexedOptionArray64, "index", index)
  GETI(ByteMaskedArray, "mask", mask) GETI(BitMaskedArray, "mask", mask)
  GETI(UnionArray8_32, "tags", tags) GETI(UnionArray8_U32, "tags", tags) GETI(UnionArray8_64, "tags", tags)
  GETI(UnionArray8_32, "index", index) GETI(UnionArray8_U32, "index", index) GETI(UnionArray8_64, "index", index)
#undef GETI
  throw std::invalid_argument("bridge: node has no such index");
  AKP_CATCH(nullptr)
}
// which: "valid_when" "lsb_order" "isoption" "istuple"
AKB_EXPORT int akp_flag(void* h, const char* which) {
  AKP_TRY
  ak::Content* raw = C(h).get();
  std::string w(which);
  if (w == "valid_when") {
    if (ak::ByteMaskedArray* a = dynamic_cast<ak::ByteMaskedArray*>(raw)) return a->valid_when() ? 1 : 0;
    if (ak::BitMaskedArray* a = dynamic_cast<ak::BitMaskedArray*>(raw)) return a->valid_when() ? 1 : 0;
  }
  if (w == "lsb_order") {
    if (ak::BitMaskedArray* a = dynamic_cast<ak::BitMaskedArray*>(raw)) return a->lsb_order() ? 1 : 0;
  }
  if (w == "isoption") {
#define M(CLS) if (ak::CLS* a = dynamic_cast<ak::CLS*>(raw)) return a->isoption() ? 1 : 0;
    IDXCLASSES(M) M(IndexedOptionArray32) M(IndexedOptionArray64)
#undef M
  }
  if (w == "istuple") {
    if (ak::RecordArray* a = dynamic_cast<ak::RecordArray*>(raw)) return a->istuple() ? 1 : 0;
    if (ak::Record* a = dynamic_cast<ak::Record*>(raw)) return a->istuple() ? 1 : 0;
  }
  throw std::invalid_argument("bridge: node has no such flag");
  AKP_CATCH(-1)
}
AKB_EXPORT void* akp_project(void* h, void* mask8) {
  AKP_TRY
  ak::Content* raw = C(h).get();
#define M(CLS) if (ak::CLS* a = dynamic_cast<ak::CLS*>(raw)) { \
    if (mask8 == nullptr) return share_content(a->project()); \
    return share_content(a->project(IDX<int8_t>(mask8))); }
  OPTCLASSES(M) IDXCLASSES(M)
#undef M
  throw std::invalid_argument("bridge: class has no project()");
  AKP_CATCH(nullptr)
}
AKB_EXPORT void* akp_bytemask(void* h) {
  AKP_TRY
  ak::Content* raw = C(h).get();
#define M(CLS) if (ak::CLS* a = dynamic_cast<ak::CLS*>(raw)) return box_index<int8_t>(a->bytemask());
  OPTCLASSES(M) IDXCLASSES(M)
#undef M
  throw std::invalid_argument("bridge: class has no bytemask()");
  AKP_CATCH(nullptr)
}
AKB_EXPORT void* akp_simplify_optiontype(void* h) {
  AKP_TRY
  ak::Content* raw = C(h).get();
#define M(CLS) if (ak::CLS* a = dynamic_cast<ak::CLS*>(raw)) return share_content(a->simplify_optiontype());
  OPTCLASSES(M) IDXCLASSES(M)
#undef M
  throw std::invalid_argument("bridge: class has no simplify_optiontype()");
  AKP_CATCH(nullptr)
}
AKB_EXPORT void* akp_simplify_uniontype(void* h, int merge, int mergebool) {
  AKP_TRY
  ak::Content* raw = C(h).get();
#define M(CLS) if (ak::CLS* a = dynamic_cast<ak::CLS*>(raw)) return share_content(a->simplify_uniontype(merge != 0, mergebool != 0));
  UNIONCLASSES(M)
#undef M
  throw std::invalid_argument("bridge: class has no simplify_uniontype()");
  AKP_CATCH(nullptr)
}
AKB_EXPORT void* akp_toIndexedOptionArray64(void* h) {
  AKP_TRY
  ak::Content* raw = C(h).get();
  if (ak::ByteMaskedArray* a = dynamic_cast<ak::ByteMaskedArray*>(raw)) return share_content(a->toIndexedOptionArray64());
  if (ak::BitMaskedArray* a = dynamic_cast<ak::BitMaskedArray*>(raw)) return share_content(a->toIndexedOptionArray64());
  if (ak::UnmaskedArray* a = dynamic_cast<ak::UnmaskedArray*>(raw)) return share_content(a->toIndexedOptionArray64());
  throw std::invalid_argument("bridge: class has no toIndexedOptionArray64()");
  AKP_CATCH(nullptr)
}
AKB_EXPORT void* akp_toByteMaskedArray(void* h) {
  AKP_TRY
  ak::Content* raw = C(h).get();
  if (ak::BitMaskedArray* a = dynamic_cast<ak::BitMaskedArray*>(raw)) return share_content(a->toByteMaskedArray());
  if (ak::UnmaskedArray* a = dynamic_cast<ak::UnmaskedArray*>(raw)) return share_content(a->toByteMaskedArray());
  throw std::invalid_argument("bridge: class has no toByteMaskedArray()");
  AKP_CATCH(nullptr)
}
AKB_EXPORT void* akp_compact_offsets64(void* h, int start_at_zero) {
  AKP_TRY
  ak::Content* raw = C(h).get();
#define M(CLS) if (ak::CLS* a = dynamic_cast<ak::CLS*>(raw)) return box_index<int64_t>(a->compact_offsets64(start_at_zero != 0));
  LISTCLASSES(M) M(RegularArray)
#undef M
  throw std::invalid_argument("bridge: class has no compact_offsets64()");
  AKP_CATCH(nullptr)
}
AKB_EXPORT void* akp_broadcast_tooffsets64(void* h, void* offsets64) {
  AKP_TRY
  ak::Content* raw = C(h).get();
#define M(CLS) if (ak::CLS* a = dynamic_cast<ak::CLS*>(raw)) return share_content(a->broadcast_tooffsets64(IDX<int64_t>(offsets64)));
  LISTCLASSES(M) M(RegularArray)
#undef M
  throw std::invalid_argument("bridge: class has no broadcast_tooffsets64()");
  AKP_CATCH(nullptr)
}
AKB_EXPORT void* akp_toListOffsetArray64(void* h, int start_at_zero) {
  AKP_TRY
  ak::Content* raw = C(h).get();
#define M(CLS) if (ak::CLS* a = dynamic_cast<ak::CLS*>(raw)) return share_content(a->toListOffsetArray64(start_at_zero != 0));
  LISTCLASSES(M) M(RegularArray)
#undef M
  throw std::invalid_argument("bridge: class has no toListOffsetArray64()");
  AKP_CATCH(nullptr)
}
AKB_EXPORT void* akp_toRegularArray(void* h) {
  AKP_TRY
  ak::Content* raw = C(h).get();
#define M(CLS) if (ak::CLS* a = dynamic_cast<ak::CLS*>(raw)) return share_content(a->toRegularArray());
  LISTCLASSES(M) M(RegularArray) M(NumpyArray)
#undef M
  throw std::invalid_argument("bridge: class has no toRegularArray()");
  AKP_CATCH(nullptr)
}
AKB_EXPORT int64_t akp_regular_size(void* h, int* ok) {
  *ok = 0;
  AKP_TRY
  if (ak::RegularArray* a = dynamic_cast<ak::RegularArray*>(C(h).get())) { *ok = 1; return a->size(); }
  throw std::invalid_argument("bridge: not a RegularArray");
  AKP_CATCH(0)
}
AKB_EXPORT void* akp_empty_toNumpyArray(void* h) {
  AKP_TRY
  if (ak::EmptyArray* a = dynamic_cast<ak::EmptyArray*>(C(h).get()))
    return share_content(a->toNumpyArray("d", sizeof(double), ak::util::dtype::float64));
  throw std::invalid_argument("bridge: not an EmptyArray");
  AKP_CATCH(nullptr)
}

// ---- NumpyArray
static ak::NumpyArray* NP(void* h) {
  ak::NumpyArray* a = dynamic_cast<ak::NumpyArray*>(C(h).get());
  if (a == nullptr) throw std::invalid_argument("bridge: not a NumpyArray");
  return a;
}
// shape -> akp_ints[0:ndim], strides -> akp_ints[ndim:2*ndim]
AKB_EXPORT int akp_numpy_info(void* h, void** data, void** base, int64_t* byteoffset, int64_t* itemsize, int* dtype,
                              int* ndim, int* ptr_lib) {
  AKP_TRY
  ak::NumpyArray* a = NP(h);
  akp_ints.clear();
  for (ssize_t x : a->shape()) akp_ints.push_back((int64_t)x);
  for (ssize_t x : a->strides()) akp_ints.push_back((int64_t)x);
  *data = a->data();
  *base = a->ptr().get();
  *byteoffset = (int64_t)a->byteoffset();
  *itemsize = (int64_t)a->itemsize();
  *dtype = (int)a->dtype();
  *ndim = (int)a->ndim();
  *ptr_lib = (int)a->ptr_lib();
  akb_str = a->format();
  return 0;
  AKP_CATCH(-1)
}
AKB_EXPORT const char* akp_numpy_format(void* h) {
  AKP_TRY akb_str = NP(h)->format(); return akb_str.c_str(); AKP_CATCH(nullptr)
}
AKB_EXPORT int akp_numpy_isempty(void* h) { AKP_TRY return NP(h)->isempty() ? 1 : 0; AKP_CATCH(-1) }
AKB_EXPORT int akp_numpy_iscontiguous(void* h) { AKP_TRY return NP(h)->iscontiguous() ? 1 : 0; AKP_CATCH(-1) }
AKB_EXPORT void* akp_numpy_contiguous(void* h) {
  AKP_TRY return share_content(std::make_shared<ak::NumpyArray>(NP(h)->contiguous())); AKP_CATCH(nullptr)
}
AKB_EXPORT void* akp_numpy_view_int64(void* h) {
  AKP_TRY
  ak::NumpyArray* self = NP(h);
  if (self->itemsize() != 8) {
    throw std::invalid_argument(std::string("NumpyArray itemsize != 8")
                                + std::string("\n\n(https://github.com/scikit-hep/awkward-1.0/blob/" VERSION_INFO
                                              "/src/python/content.cpp#L2444)"));
  }
  ak::util::dtype dt = ak::util::dtype::int64;
  return share_content(std::make_shared<ak::NumpyArray>(
      self->identities(), self->parameters(), self->ptr(), self->shape(), self->strides(), self->byteoffset(),
      self->itemsize(), ak::util::dtype_to_format(dt), dt, self->ptr_lib()));
  AKP_CATCH(nullptr)
}
// the scalar value that box() extracts with kernel::NumpyArray_getitem_at0 (cpu: *ptr)
AKB_EXPORT int akp_numpy_scalar(void* h, int64_t* i, uint64_t* u, double* d) {
  AKP_TRY
  ak::NumpyArray* raw = NP(h);
  switch (raw->dtype()) {
    case ak::util::dtype::boolean:
      *i = ak::kernel::NumpyArray_getitem_at0(raw->ptr_lib(), reinterpret_cast<bool*>(raw->data())) ? 1 : 0; return 1;
    case ak::util::dtype::int8:
      *i = ak::kernel::NumpyArray_getitem_at0(raw->ptr_lib(), reinterpret_cast<int8_t*>(raw->data())); return 2;
    case ak::util::dtype::int16:
      *i = ak::kernel::NumpyArray_getitem_at0(raw->ptr_lib(), reinterpret_cast<int16_t*>(raw->data())); return 2;
    case ak::util::dtype::int32:
      *i = ak::kernel::NumpyArray_getitem_at0(raw->ptr_lib(), reinterpret_cast<int32_t*>(raw->data())); return 2;
    case ak::util::dtype::int64:
      *i = ak::kernel::NumpyArray_getitem_at0(raw->ptr_lib(), reinterpret_cast<int64_t*>(raw->data())); return 2;
    case ak::util::dtype::uint8:
      *u = ak::kernel::NumpyArray_getitem_at0(raw->ptr_lib(), reinterpret_cast<uint8_t*>(raw->data())); return 3;
    case ak::util::dtype::uint16:
      *u = ak::kernel::NumpyArray_getitem_at0(raw->ptr_lib(), reinterpret_cast<uint16_t*>(raw->data())); return 3;
    case ak::util::dtype::uint32:
      *u = ak::kernel::NumpyArray_getitem_at0(raw->ptr_lib(), reinterpret_cast<uint32_t*>(raw->data())); return 3;
    case ak::util::dtype::uint64:
      *u = ak::kernel::NumpyArray_getitem_at0(raw->ptr_lib(), reinterpret_cast<uint64_t*>(raw->data())); return 3;
    case ak::util::dtype::float32:
      *d = ak::kernel::NumpyArray_getitem_at0(raw->ptr_lib(), reinterpret_cast<float*>(raw->data())); return 4;
    case ak::util::dtype::float64:
      *d = ak::kernel::NumpyArray_getitem_at0(raw->ptr_lib(), reinterpret_cast<double*>(raw->data())); return 4;
    case ak::util::dtype::datetime64:
      *u = *reinterpret_cast<uint64_t*>(raw->data()); return 5;
    case ak::util::dtype::timedelta64:
      *u = *reinterpret_cast<uint64_t*>(raw->data()); return 6;
    default:
      return 7;    // the Python side builds an array from the buffer and calls .item()
  }
  AKP_CATCH(-1)
}

// ---- Record / RecordArray
AKB_EXPORT void* akp_record_array(void* h) {
  AKP_TRY
  if (ak::Record* a = dynamic_cast<ak::Record*>(C(h).get()))
    return share_content(std::const_pointer_cast<ak::RecordArray>(a->array()));
  throw std::invalid_argument("bridge: not a Record");
  AKP_CATCH(nullptr)
}
AKB_EXPORT int64_t akp_record_at(void* h, int* ok) {
  *ok = 0;
  AKP_TRY
  if (ak::Record* a = dynamic_cast<ak::Record*>(C(h).get())) { *ok = 1; return a->at(); }
  throw std::invalid_argument("bridge: not a Record");
  AKP_CATCH(0)
}
// recordlookup -> akp_strs; returns 0 when there is none (tuple), 1 otherwise
AKB_EXPORT int akp_recordlookup(void* h) {
  AKP_TRY
  ak::util::RecordLookupPtr lookup(nullptr);
  ak::Content* raw = C(h).get();
  if (ak::RecordArray* a = dynamic_cast<ak::RecordArray*>(raw)) lookup = a->recordlookup();
  else if (ak::Record* a = dynamic_cast<ak::Record*>(raw)) lookup = a->recordlookup();
  else throw std::invalid_argument("bridge: not a RecordArray or Record");
  akp_strs.clear();
  if (lookup.get() == nullptr) return 0;
  akp_strs = *lookup;
  return 1;
  AKP_CATCH(-1)
}
AKB_EXPORT void* akp_field_at(void* h, int64_t fieldindex) {
  AKP_TRY
  ak::Content* raw = C(h).get();
  if (ak::RecordArray* a = dynamic_cast<ak::RecordArray*>(raw)) return share_content(a->field(fieldindex));
  if (ak::Record* a = dynamic_cast<ak::Record*>(raw)) return share_content(a->field(fieldindex));
  throw std::invalid_argument("bridge: not a RecordArray or Record");
  AKP_CATCH(nullptr)
}
AKB_EXPORT void* akp_field_key(void* h, const char* key) {
  AKP_TRY
  ak::Content* raw = C(h).get();
  if (ak::RecordArray* a = dynamic_cast<ak::RecordArray*>(raw)) return share_content(a->field(std::string(key)));
  if (ak::Record* a = dynamic_cast<ak::Record*>(raw)) return share_content(a->field(std::string(key)));
  throw std::invalid_argument("bridge: not a RecordArray or Record");
  AKP_CATCH(nullptr)
}
// fields() -> akp_ptrs
AKB_EXPORT int akp_fields(void* h) {
  AKP_TRY
  ak::Content* raw = C(h).get();
  ak::ContentPtrVec cs;
  if (ak::RecordArray* a = dynamic_cast<ak::RecordArray*>(raw)) cs = a->fields();
  else if (ak::Record* a = dynamic_cast<ak::Record*>(raw)) cs = a->fields();
  else throw std::invalid_argument("bridge: not a RecordArray or Record");
  akp_ptrs.clear();
  for (auto& c : cs) akp_ptrs.push_back(share_content(c));
  return 0;
  AKP_CATCH(-1)
}
// fielditems() -> akp_strs (keys), akp_ptrs (values)
AKB_EXPORT int akp_fielditems(void* h) {
  AKP_TRY
  ak::Content* raw = C(h).get();
  std::vector<std::pair<std::string, ak::ContentPtr>> items;
  if (ak::RecordArray* a = dynamic_cast<ak::RecordArray*>(raw)) items = a->fielditems();
  else if (ak::Record* a = dynamic_cast<ak::Record*>(raw)) items = a->fielditems();
  else throw std::invalid_argument("bridge: not a RecordArray or Record");
  akp_ptrs.clear(); akp_strs.clear();
  for (auto& it : items) { akp_strs.push_back(it.first); akp_ptrs.push_back(share_content(it.second)); }
  return 0;
  AKP_CATCH(-1)
}
AKB_EXPORT void* akp_astuple(void* h) {
  AKP_TRY
  ak::Content* raw = C(h).get();
  if (ak::RecordArray* a = dynamic_cast<ak::RecordArray*>(raw)) return share_content(a->astuple());
  if (ak::Record* a = dynamic_cast<ak::Record*>(raw)) return share_content(a->astuple());
  throw std::invalid_argument("bridge: not a RecordArray or Record");
  AKP_CATCH(nullptr)
}
AKB_EXPORT void* akp_setitem_field_key(void* h, const char* where, void* what) {
  AKP_TRY
  if (ak::RecordArray* a = dynamic_cast<ak::RecordArray*>(C(h).get()))
    return share_content(a->setitem_field(std::string(where), UNBOX(what)));
  throw std::invalid_argument("bridge: not a RecordArray");
  AKP_CATCH(nullptr)
}
// where < 0 with use_numfields: the binding's 'where is None' case
AKB_EXPORT void* akp_setitem_field_at(void* h, int64_t where, int use_numfields, void* what) {
  AKP_TRY
  if (ak::RecordArray* a = dynamic_cast<ak::RecordArray*>(C(h).get())) {
    ak::ContentPtr mywhat = UNBOX(what);
    if (use_numfields) return share_content(a->setitem_field(a->numfields(), mywhat));
    return share_content(a->setitem_field(where, mywhat));
  }
  throw std::invalid_argument("bridge: not a RecordArray");
  AKP_CATCH(nullptr)
}

// ---- UnionArray
AKB_EXPORT int64_t akp_union_numcontents(void* h, int* ok) {
  *ok = 0;
  AKP_TRY
  ak::Content* raw = C(h).get();
#define M(CLS) if (ak::CLS* a = dynamic_cast<ak::CLS*>(raw)) { *ok = 1; return a->numcontents(); }
  UNIONCLASSES(M)
#undef M
  throw std::invalid_argument("bridge: not a UnionArray");
  AKP_CATCH(0)
}
AKB_EXPORT void* akp_union_content(void* h, int64_t i) {
  AKP_TRY
  ak::Content* raw = C(h).get();
#define M(CLS) if (ak::CLS* a = dynamic_cast<ak::CLS*>(raw)) return share_content(a->content(i));
  UNIONCLASSES(M)
#undef M
  throw std::invalid_argument("bridge: not a UnionArray");
  AKP_CATCH(nullptr)
}
AKB_EXPORT void* akp_union_project(void* h, int64_t i) {
  AKP_TRY
  ak::Content* raw = C(h).get();
#define M(CLS) if (ak::CLS* a = dynamic_cast<ak::CLS*>(raw)) return share_content(a->project(i));
  UNIONCLASSES(M)
#undef M
  throw std::invalid_argument("bridge: not a UnionArray");
  AKP_CATCH(nullptr)
}
// ikind: index kind of the UnionArray class (2 -> 8_32, 3 -> 8_U32, 4 -> 8_64)
AKB_EXPORT void* akp_union_sparse_index(int ikind, int64_t len) {
  AKP_TRY
  if (ikind == 2) return box_index<int32_t>(ak::UnionArray8_32::sparse_index(len));
  if (ikind == 3) return box_index<uint32_t>(ak::UnionArray8_U32::sparse_index(len));
  if (ikind == 4) return box_index<int64_t>(ak::UnionArray8_64::sparse_index(len));
  throw std::invalid_argument("bridge: bad UnionArray kind");
  AKP_CATCH(nullptr)
}
AKB_EXPORT void* akp_union_regular_index(int ikind, void* tags) {
  AKP_TRY
  if (ikind == 2) return box_index<int32_t>(ak::UnionArray8_32::regular_index(IDX<int8_t>(tags)));
  if (ikind == 3) return box_index<uint32_t>(ak::UnionArray8_U32::regular_index(IDX<int8_t>(tags)));
  if (ikind == 4) return box_index<int64_t>(ak::UnionArray8_64::regular_index(IDX<int8_t>(tags)));
  throw std::invalid_argument("bridge: bad UnionArray kind");
  AKP_CATCH(nullptr)
}
// returns tags; *index_out receives the index
AKB_EXPORT void* akp_union_nested_tags_index(int ikind, void* offsets, void** counts, int n, void** index_out) {
  AKP_TRY
  std::vector<ak::Index64> cs;
  for (int i = 0; i < n; i++) cs.push_back(IDX<int64_t>(counts[i]));
  if (ikind == 2) {
    std::pair<ak::Index8, ak::Index32> p = ak::UnionArray8_32::nested_tags_index(IDX<int64_t>(offsets), cs);
    *index_out = box_index<int32_t>(p.second); return box_index<int8_t>(p.first);
  }
  if (ikind == 3) {
    std::pair<ak::Index8, ak::IndexU32> p = ak::UnionArray8_U32::nested_tags_index(IDX<int64_t>(offsets), cs);
    *index_out = box_index<uint32_t>(p.second); return box_index<int8_t>(p.first);
  }
  if (ikind == 4) {
    std::pair<ak::Index8, ak::Index64> p = ak::UnionArray8_64::nested_tags_index(IDX<int64_t>(offsets), cs);
    *index_out = box_index<int64_t>(p.second); return box_index<int8_t>(p.first);
  }
  throw std::invalid_argument("bridge: bad UnionArray kind");
  AKP_CATCH(nullptr)
}

// ---- handle_as_numpy of src/python/content.cpp
static bool handle_as_numpy(const ak::ContentPtr& content) {
  ak::Content* p = content.get();
  if (dynamic_cast<ak::NumpyArray*>(p)) return true;
  if (dynamic_cast<ak::EmptyArray*>(p)) return true;
  if (ak::RegularArray* raw = dynamic_cast<ak::RegularArray*>(p)) return handle_as_numpy(raw->content());
  if (ak::IndexedArray32* raw = dynamic_cast<ak::IndexedArray32*>(p)) return handle_as_numpy(raw->content());
  if (ak::IndexedArrayU32* raw = dynamic_cast<ak::IndexedArrayU32*>(p)) return handle_as_numpy(raw->content());
  if (ak::IndexedArray64* raw = dynamic_cast<ak::IndexedArray64*>(p)) return handle_as_numpy(raw->content());
#define M(CLS)                                                               \
  if (ak::CLS* raw = dynamic_cast<ak::CLS*>(p)) {                            \
    ak::ContentPtr first = raw->content(0);                                  \
    for (int64_t i = 1; i < raw->numcontents(); i++) {                       \
      if (!first.get()->mergeable(raw->content(i), false)) return false;     \
    }                                                                        \
    return handle_as_numpy(first);                                           \
  }
  UNIONCLASSES(M)
#undef M
  return false;
}
AKB_EXPORT int akp_handle_as_numpy(void* h) { AKP_TRY return handle_as_numpy(C(h)) ? 1 : 0; AKP_CATCH(-1) }
AKB_EXPORT int akp_parameter_equals(void* h, const char* key, const char* value) {
  AKP_TRY return C(h)->parameter_equals(std::string(key), std::string(value)) ? 1 : 0; AKP_CATCH(-1)
}

// ---------------------------------------------------------------- slices

#define SL(s) (*reinterpret_cast<ak::Slice*>(s))
AKB_EXPORT void* akp_slice_new() { return new ak::Slice(); }
AKB_EXPORT void akp_slice_free(void* s) { delete reinterpret_cast<ak::Slice*>(s); }
AKB_EXPORT int64_t akp_slice_length(void* s) { return SL(s).length(); }
AKB_EXPORT int akp_slice_at(void* s, int64_t at) { AKP_TRY SL(s).append(std::make_shared<ak::SliceAt>(at)); return 0; AKP_CATCH(-1) }
AKB_EXPORT int64_t akp_slice_none() { return ak::Slice::none(); }
// start/stop are already Slice::none() when absent
AKB_EXPORT int akp_slice_range(void* s, int64_t start, int64_t stop, int64_t step) {
  AKP_TRY SL(s).append(std::make_shared<ak::SliceRange>(start, stop, step)); return 0; AKP_CATCH(-1)
}
AKB_EXPORT int akp_slice_ellipsis(void* s) { AKP_TRY SL(s).append(std::make_shared<ak::SliceEllipsis>()); return 0; AKP_CATCH(-1) }
AKB_EXPORT int akp_slice_newaxis(void* s) { AKP_TRY SL(s).append(std::make_shared<ak::SliceNewAxis>()); return 0; AKP_CATCH(-1) }
AKB_EXPORT int akp_slice_field(void* s, const char* key) {
  AKP_TRY SL(s).append(std::make_shared<ak::SliceField>(std::string(key))); return 0; AKP_CATCH(-1)
}
AKB_EXPORT int akp_slice_fields(void* s, const char** keys, int n) {
  AKP_TRY SL(s).append(std::make_shared<ak::SliceFields>(akp_strvec(keys, n))); return 0; AKP_CATCH(-1)
}
// strides in items, like the binding
AKB_EXPORT int akp_slice_array(void* s, void* index64, int ndim, const int64_t* shape, const int64_t* strides, int frombool) {
  AKP_TRY
  std::vector<int64_t> sh(shape, shape + ndim), st(strides, strides + ndim);
  SL(s).append(std::make_shared<ak::SliceArray64>(IDX<int64_t>(index64), sh, st, frombool != 0));
  return 0;
  AKP_CATCH(-1)
}
// content.asslice()
AKB_EXPORT int akp_slice_content(void* s, void* h) {
  AKP_TRY SL(s).append(C(h)->asslice()); return 0; AKP_CATCH(-1)
}
AKB_EXPORT int akp_slice_seal(void* s) { AKP_TRY SL(s).become_sealed(); return 0; AKP_CATCH(-1) }
AKB_EXPORT const char* akp_slice_tostring(void* s) { AKP_TRY akb_str = SL(s).tostring(); return akb_str.c_str(); AKP_CATCH(nullptr) }
AKB_EXPORT void* akp_getitem(void* h, void* s) { AKP_TRY return share_content(C(h)->getitem(SL(s))); AKP_CATCH(nullptr) }

// ---------------------------------------------------------------- Iterator

#define IT(h) (*reinterpret_cast<std::shared_ptr<ak::Iterator>*>(h))
AKB_EXPORT void* akp_iter_new(void* content, int unbox) {
  AKP_TRY
  return new std::shared_ptr<ak::Iterator>(std::make_shared<ak::Iterator>(unbox ? UNBOX(content) : C(content)));
  AKP_CATCH(nullptr)
}
AKB_EXPORT void akp_iter_free(void* h) { delete reinterpret_cast<std::shared_ptr<ak::Iterator>*>(h); }
AKB_EXPORT int akp_iter_isdone(void* h) { AKP_TRY return IT(h)->isdone() ? 1 : 0; AKP_CATCH(-1) }
AKB_EXPORT void* akp_iter_next(void* h) { AKP_TRY return share_content(IT(h)->next()); AKP_CATCH(nullptr) }
AKB_EXPORT const char* akp_iter_tostring(void* h) { AKP_TRY akb_str = IT(h)->tostring(); return akb_str.c_str(); AKP_CATCH(nullptr) }
