// Harness code: AwkwardForth section of the C ABI bridge (ForthMachine32 / ForthMachine64).
//
// A handle owns one machine of either width plus the *staged* inputs (name -> bytes).  Every begin()/run() hands the
// machine fresh ForthInputBuffers over fresh malloc'ed copies of exactly the staged length, so that ASan's red zone
// starts at the first byte past the input and one run can never see bytes modified by an earlier one.
// Every C++ exception is turned into (kind, message) by AKB_TRY/AKB_CATCH; run/step/resume/call use the overloads that
// *return* util::ForthError (0 none .. 12 varint_too_big) and report -1 for an exception.
#include "akb.h"
#include "awkward/forth/ForthMachine.h"
#include "awkward/forth/ForthInputBuffer.h"
#include "awkward/forth/ForthOutputBuffer.h"

#include <set>

namespace {
  typedef ak::ForthMachineOf<int32_t, int32_t> M32;
  typedef ak::ForthMachineOf<int64_t, int32_t> M64;

  struct FreeDeleter {
    void operator()(void* p) const { std::free(p); }
  };

  struct ForthH {
    int bits;
    std::shared_ptr<M32> m32;
    std::shared_ptr<M64> m64;
    std::vector<std::string> in_names;
    std::vector<std::string> in_bytes;
    // the buffers handed to the machine by the latest begin()/run() (kept to read them back)
    std::map<std::string, std::shared_ptr<ak::ForthInputBuffer>> live;
    std::map<std::string, int64_t> live_len;
  };

  inline ForthH* F(void* h) { return reinterpret_cast<ForthH*>(h); }

  std::map<std::string, std::shared_ptr<ak::ForthInputBuffer>> fresh_inputs(ForthH* f) {
    f->live.clear();
    f->live_len.clear();
    for (size_t i = 0; i < f->in_names.size(); i++) {
      const std::string& bytes = f->in_bytes[i];
      void* raw = std::malloc(bytes.size());          // exact size (malloc(0) is a valid zero-length block)
      if (raw == nullptr && bytes.size() != 0) {
        throw std::runtime_error("bridge: malloc failed");
      }
      if (bytes.size() != 0) {
        std::memcpy(raw, bytes.data(), bytes.size());
      }
      std::shared_ptr<void> ptr(raw, FreeDeleter());
      f->live[f->in_names[i]] = std::make_shared<ak::ForthInputBuffer>(ptr, 0, (int64_t)bytes.size());
      f->live_len[f->in_names[i]] = (int64_t)bytes.size();
    }
    return f->live;
  }

  std::string join(const std::vector<std::string>& v) {
    std::string out;
    for (size_t i = 0; i < v.size(); i++) {
      if (i) out += '\x1f';
      out += v[i];
    }
    return out;
  }
}

#define FM(h, expr) (F(h)->bits == 32 ? (F(h)->m32->expr) : (F(h)->m64->expr))

AKB_EXPORT void* akb_forth_new(int bits, const char* source, int64_t source_len, int64_t stack_max_depth,
                               int64_t recursion_max_depth, int64_t output_initial_size,
                               double output_resize_factor) {
  AKB_TRY
  if (bits != 32 && bits != 64) {
    throw std::invalid_argument("bridge: ForthMachine width must be 32 or 64");
  }
  std::string src(source, (size_t)source_len);
  std::unique_ptr<ForthH> f(new ForthH());
  f->bits = bits;
  if (bits == 32) {
    f->m32 = std::make_shared<M32>(src, stack_max_depth, recursion_max_depth, output_initial_size,
                                   output_resize_factor);
  }
  else {
    f->m64 = std::make_shared<M64>(src, stack_max_depth, recursion_max_depth, output_initial_size,
                                   output_resize_factor);
  }
  return f.release();
  AKB_CATCH(nullptr)
}
AKB_EXPORT void akb_forth_free(void* h) { delete F(h); }
AKB_EXPORT int akb_forth_bits(void* h) { return F(h)->bits; }

// ---- inputs
AKB_EXPORT int akb_forth_clear_inputs(void* h) {
  AKB_TRY F(h)->in_names.clear(); F(h)->in_bytes.clear(); return 0; AKB_CATCH(-1)
}
AKB_EXPORT int akb_forth_set_input(void* h, const char* name, const void* data, int64_t length) {
  AKB_TRY
  ForthH* f = F(h);
  std::string n(name);
  std::string b(reinterpret_cast<const char*>(data), (size_t)length);
  for (size_t i = 0; i < f->in_names.size(); i++) {
    if (f->in_names[i] == n) { f->in_bytes[i] = b; return 0; }
  }
  f->in_names.push_back(n);
  f->in_bytes.push_back(b);
  return 0;
  AKB_CATCH(-1)
}
// current content of the buffer the machine holds for `name` (to see whether a run modified its input)
AKB_EXPORT int64_t akb_forth_input_bytes(void* h, const char* name, void* dst, int64_t cap) {
  AKB_TRY
  ForthH* f = F(h);
  auto it = f->live.find(std::string(name));
  if (it == f->live.end()) {
    throw std::invalid_argument(std::string("bridge: no live input named ") + name);
  }
  int64_t n = f->live_len[std::string(name)];
  if (n > cap) n = cap;
  if (n > 0) std::memcpy(dst, it->second->ptr().get(), (size_t)n);
  return f->live_len[std::string(name)];
  AKB_CATCH(-1)
}
AKB_EXPORT int64_t akb_forth_input_position(void* h, const char* name) {
  AKB_TRY return FM(h, input_position_at(std::string(name))); AKB_CATCH(-1)
}
AKB_EXPORT int akb_forth_input_must_be_writable(void* h, const char* name) {
  AKB_TRY return FM(h, input_must_be_writable(std::string(name))) ? 1 : 0; AKB_CATCH(-1)
}

// ---- execution: returns (int)util::ForthError, or -1 when the library threw
AKB_EXPORT int akb_forth_begin(void* h) {
  AKB_TRY
  auto ins = fresh_inputs(F(h));
  FM(h, begin(ins));
  return 0;
  AKB_CATCH(-1)
}
AKB_EXPORT int akb_forth_begin_noinputs(void* h) {
  AKB_TRY F(h)->live.clear(); F(h)->live_len.clear(); FM(h, begin()); return 0; AKB_CATCH(-1)
}
AKB_EXPORT int akb_forth_run(void* h) {
  AKB_TRY
  auto ins = fresh_inputs(F(h));
  return (int)FM(h, run(ins));
  AKB_CATCH(-1)
}
AKB_EXPORT int akb_forth_run_noinputs(void* h) {
  AKB_TRY F(h)->live.clear(); F(h)->live_len.clear(); return (int)FM(h, run()); AKB_CATCH(-1)
}
AKB_EXPORT int akb_forth_step(void* h) { AKB_TRY return (int)FM(h, step()); AKB_CATCH(-1) }
AKB_EXPORT int akb_forth_resume(void* h) { AKB_TRY return (int)FM(h, resume()); AKB_CATCH(-1) }
AKB_EXPORT int akb_forth_call(void* h, const char* name) {
  AKB_TRY return (int)FM(h, call(std::string(name))); AKB_CATCH(-1)
}
AKB_EXPORT int akb_forth_call_index(void* h, int64_t index) {
  AKB_TRY
  int64_t n = (int64_t)FM(h, dictionary()).size();
  if (index < 0 || index >= n) {
    throw std::invalid_argument("bridge: dictionary index out of range");
  }
  return (int)FM(h, call(index));
  AKB_CATCH(-1)
}
AKB_EXPORT int akb_forth_reset(void* h) { AKB_TRY FM(h, reset()); return 0; AKB_CATCH(-1) }

// maybe_throw(err, ignore): 0 = did not throw, -1 = threw (kind + message available); ignore_mask bit i = ForthError i
AKB_EXPORT int akb_forth_maybe_throw(void* h, int err, int64_t ignore_mask) {
  AKB_TRY
  std::set<ak::util::ForthError> ignore;
  for (int i = 0; i < (int)ak::util::ForthError::size; i++) {
    if (ignore_mask & ((int64_t)1 << i)) ignore.insert((ak::util::ForthError)i);
  }
  FM(h, maybe_throw((ak::util::ForthError)err, ignore));
  return 0;
  AKB_CATCH(-1)
}

// ---- state
AKB_EXPORT int akb_forth_is_ready(void* h) { AKB_TRY return FM(h, is_ready()) ? 1 : 0; AKB_CATCH(-1) }
AKB_EXPORT int akb_forth_is_done(void* h) { AKB_TRY return FM(h, is_done()) ? 1 : 0; AKB_CATCH(-1) }
// only meaningful (and only memory-safe) while the machine is inside a segment: the caller checks !is_done first
AKB_EXPORT int akb_forth_is_segment_done(void* h) { AKB_TRY return FM(h, is_segment_done()) ? 1 : 0; AKB_CATCH(-1) }
AKB_EXPORT int64_t akb_forth_current_bytecode_position(void* h) {
  AKB_TRY return FM(h, current_bytecode_position()); AKB_CATCH(-2)
}
AKB_EXPORT int64_t akb_forth_current_recursion_depth(void* h) {
  AKB_TRY return FM(h, current_recursion_depth()); AKB_CATCH(-2)
}
AKB_EXPORT const char* akb_forth_current_instruction(void* h) {
  AKB_TRY akb_str = FM(h, current_instruction()); return akb_str.c_str(); AKB_CATCH(nullptr)
}

AKB_EXPORT int64_t akb_forth_stack_depth(void* h) { AKB_TRY return FM(h, stack_depth()); AKB_CATCH(-1) }
// copies up to cap values (bottom first) widened to int64; returns the depth
AKB_EXPORT int64_t akb_forth_stack(void* h, int64_t* out, int64_t cap) {
  AKB_TRY
  if (F(h)->bits == 32) {
    const std::vector<int32_t> s = F(h)->m32->stack();
    for (size_t i = 0; i < s.size() && (int64_t)i < cap; i++) out[i] = (int64_t)s[i];
    return (int64_t)s.size();
  }
  else {
    const std::vector<int64_t> s = F(h)->m64->stack();
    for (size_t i = 0; i < s.size() && (int64_t)i < cap; i++) out[i] = s[i];
    return (int64_t)s.size();
  }
  AKB_CATCH(-1)
}
AKB_EXPORT int akb_forth_stack_can_push(void* h) { AKB_TRY return FM(h, stack_can_push()) ? 1 : 0; AKB_CATCH(-1) }
AKB_EXPORT int akb_forth_stack_can_pop(void* h) { AKB_TRY return FM(h, stack_can_pop()) ? 1 : 0; AKB_CATCH(-1) }
// checked like the Python binding does (the raw methods are unchecked)
AKB_EXPORT int akb_forth_stack_push(void* h, int64_t value) {
  AKB_TRY
  if (!FM(h, stack_can_push())) throw std::invalid_argument("AwkwardForth stack overflow");
  if (F(h)->bits == 32) F(h)->m32->stack_push((int32_t)value); else F(h)->m64->stack_push(value);
  return 0;
  AKB_CATCH(-1)
}
AKB_EXPORT int akb_forth_stack_pop(void* h, int64_t* out) {
  AKB_TRY
  if (!FM(h, stack_can_pop())) throw std::invalid_argument("AwkwardForth stack underflow");
  *out = (int64_t)FM(h, stack_pop());
  return 0;
  AKB_CATCH(-1)
}
AKB_EXPORT int akb_forth_stack_clear(void* h) { AKB_TRY FM(h, stack_clear()); return 0; AKB_CATCH(-1) }

// names in declaration order, \x1f separated
AKB_EXPORT const char* akb_forth_variable_names(void* h) {
  AKB_TRY akb_str = join(FM(h, variable_index())); return akb_str.c_str(); AKB_CATCH(nullptr)
}
AKB_EXPORT int akb_forth_variable_at(void* h, const char* name, int64_t* out) {
  AKB_TRY *out = (int64_t)FM(h, variable_at(std::string(name))); return 0; AKB_CATCH(-1)
}
AKB_EXPORT int akb_forth_variable_at_index(void* h, int64_t index, int64_t* out) {
  AKB_TRY
  int64_t n = (int64_t)FM(h, variable_index()).size();
  if (index < 0 || index >= n) throw std::invalid_argument("bridge: variable index out of range");
  *out = (int64_t)FM(h, variable_at(index));
  return 0;
  AKB_CATCH(-1)
}
// the variables() map: "name=value" items, \x1f separated, in map order
AKB_EXPORT const char* akb_forth_variables(void* h) {
  AKB_TRY
  std::stringstream out;
  bool first = true;
  if (F(h)->bits == 32) {
    for (auto const& p : F(h)->m32->variables()) {
      if (!first) out << '\x1f';
      first = false;
      out << p.first << '\x1e' << (int64_t)p.second;
    }
  }
  else {
    for (auto const& p : F(h)->m64->variables()) {
      if (!first) out << '\x1f';
      first = false;
      out << p.first << '\x1e' << (int64_t)p.second;
    }
  }
  akb_str = out.str();
  return akb_str.c_str();
  AKB_CATCH(nullptr)
}

// ---- outputs
AKB_EXPORT const char* akb_forth_output_names(void* h) {
  AKB_TRY akb_str = join(FM(h, output_index())); return akb_str.c_str(); AKB_CATCH(nullptr)
}
// names present in the outputs() map (only after begin), \x1f separated
AKB_EXPORT const char* akb_forth_outputs_present(void* h) {
  AKB_TRY
  std::vector<std::string> names;
  if (F(h)->bits == 32) { for (auto const& p : F(h)->m32->outputs()) names.push_back(p.first); }
  else { for (auto const& p : F(h)->m64->outputs()) names.push_back(p.first); }
  akb_str = join(names);
  return akb_str.c_str();
  AKB_CATCH(nullptr)
}
// length (items) and dtype name of one output; dtype_out needs >= 16 bytes
AKB_EXPORT int64_t akb_forth_output_info(void* h, const char* name, char* dtype_out, int64_t* itemsize) {
  AKB_TRY
  ak::ContentPtr c = FM(h, output_NumpyArray_at(std::string(name)));
  const ak::NumpyArray* a = dynamic_cast<const ak::NumpyArray*>(c.get());
  if (a == nullptr) throw std::runtime_error("bridge: output is not a NumpyArray");
  std::string dt = ak::util::dtype_to_name(a->dtype());
  std::strncpy(dtype_out, dt.c_str(), 15);
  dtype_out[15] = 0;
  *itemsize = (int64_t)a->itemsize();
  int64_t viabuffer = FM(h, output_at(std::string(name)))->len();
  if (viabuffer != a->length()) throw std::runtime_error("bridge: output len() differs from its NumpyArray length");
  return a->length();
  AKB_CATCH(-1)
}
// copies min(cap, length*itemsize) bytes of the output; returns length*itemsize
AKB_EXPORT int64_t akb_forth_output_bytes(void* h, const char* name, void* dst, int64_t cap) {
  AKB_TRY
  ak::ContentPtr c = FM(h, output_NumpyArray_at(std::string(name)));
  const ak::NumpyArray* a = dynamic_cast<const ak::NumpyArray*>(c.get());
  if (a == nullptr) throw std::runtime_error("bridge: output is not a NumpyArray");
  int64_t total = a->length() * (int64_t)a->itemsize();
  int64_t n = total < cap ? total : cap;
  if (n > 0) std::memcpy(dst, a->data(), (size_t)n);
  return total;
  AKB_CATCH(-1)
}
// the typed Index view of an output (int8/uint8/int32/uint32/int64 only): returns its length, -1 when the library throws
AKB_EXPORT int64_t akb_forth_output_index_length(void* h, const char* name, int kind) {
  AKB_TRY
  std::string n(name);
  switch (kind) {
    case 0: return FM(h, output_Index8_at(n)).length();
    case 1: return FM(h, output_IndexU8_at(n)).length();
    case 2: return FM(h, output_Index32_at(n)).length();
    case 3: return FM(h, output_IndexU32_at(n)).length();
    case 4: return FM(h, output_Index64_at(n)).length();
  }
  throw std::invalid_argument("bridge: index kind");
  AKB_CATCH(-1)
}

// ---- program text
AKB_EXPORT const char* akb_forth_source(void* h) { AKB_TRY akb_str = FM(h, source()); return akb_str.c_str(); AKB_CATCH(nullptr) }
AKB_EXPORT const char* akb_forth_decompiled(void* h) {
  AKB_TRY akb_str = FM(h, decompiled()); return akb_str.c_str(); AKB_CATCH(nullptr)
}
AKB_EXPORT const char* akb_forth_dictionary(void* h) {
  AKB_TRY akb_str = join(FM(h, dictionary())); return akb_str.c_str(); AKB_CATCH(nullptr)
}
AKB_EXPORT const char* akb_forth_input_names(void* h) {
  // no public accessor lists the declared inputs: recover them from the decompiled header
  AKB_TRY
  std::string d = FM(h, decompiled());
  std::vector<std::string> names;
  std::stringstream ss(d);
  std::string line;
  while (std::getline(ss, line)) {
    if (line.compare(0, 6, "input ") == 0) names.push_back(line.substr(6));
    else if (line.compare(0, 9, "variable ") == 0) continue;
    else break;
  }
  akb_str = join(names);
  return akb_str.c_str();
  AKB_CATCH(nullptr)
}
// structural dump of bytecodes() (a ListOffsetArray64 of int32)
AKB_EXPORT const char* akb_forth_bytecodes(void* h) {
  AKB_TRY akb_str = akb_describe_content(FM(h, bytecodes())); return akb_str.c_str(); AKB_CATCH(nullptr)
}
AKB_EXPORT const char* akb_forth_string_at(void* h, int64_t index) {
  AKB_TRY akb_str = FM(h, string_at(index)); return akb_str.c_str(); AKB_CATCH(nullptr)
}
AKB_EXPORT int akb_forth_is_word(void* h, const char* word, int what) {
  AKB_TRY
  std::string w(word);
  switch (what) {
    case 0: return FM(h, is_variable(w)) ? 1 : 0;
    case 1: return FM(h, is_input(w)) ? 1 : 0;
    case 2: return FM(h, is_output(w)) ? 1 : 0;
    case 3: return FM(h, is_defined(w)) ? 1 : 0;
    case 4: return FM(h, is_reserved(w)) ? 1 : 0;
  }
  throw std::invalid_argument("bridge: is_word kind");
  AKB_CATCH(-1)
}

// ---- configuration and profiling counters
AKB_EXPORT int64_t akb_forth_config(void* h, int which, double* resize) {
  AKB_TRY
  *resize = FM(h, output_resize_factor());
  switch (which) {
    case 0: return FM(h, stack_max_depth());
    case 1: return FM(h, recursion_max_depth());
    case 2: return FM(h, output_initial_size());
  }
  throw std::invalid_argument("bridge: config field");
  AKB_CATCH(-1)
}
AKB_EXPORT int64_t akb_forth_count(void* h, int which) {
  AKB_TRY
  switch (which) {
    case 0: return FM(h, count_instructions());
    case 1: return FM(h, count_reads());
    case 2: return FM(h, count_writes());
    case 3: return FM(h, count_nanoseconds());
  }
  throw std::invalid_argument("bridge: counter");
  AKB_CATCH(-1)
}
AKB_EXPORT int akb_forth_count_reset(void* h) { AKB_TRY FM(h, count_reset()); return 0; AKB_CATCH(-1) }
