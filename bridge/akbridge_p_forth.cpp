// Harness code: lane P AwkwardForth section -- ForthMachine32/64 as src/python/forth.cpp exposes them.
// Handle: AkpForthH* (the 32-bit machine is also reachable as a std::shared_ptr<ForthMachine32>* for
// LayoutBuilder.connect, see akp_forth_sharedptr32).
#include "akb_p.h"
#include "awkward/forth/ForthMachine.h"
#include "awkward/forth/ForthInputBuffer.h"
#include "awkward/forth/ForthOutputBuffer.h"

struct AkpForthH {
  int is64;
  std::shared_ptr<ak::ForthMachine32> m32;
  std::shared_ptr<ak::ForthMachine64> m64;
  std::map<std::string, std::shared_ptr<ak::ForthInputBuffer>> pending_inputs;
};
#define FH(h) (reinterpret_cast<AkpForthH*>(h))
#define FM(h, EXPR)                                   \
  if (FH(h)->is64) { auto& m = *FH(h)->m64; EXPR; }   \
  else { auto& m = *FH(h)->m32; EXPR; }

AKB_EXPORT void* akp_forth_new(int is64, const char* source, int64_t n, int64_t stack_size, int64_t recursion_depth,
                               int64_t output_initial_size, double output_resize_factor) {
  AKP_TRY
  std::string src(source, (size_t)n);
  AkpForthH* h = new AkpForthH();
  h->is64 = is64;
  try {
    if (is64) h->m64 = std::make_shared<ak::ForthMachine64>(src, stack_size, recursion_depth, output_initial_size,
                                                            output_resize_factor);
    else h->m32 = std::make_shared<ak::ForthMachine32>(src, stack_size, recursion_depth, output_initial_size,
                                                       output_resize_factor);
  }
  catch (...) {
    delete h;
    throw;
  }
  return h;
  AKP_CATCH(nullptr)
}
AKB_EXPORT void akp_forth_free(void* h) { delete FH(h); }
AKB_EXPORT void* akp_forth_sharedptr32(void* h) { return FH(h)->is64 ? nullptr : (void*)&FH(h)->m32; }
AKB_EXPORT void* akp_forth_raw(void* h) { return FH(h)->is64 ? (void*)FH(h)->m64.get() : (void*)FH(h)->m32.get(); }

AKB_EXPORT const char* akp_forth_source(void* h) { AKP_TRY FM(h, akb_str = m.source()) return akb_str.c_str(); AKP_CATCH(nullptr) }
AKB_EXPORT void* akp_forth_bytecodes(void* h) {
  AKP_TRY FM(h, return share_content(m.bytecodes())) return nullptr; AKP_CATCH(nullptr)
}
AKB_EXPORT const char* akp_forth_decompiled(void* h) {
  AKP_TRY FM(h, akb_str = m.decompiled()) return akb_str.c_str(); AKP_CATCH(nullptr)
}
AKB_EXPORT int akp_forth_dictionary(void* h) { AKP_TRY FM(h, akp_strs = m.dictionary()) return 0; AKP_CATCH(-1) }
// which: 0 stack_max_depth 1 recursion_max_depth 2 output_initial_size 3 current_bytecode_position
// 4 current_recursion_depth 5 count_instructions 6 count_reads 7 count_writes 8 count_nanoseconds
// 9 is_ready 10 is_done 11 is_segment_done 12 stack_can_push 13 stack_can_pop
AKB_EXPORT int64_t akp_forth_number(void* h, int which, int* ok) {
  *ok = 0;
  AKP_TRY
  int64_t out = 0;
  FM(h, {
    switch (which) {
      case 0: out = m.stack_max_depth(); break;
      case 1: out = m.recursion_max_depth(); break;
      case 2: out = m.output_initial_size(); break;
      case 3: out = m.current_bytecode_position(); break;
      case 4: out = m.current_recursion_depth(); break;
      case 5: out = m.count_instructions(); break;
      case 6: out = m.count_reads(); break;
      case 7: out = m.count_writes(); break;
      case 8: out = m.count_nanoseconds(); break;
      case 9: out = m.is_ready() ? 1 : 0; break;
      case 10: out = m.is_done() ? 1 : 0; break;
      case 11: out = m.is_segment_done() ? 1 : 0; break;
      case 12: out = m.stack_can_push() ? 1 : 0; break;
      case 13: out = m.stack_can_pop() ? 1 : 0; break;
      default: throw std::invalid_argument("bridge: bad forth number selector");
    }
  })
  *ok = 1;
  return out;
  AKP_CATCH(0)
}
AKB_EXPORT double akp_forth_output_resize_factor(void* h) {
  AKP_TRY FM(h, return m.output_resize_factor()) return 0.0; AKP_CATCH(0.0)
}
AKB_EXPORT int akp_forth_stack(void* h) {
  AKP_TRY
  akp_ints.clear();
  FM(h, for (auto x : m.stack()) akp_ints.push_back((int64_t)x))
  return 0;
  AKP_CATCH(-1)
}
AKB_EXPORT int akp_forth_stack_push(void* h, int64_t value) {
  AKP_TRY
  if (FH(h)->is64) FH(h)->m64->stack_push(value);
  else FH(h)->m32->stack_push((int32_t)value);
  return 0;
  AKP_CATCH(-1)
}
AKB_EXPORT int64_t akp_forth_stack_pop(void* h, int* ok) {
  *ok = 0;
  AKP_TRY
  int64_t out = 0;
  FM(h, out = (int64_t)m.stack_pop())
  *ok = 1;
  return out;
  AKP_CATCH(0)
}
AKB_EXPORT int akp_forth_stack_clear(void* h) { AKP_TRY FM(h, m.stack_clear()) return 0; AKP_CATCH(-1) }
AKB_EXPORT const char* akp_forth_string_at(void* h, int64_t at) {
  AKP_TRY FM(h, akb_str = m.string_at(at)) return akb_str.c_str(); AKP_CATCH(nullptr)
}
// variables -> akp_strs (names, map order), akp_ints (values)
AKB_EXPORT int akp_forth_variables(void* h) {
  AKP_TRY
  akp_strs.clear(); akp_ints.clear();
  FM(h, for (auto& kv : m.variables()) { akp_strs.push_back(kv.first); akp_ints.push_back((int64_t)kv.second); })
  return 0;
  AKP_CATCH(-1)
}
AKB_EXPORT int64_t akp_forth_variable_at(void* h, const char* name, int* ok) {
  *ok = 0;
  AKP_TRY
  int64_t out = 0;
  FM(h, out = (int64_t)m.variable_at(std::string(name)))
  *ok = 1;
  return out;
  AKP_CATCH(0)
}
AKB_EXPORT int64_t akp_forth_input_position(void* h, const char* name, int* ok) {
  *ok = 0;
  AKP_TRY
  int64_t out = 0;
  FM(h, out = m.input_position_at(std::string(name)))
  *ok = 1;
  return out;
  AKP_CATCH(0)
}
AKB_EXPORT int akp_forth_output_index(void* h) { AKP_TRY FM(h, akp_strs = m.output_index()) return 0; AKP_CATCH(-1) }
AKB_EXPORT void* akp_forth_output_NumpyArray(void* h, const char* name) {
  AKP_TRY FM(h, return share_content(m.output_NumpyArray_at(std::string(name)))) return nullptr; AKP_CATCH(nullptr)
}
// kind: 0 Index8 1 IndexU8 2 Index32 3 IndexU32 4 Index64
AKB_EXPORT void* akp_forth_output_Index(void* h, const char* name, int kind) {
  AKP_TRY
  std::string n(name);
  FM(h, {
    switch (kind) {
      case 0: return box_index<int8_t>(m.output_Index8_at(n));
      case 1: return box_index<uint8_t>(m.output_IndexU8_at(n));
      case 2: return box_index<int32_t>(m.output_Index32_at(n));
      case 3: return box_index<uint32_t>(m.output_IndexU32_at(n));
      case 4: return box_index<int64_t>(m.output_Index64_at(n));
    }
  })
  throw std::invalid_argument("bridge: bad index kind");
  AKP_CATCH(nullptr)
}
AKB_EXPORT int akp_forth_reset(void* h) { AKP_TRY FM(h, m.reset()) return 0; AKP_CATCH(-1) }
AKB_EXPORT int akp_forth_input_must_be_writable(void* h, const char* name) {
  AKP_TRY FM(h, return m.input_must_be_writable(std::string(name)) ? 1 : 0) return -1; AKP_CATCH(-1)
}
// inputs are staged one by one (the memory is owned by a Python object), then begin() consumes them
AKB_EXPORT int akp_forth_inputs_clear(void* h) { FH(h)->pending_inputs.clear(); return 0; }
AKB_EXPORT int akp_forth_input_add(void* h, const char* name, void* data, int64_t length, void* pyobj) {
  AKP_TRY
  std::shared_ptr<void> ptr = std::shared_ptr<uint8_t>(reinterpret_cast<uint8_t*>(data), akp_py_keep(pyobj));
  FH(h)->pending_inputs[std::string(name)] = std::make_shared<ak::ForthInputBuffer>(ptr, 0, length);
  return 0;
  AKP_CATCH(-1)
}
AKB_EXPORT int akp_forth_begin(void* h) {
  AKP_TRY
  std::map<std::string, std::shared_ptr<ak::ForthInputBuffer>> ins;
  ins.swap(FH(h)->pending_inputs);
  FM(h, m.begin(ins))
  return 0;
  AKP_CATCH(-1)
}
// the ForthError as int, or -1 on exception
AKB_EXPORT int akp_forth_step(void* h) { AKP_TRY FM(h, return (int)m.step()) return -1; AKP_CATCH(-1) }
AKB_EXPORT int akp_forth_resume(void* h) { AKP_TRY FM(h, return (int)m.resume()) return -1; AKP_CATCH(-1) }
AKB_EXPORT int akp_forth_call(void* h, const char* name) {
  AKP_TRY FM(h, return (int)m.call(std::string(name))) return -1; AKP_CATCH(-1)
}
// maybe_throw(err, ignore): ignore_mask bit i set = ForthError i is ignored
AKB_EXPORT int akp_forth_maybe_throw(void* h, int err, int64_t ignore_mask) {
  AKP_TRY
  std::set<ak::util::ForthError> ignore;
  for (int i = 0; i < (int)ak::util::ForthError::size; i++) {
    if ((ignore_mask >> i) & 1) ignore.insert((ak::util::ForthError)i);
  }
  FM(h, m.maybe_throw((ak::util::ForthError)err, ignore))
  return 0;
  AKP_CATCH(-1)
}
AKB_EXPORT const char* akp_forth_current_instruction(void* h) {
  AKP_TRY FM(h, akb_str = m.current_instruction()) return akb_str.c_str(); AKP_CATCH(nullptr)
}
AKB_EXPORT int akp_forth_count_reset(void* h) { AKP_TRY FM(h, m.count_reset()) return 0; AKP_CATCH(-1) }
// which: 0 is_variable 1 is_input 2 is_output 3 is_defined
AKB_EXPORT int akp_forth_is(void* h, int which, const char* word) {
  AKP_TRY
  std::string w(word);
  FM(h, {
    switch (which) {
      case 0: return m.is_variable(w) ? 1 : 0;
      case 1: return m.is_input(w) ? 1 : 0;
      case 2: return m.is_output(w) ? 1 : 0;
      case 3: return m.is_defined(w) ? 1 : 0;
    }
  })
  throw std::invalid_argument("bridge: bad selector");
  AKP_CATCH(-1)
}
