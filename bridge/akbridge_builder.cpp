// Harness code: ArrayBuilder section of the C ABI bridge.
#include "akb.h"
#include "awkward/builder/ArrayBuilder.h"
#include "awkward/builder/ArrayBuilderOptions.h"

#define B(h) (*reinterpret_cast<std::shared_ptr<ak::ArrayBuilder>*>(h))

AKB_EXPORT void* akb_builder_new(int64_t initial, double resize) {
  AKB_TRY
  return new std::shared_ptr<ak::ArrayBuilder>(
      std::make_shared<ak::ArrayBuilder>(ak::ArrayBuilderOptions(initial, resize)));
  AKB_CATCH(nullptr)
}
AKB_EXPORT void akb_builder_free(void* h) { delete reinterpret_cast<std::shared_ptr<ak::ArrayBuilder>*>(h); }
// the raw ArrayBuilder*, as the extern "C" awkward_ArrayBuilder_* functions (the Numba entry points) expect it
AKB_EXPORT void* akb_builder_raw(void* h) { return B(h).get(); }

AKB_EXPORT int64_t akb_builder_length(void* h) { AKB_TRY return B(h)->length(); AKB_CATCH(-1) }
AKB_EXPORT int akb_builder_clear(void* h) { AKB_TRY B(h)->clear(); return 0; AKB_CATCH(-1) }
AKB_EXPORT int akb_builder_null(void* h) { AKB_TRY B(h)->null(); return 0; AKB_CATCH(-1) }
AKB_EXPORT int akb_builder_boolean(void* h, int x) { AKB_TRY B(h)->boolean(x != 0); return 0; AKB_CATCH(-1) }
AKB_EXPORT int akb_builder_integer(void* h, int64_t x) { AKB_TRY B(h)->integer(x); return 0; AKB_CATCH(-1) }
AKB_EXPORT int akb_builder_real(void* h, double x) { AKB_TRY B(h)->real(x); return 0; AKB_CATCH(-1) }
AKB_EXPORT int akb_builder_complex(void* h, double re, double im) {
  AKB_TRY B(h)->complex(std::complex<double>(re, im)); return 0; AKB_CATCH(-1)
}
AKB_EXPORT int akb_builder_datetime(void* h, int64_t x, const char* unit) {
  AKB_TRY B(h)->datetime(x, std::string(unit)); return 0; AKB_CATCH(-1)
}
AKB_EXPORT int akb_builder_timedelta(void* h, int64_t x, const char* unit) {
  AKB_TRY B(h)->timedelta(x, std::string(unit)); return 0; AKB_CATCH(-1)
}
AKB_EXPORT int akb_builder_string(void* h, const char* x, int64_t length) {
  AKB_TRY B(h)->string(x, length); return 0; AKB_CATCH(-1)
}
AKB_EXPORT int akb_builder_bytestring(void* h, const char* x, int64_t length) {
  AKB_TRY B(h)->bytestring(x, length); return 0; AKB_CATCH(-1)
}
AKB_EXPORT int akb_builder_beginlist(void* h) { AKB_TRY B(h)->beginlist(); return 0; AKB_CATCH(-1) }
AKB_EXPORT int akb_builder_endlist(void* h) { AKB_TRY B(h)->endlist(); return 0; AKB_CATCH(-1) }
AKB_EXPORT int akb_builder_begintuple(void* h, int64_t n) { AKB_TRY B(h)->begintuple(n); return 0; AKB_CATCH(-1) }
AKB_EXPORT int akb_builder_index(void* h, int64_t i) { AKB_TRY B(h)->index(i); return 0; AKB_CATCH(-1) }
AKB_EXPORT int akb_builder_endtuple(void* h) { AKB_TRY B(h)->endtuple(); return 0; AKB_CATCH(-1) }
AKB_EXPORT int akb_builder_beginrecord(void* h, const char* name) {
  AKB_TRY
  if (name == nullptr) B(h)->beginrecord();
  else B(h)->beginrecord_check(std::string(name));
  return 0;
  AKB_CATCH(-1)
}
AKB_EXPORT int akb_builder_field(void* h, const char* key) {
  AKB_TRY B(h)->field_check(std::string(key)); return 0; AKB_CATCH(-1)
}
AKB_EXPORT int akb_builder_endrecord(void* h) { AKB_TRY B(h)->endrecord(); return 0; AKB_CATCH(-1) }
AKB_EXPORT int akb_builder_append(void* h, void* content, int64_t at) {
  AKB_TRY B(h)->append(C(content), at); return 0; AKB_CATCH(-1)
}
AKB_EXPORT int akb_builder_extend(void* h, void* content) {
  AKB_TRY B(h)->extend(C(content)); return 0; AKB_CATCH(-1)
}
AKB_EXPORT void* akb_builder_snapshot(void* h) {
  AKB_TRY return box_content(B(h)->snapshot()); AKB_CATCH(nullptr)
}
AKB_EXPORT const char* akb_builder_typestr(void* h) {
  AKB_TRY akb_str = B(h)->type(ak::util::TypeStrs())->tostring(); return akb_str.c_str(); AKB_CATCH(nullptr)
}
