// Harness code: lane P misc section -- ArrayBuilder extras, LayoutBuilder, IrregularlyPartitionedArray,
// fromjson/fromjsonfile/uproot_issue_90 as src/python/{content,partition,io}.cpp expose them.
#include "akb_p.h"
#include "awkward/io/json.h"
#include "awkward/io/uproot.h"
#include "awkward/layoutbuilder/LayoutBuilder.h"
#include "awkward/partition/PartitionedArray.h"
#include "awkward/partition/IrregularlyPartitionedArray.h"
#include "awkward/forth/ForthMachine.h"

#define SL(s) (*reinterpret_cast<ak::Slice*>(s))

// ---------------------------------------------------------------- ArrayBuilder (handle: std::shared_ptr<ArrayBuilder>*)

#define B(h) (*reinterpret_cast<std::shared_ptr<ak::ArrayBuilder>*>(h))
AKB_EXPORT const char* akp_builder_tostring(void* h) { AKP_TRY akb_str = B(h)->tostring(); return akb_str.c_str(); AKP_CATCH(nullptr) }
AKB_EXPORT void* akp_builder_type(void* h, const char** tk, const char** tv, int nt) {
  AKP_TRY return share_type(B(h)->type(akp_typestrs(tk, tv, nt))); AKP_CATCH(nullptr)
}
AKB_EXPORT void* akp_builder_getitem_at(void* h, int64_t at) { AKP_TRY return share_content(B(h)->getitem_at(at)); AKP_CATCH(nullptr) }
AKB_EXPORT void* akp_builder_getitem_range(void* h, int64_t start, int64_t stop) {
  AKP_TRY return share_content(B(h)->getitem_range(start, stop)); AKP_CATCH(nullptr)
}
AKB_EXPORT void* akp_builder_getitem_field(void* h, const char* key) {
  AKP_TRY return share_content(B(h)->getitem_field(std::string(key))); AKP_CATCH(nullptr)
}
AKB_EXPORT void* akp_builder_getitem_fields(void* h, const char** keys, int n) {
  AKP_TRY return share_content(B(h)->getitem_fields(akp_strvec(keys, n))); AKP_CATCH(nullptr)
}
AKB_EXPORT void* akp_builder_getitem(void* h, void* s) { AKP_TRY return share_content(B(h)->getitem(SL(s))); AKP_CATCH(nullptr) }

// ---------------------------------------------------------------- LayoutBuilder (handle: std::shared_ptr<LayoutBuilder>*)

#define LB(h) (*reinterpret_cast<std::shared_ptr<ak::LayoutBuilder>*>(h))
AKB_EXPORT void* akp_lb_new(void* form, int64_t initial, double resize, int vm_init) {
  AKP_TRY
  return new std::shared_ptr<ak::LayoutBuilder>(
      std::make_shared<ak::LayoutBuilder>(FORM(form), ak::ArrayBuilderOptions(initial, resize), vm_init != 0));
  AKP_CATCH(nullptr)
}
AKB_EXPORT void akp_lb_free(void* h) { delete reinterpret_cast<std::shared_ptr<ak::LayoutBuilder>*>(h); }
AKB_EXPORT void* akp_lb_raw(void* h) { return LB(h).get(); }
AKB_EXPORT const char* akp_lb_tostring(void* h) { AKP_TRY akb_str = LB(h)->tostring(); return akb_str.c_str(); AKP_CATCH(nullptr) }
AKB_EXPORT int64_t akp_lb_length(void* h, int* ok) {
  *ok = 0;
  AKP_TRY int64_t out = LB(h)->length(); *ok = 1; return out; AKP_CATCH(0)
}
AKB_EXPORT void* akp_lb_type(void* h, const char** tk, const char** tv, int nt) {
  AKP_TRY return share_type(LB(h)->type(akp_typestrs(tk, tv, nt))); AKP_CATCH(nullptr)
}
AKB_EXPORT void* akp_lb_snapshot(void* h) { AKP_TRY return share_content(LB(h)->snapshot()); AKP_CATCH(nullptr) }
AKB_EXPORT void* akp_lb_getitem_at(void* h, int64_t at) { AKP_TRY return share_content(LB(h)->getitem_at(at)); AKP_CATCH(nullptr) }
AKB_EXPORT void* akp_lb_getitem_range(void* h, int64_t start, int64_t stop) {
  AKP_TRY return share_content(LB(h)->getitem_range(start, stop)); AKP_CATCH(nullptr)
}
AKB_EXPORT void* akp_lb_getitem_field(void* h, const char* key) {
  AKP_TRY return share_content(LB(h)->getitem_field(std::string(key))); AKP_CATCH(nullptr)
}
AKB_EXPORT void* akp_lb_getitem_fields(void* h, const char** keys, int n) {
  AKP_TRY return share_content(LB(h)->getitem_fields(akp_strvec(keys, n))); AKP_CATCH(nullptr)
}
AKB_EXPORT void* akp_lb_getitem(void* h, void* s) { AKP_TRY return share_content(LB(h)->getitem(SL(s))); AKP_CATCH(nullptr) }
AKB_EXPORT int akp_lb_null(void* h) { AKP_TRY LB(h)->null(); return 0; AKP_CATCH(-1) }
AKB_EXPORT int akp_lb_boolean(void* h, int x) { AKP_TRY LB(h)->boolean(x != 0); return 0; AKP_CATCH(-1) }
AKB_EXPORT int akp_lb_int64(void* h, int64_t x) { AKP_TRY LB(h)->int64(x); return 0; AKP_CATCH(-1) }
AKB_EXPORT int akp_lb_float64(void* h, double x) { AKP_TRY LB(h)->float64(x); return 0; AKP_CATCH(-1) }
AKB_EXPORT int akp_lb_complex(void* h, double re, double im) {
  AKP_TRY LB(h)->complex(std::complex<double>(re, im)); return 0; AKP_CATCH(-1)
}
AKB_EXPORT int akp_lb_bytestring(void* h, const char* x, int64_t n) {
  AKP_TRY LB(h)->bytestring(std::string(x, (size_t)n)); return 0; AKP_CATCH(-1)
}
AKB_EXPORT int akp_lb_string(void* h, const char* x, int64_t n) {
  AKP_TRY LB(h)->string(std::string(x, (size_t)n)); return 0; AKP_CATCH(-1)
}
AKB_EXPORT int akp_lb_begin_list(void* h) { AKP_TRY LB(h)->begin_list(); return 0; AKP_CATCH(-1) }
AKB_EXPORT int akp_lb_end_list(void* h) { AKP_TRY LB(h)->end_list(); return 0; AKP_CATCH(-1) }
AKB_EXPORT int akp_lb_tag(void* h, int64_t tag) { AKP_TRY LB(h)->tag(tag); return 0; AKP_CATCH(-1) }
AKB_EXPORT int akp_lb_debug_step(void* h) { AKP_TRY LB(h)->debug_step(); return 0; AKP_CATCH(-1) }
AKB_EXPORT const char* akp_lb_vm_source(void* h) { AKP_TRY akb_str = LB(h)->vm_source(); return akb_str.c_str(); AKP_CATCH(nullptr) }
AKB_EXPORT void* akp_lb_form(void* h) { AKP_TRY return share_form(LB(h)->form()); AKP_CATCH(nullptr) }
// vm: a std::shared_ptr<ak::ForthMachine32>*
AKB_EXPORT int akp_lb_connect(void* h, void* vm) {
  AKP_TRY LB(h)->connect(*reinterpret_cast<std::shared_ptr<ak::ForthMachine32>*>(vm)); return 0; AKP_CATCH(-1)
}

// ---------------------------------------------------------------- IrregularlyPartitionedArray

#define PA(h) (*reinterpret_cast<ak::PartitionedArrayPtr*>(h))
static void* share_part(const ak::PartitionedArrayPtr& p) {
  if (p.get() == nullptr) return nullptr;
  return new ak::PartitionedArrayPtr(p);
}
AKB_EXPORT void akp_part_free(void* h) { delete reinterpret_cast<ak::PartitionedArrayPtr*>(h); }
// partitions are std::shared_ptr arguments in the binding: shared, not copied
AKB_EXPORT void* akp_part_new(void** partitions, int n, const int64_t* stops, int nstops, int has_stops) {
  AKP_TRY
  ak::ContentPtrVec ps;
  for (int i = 0; i < n; i++) ps.push_back(C(partitions[i]));
  std::vector<int64_t> st;
  if (has_stops) st.assign(stops, stops + nstops);
  else {
    int64_t total_length = 0;
    for (auto p : ps) { total_length += p.get()->length(); st.push_back(total_length); }
  }
  return share_part(std::make_shared<ak::IrregularlyPartitionedArray>(ps, st));
  AKP_CATCH(nullptr)
}
// 1 IrregularlyPartitionedArray, -1 other
AKB_EXPORT int akp_part_classid(void* h) {
  return dynamic_cast<ak::IrregularlyPartitionedArray*>(PA(h).get()) != nullptr ? 1 : -1;
}
AKB_EXPORT const char* akp_part_tostring(void* h) { AKP_TRY akb_str = PA(h)->tostring(); return akb_str.c_str(); AKP_CATCH(nullptr) }
AKB_EXPORT int64_t akp_part_length(void* h, int* ok) {
  *ok = 0;
  AKP_TRY int64_t out = PA(h)->length(); *ok = 1; return out; AKP_CATCH(0)
}
AKB_EXPORT int akp_part_partitions(void* h) {
  AKP_TRY
  akp_ptrs.clear();
  for (auto& c : PA(h)->partitions()) akp_ptrs.push_back(share_content(c));
  return 0;
  AKP_CATCH(-1)
}
AKB_EXPORT int64_t akp_part_numpartitions(void* h, int* ok) {
  *ok = 0;
  AKP_TRY int64_t out = PA(h)->numpartitions(); *ok = 1; return out; AKP_CATCH(0)
}
AKB_EXPORT void* akp_part_partition(void* h, int64_t i) { AKP_TRY return share_content(PA(h)->partition(i)); AKP_CATCH(nullptr) }
AKB_EXPORT int64_t akp_part_start(void* h, int64_t i, int* ok) {
  *ok = 0;
  AKP_TRY int64_t out = PA(h)->start(i); *ok = 1; return out; AKP_CATCH(0)
}
AKB_EXPORT int64_t akp_part_stop(void* h, int64_t i, int* ok) {
  *ok = 0;
  AKP_TRY int64_t out = PA(h)->stop(i); *ok = 1; return out; AKP_CATCH(0)
}
AKB_EXPORT int akp_part_partitionid_index_at(void* h, int64_t at, int64_t* partitionid, int64_t* index) {
  AKP_TRY PA(h)->partitionid_index_at(at, *partitionid, *index); return 0; AKP_CATCH(-1)
}
AKB_EXPORT void* akp_part_repartition(void* h, const int64_t* stops, int n) {
  AKP_TRY
  std::vector<int64_t> st(stops, stops + n);
  return share_part(PA(h)->repartition(st));
  AKP_CATCH(nullptr)
}
AKB_EXPORT const char* akp_part_tojson(void* h, int pretty, int64_t maxdecimals) {
  AKP_TRY akb_str = PA(h)->tojson(pretty != 0, maxdecimals); return akb_str.c_str(); AKP_CATCH(nullptr)
}
AKB_EXPORT int akp_part_tojson_file(void* h, const char* destination, int pretty, int64_t maxdecimals, int64_t buffersize) {
  AKP_TRY
  FILE* file = fopen(destination, "wb");
  if (file == nullptr) {
    throw std::invalid_argument(std::string("file \"") + destination + std::string("\" could not be opened for writing")
                                + std::string("\n\n(https://github.com/scikit-hep/awkward-1.0/blob/" VERSION_INFO
                                              "/src/python/partition.cpp#L43)"));
  }
  try {
    PA(h)->tojson(file, pretty != 0, maxdecimals, buffersize);
  }
  catch (...) {
    fclose(file);
    throw;
  }
  fclose(file);
  return 0;
  AKP_CATCH(-1)
}
AKB_EXPORT void* akp_part_getitem_at(void* h, int64_t at) { AKP_TRY return share_content(PA(h)->getitem_at(at)); AKP_CATCH(nullptr) }
AKB_EXPORT void* akp_part_getitem_range(void* h, int64_t start, int64_t stop, int64_t step) {
  AKP_TRY return share_part(PA(h)->getitem_range(start, stop, step)); AKP_CATCH(nullptr)
}
AKB_EXPORT void* akp_part_copy_to(void* h, int lib) { AKP_TRY return share_part(PA(h)->copy_to((ak::kernel::lib)lib)); AKP_CATCH(nullptr) }
AKB_EXPORT int akp_part_stops(void* h) {
  AKP_TRY
  ak::IrregularlyPartitionedArray* a = dynamic_cast<ak::IrregularlyPartitionedArray*>(PA(h).get());
  if (a == nullptr) throw std::invalid_argument("bridge: not an IrregularlyPartitionedArray");
  akp_ints = a->stops();
  return 0;
  AKP_CATCH(-1)
}

// ---------------------------------------------------------------- io

AKB_EXPORT void* akp_fromjson(const char* source, int64_t n, const char* nan_s, const char* inf_s, const char* minf_s,
                              int64_t initial, double resize) {
  AKP_TRY
  std::string src(source, (size_t)n);
  return share_content(ak::FromJsonString(src.c_str(), ak::ArrayBuilderOptions(initial, resize), nan_s, inf_s, minf_s));
  AKP_CATCH(nullptr)
}
AKB_EXPORT void* akp_fromjsonfile(const char* source, const char* nan_s, const char* inf_s, const char* minf_s,
                                  int64_t initial, double resize, int64_t buffersize) {
  AKP_TRY
  FILE* file = fopen(source, "rb");
  if (file == nullptr) {
    throw std::invalid_argument(std::string("file \"") + source + std::string("\" could not be opened for reading")
                                + std::string("\n\n(https://github.com/scikit-hep/awkward-1.0/blob/" VERSION_INFO
                                              "/src/python/io.cpp#L60)"));
  }
  ak::ContentPtr out(nullptr);
  try {
    out = ak::FromJsonFile(file, ak::ArrayBuilderOptions(initial, resize), buffersize, nan_s, inf_s, minf_s);
  }
  catch (...) {
    fclose(file);
    throw;
  }
  fclose(file);
  return share_content(out);
  AKP_CATCH(nullptr)
}
AKB_EXPORT void* akp_uproot_issue_90(void* form, void* data, void* byte_offsets) {
  AKP_TRY
  ak::NumpyArray* d = dynamic_cast<ak::NumpyArray*>(C(data).get());
  if (d == nullptr) throw std::invalid_argument("bridge: data must be a NumpyArray");
  return share_content(ak::uproot_issue_90(*FORM(form).get(), *d, IDX<int32_t>(byte_offsets)));
  AKP_CATCH(nullptr)
}
