// Harness code: lane P Type and Form sections (src/python/types.cpp, src/python/forms.cpp over the C ABI).
// Type handles are ak::TypePtr*, Form handles are ak::FormPtr* (same layout as akbridge_io.cpp).
#include "akb_p.h"

#define TYPE_PARAMS const char** pk, const char** pv, int np, const char* typestr
#define TYPE_PARAMS_ARGS akp_params(pk, pv, np), std::string(typestr)

// 1 ArrayType 2 ListType 3 OptionType 4 PrimitiveType 5 RecordType 6 RegularType 7 UnionType 8 UnknownType
static int type_classid(ak::Type* t) {
  if (dynamic_cast<ak::ArrayType*>(t)) return 1;
  if (dynamic_cast<ak::ListType*>(t)) return 2;
  if (dynamic_cast<ak::OptionType*>(t)) return 3;
  if (dynamic_cast<ak::PrimitiveType*>(t)) return 4;
  if (dynamic_cast<ak::RecordType*>(t)) return 5;
  if (dynamic_cast<ak::RegularType*>(t)) return 6;
  if (dynamic_cast<ak::UnionType*>(t)) return 7;
  if (dynamic_cast<ak::UnknownType*>(t)) return 8;
  return -1;
}
AKB_EXPORT void akp_type_free(void* h) { delete reinterpret_cast<ak::TypePtr*>(h); }
AKB_EXPORT int akp_type_classid(void* h) { return type_classid(TYPE(h).get()); }
AKB_EXPORT void* akp_type_share(void* h) { return new ak::TypePtr(TYPE(h)); }
AKB_EXPORT void* akp_type_raw(void* h) { return (void*)TYPE(h).get(); }
AKB_EXPORT void* akp_type_shallow_copy(void* h) { AKP_TRY return share_type(TYPE(h)->shallow_copy()); AKP_CATCH(nullptr) }

AKB_EXPORT void* akp_arraytype_new(TYPE_PARAMS, void* type, int64_t length) {
  AKP_TRY return share_type(std::make_shared<ak::ArrayType>(TYPE_PARAMS_ARGS, TYPE(type), length)); AKP_CATCH(nullptr)
}
AKB_EXPORT void* akp_listtype_new(TYPE_PARAMS, void* type) {
  AKP_TRY return share_type(std::make_shared<ak::ListType>(TYPE_PARAMS_ARGS, TYPE(type))); AKP_CATCH(nullptr)
}
AKB_EXPORT void* akp_optiontype_new(TYPE_PARAMS, void* type) {
  AKP_TRY return share_type(std::make_shared<ak::OptionType>(TYPE_PARAMS_ARGS, TYPE(type))); AKP_CATCH(nullptr)
}
AKB_EXPORT void* akp_primitivetype_new(TYPE_PARAMS, int dtype) {
  AKP_TRY return share_type(std::make_shared<ak::PrimitiveType>(TYPE_PARAMS_ARGS, (ak::util::dtype)dtype)); AKP_CATCH(nullptr)
}
// keys == NULL: tuple (null recordlookup)
AKB_EXPORT void* akp_recordtype_new(TYPE_PARAMS, void** types, int n, const char** keys) {
  AKP_TRY
  std::vector<ak::TypePtr> ts;
  for (int i = 0; i < n; i++) ts.push_back(TYPE(types[i]));
  return share_type(std::make_shared<ak::RecordType>(TYPE_PARAMS_ARGS, ts, akp_lookup(keys, n)));
  AKP_CATCH(nullptr)
}
AKB_EXPORT void* akp_regulartype_new(TYPE_PARAMS, void* type, int64_t size) {
  AKP_TRY return share_type(std::make_shared<ak::RegularType>(TYPE_PARAMS_ARGS, TYPE(type), size)); AKP_CATCH(nullptr)
}
AKB_EXPORT void* akp_uniontype_new(TYPE_PARAMS, void** types, int n) {
  AKP_TRY
  std::vector<ak::TypePtr> ts;
  for (int i = 0; i < n; i++) ts.push_back(TYPE(types[i]));
  return share_type(std::make_shared<ak::UnionType>(TYPE_PARAMS_ARGS, ts));
  AKP_CATCH(nullptr)
}
AKB_EXPORT void* akp_unknowntype_new(TYPE_PARAMS) {
  AKP_TRY return share_type(std::make_shared<ak::UnknownType>(TYPE_PARAMS_ARGS)); AKP_CATCH(nullptr)
}

// b may be NULL (None is accepted for a std::shared_ptr<Type> argument)
AKB_EXPORT int akp_type_equal(void* a, void* b, int check_parameters) {
  AKP_TRY
  ak::TypePtr other(nullptr);
  if (b != nullptr) other = TYPE(b);
  return TYPE(a)->equal(other, check_parameters != 0) ? 1 : 0;
  AKP_CATCH(-1)
}
AKB_EXPORT const char* akp_type_tostring(void* h) { AKP_TRY akb_str = TYPE(h)->tostring(); return akb_str.c_str(); AKP_CATCH(nullptr) }
AKB_EXPORT int akp_type_parameters(void* h) { AKP_TRY akp_put_params(TYPE(h)->parameters()); return 0; AKP_CATCH(-1) }
AKB_EXPORT int akp_type_setparameters(void* h, const char** pk, const char** pv, int np) {
  AKP_TRY TYPE(h)->setparameters(akp_params(pk, pv, np)); return 0; AKP_CATCH(-1)
}
AKB_EXPORT int akp_type_setparameter(void* h, const char* key, const char* value) {
  AKP_TRY TYPE(h)->setparameter(std::string(key), std::string(value)); return 0; AKP_CATCH(-1)
}
AKB_EXPORT const char* akp_type_typestr(void* h) { AKP_TRY akb_str = TYPE(h)->typestr(); return akb_str.c_str(); AKP_CATCH(nullptr) }
AKB_EXPORT int64_t akp_type_numfields(void* h, int* ok) {
  *ok = 0;
  AKP_TRY int64_t out = TYPE(h)->numfields(); *ok = 1; return out; AKP_CATCH(0)
}
AKB_EXPORT int64_t akp_type_fieldindex(void* h, const char* key, int* ok) {
  *ok = 0;
  AKP_TRY int64_t out = TYPE(h)->fieldindex(std::string(key)); *ok = 1; return out; AKP_CATCH(0)
}
AKB_EXPORT const char* akp_type_key(void* h, int64_t i) { AKP_TRY akb_str = TYPE(h)->key(i); return akb_str.c_str(); AKP_CATCH(nullptr) }
AKB_EXPORT int akp_type_haskey(void* h, const char* key) { AKP_TRY return TYPE(h)->haskey(std::string(key)) ? 1 : 0; AKP_CATCH(-1) }
AKB_EXPORT int akp_type_keys(void* h) { AKP_TRY akp_strs = TYPE(h)->keys(); return 0; AKP_CATCH(-1) }
AKB_EXPORT void* akp_type_empty(void* h) { AKP_TRY return share_content(TYPE(h)->empty()); AKP_CATCH(nullptr) }

// inner type of ArrayType / ListType / OptionType / RegularType (shared)
AKB_EXPORT void* akp_type_inner(void* h) {
  AKP_TRY
  ak::Type* t = TYPE(h).get();
  if (ak::ArrayType* a = dynamic_cast<ak::ArrayType*>(t)) return share_type(a->type());
  if (ak::ListType* a = dynamic_cast<ak::ListType*>(t)) return share_type(a->type());
  if (ak::OptionType* a = dynamic_cast<ak::OptionType*>(t)) return share_type(a->type());
  if (ak::RegularType* a = dynamic_cast<ak::RegularType*>(t)) return share_type(a->type());
  throw std::invalid_argument("bridge: type has no inner type");
  AKP_CATCH(nullptr)
}
// ArrayType.length / RegularType.size / UnionType.numtypes / PrimitiveType.dtype (as int)
AKB_EXPORT int64_t akp_type_number(void* h, int* ok) {
  *ok = 0;
  AKP_TRY
  ak::Type* t = TYPE(h).get();
  if (ak::ArrayType* a = dynamic_cast<ak::ArrayType*>(t)) { *ok = 1; return a->length(); }
  if (ak::RegularType* a = dynamic_cast<ak::RegularType*>(t)) { *ok = 1; return a->size(); }
  if (ak::UnionType* a = dynamic_cast<ak::UnionType*>(t)) { *ok = 1; return a->numtypes(); }
  if (ak::PrimitiveType* a = dynamic_cast<ak::PrimitiveType*>(t)) { *ok = 1; return (int64_t)a->dtype(); }
  throw std::invalid_argument("bridge: type has no such number");
  AKP_CATCH(0)
}
// RecordType.types / UnionType.types -> akp_ptrs
AKB_EXPORT int akp_type_types(void* h) {
  AKP_TRY
  ak::Type* t = TYPE(h).get();
  std::vector<ak::TypePtr> ts;
  if (ak::RecordType* a = dynamic_cast<ak::RecordType*>(t)) ts = a->types();
  else if (ak::UnionType* a = dynamic_cast<ak::UnionType*>(t)) ts = a->types();
  else throw std::invalid_argument("bridge: type has no types");
  akp_ptrs.clear();
  for (auto& x : ts) akp_ptrs.push_back(share_type(x));
  return 0;
  AKP_CATCH(-1)
}
AKB_EXPORT void* akp_uniontype_type(void* h, int64_t i) {
  AKP_TRY
  if (ak::UnionType* a = dynamic_cast<ak::UnionType*>(TYPE(h).get())) return share_type(a->type(i));
  throw std::invalid_argument("bridge: not a UnionType");
  AKP_CATCH(nullptr)
}
static ak::RecordType* RT(void* h) {
  ak::RecordType* a = dynamic_cast<ak::RecordType*>(TYPE(h).get());
  if (a == nullptr) throw std::invalid_argument("bridge: not a RecordType");
  return a;
}
AKB_EXPORT int akp_recordtype_istuple(void* h) { AKP_TRY return RT(h)->istuple() ? 1 : 0; AKP_CATCH(-1) }
AKB_EXPORT int akp_recordtype_recordlookup(void* h) {
  AKP_TRY
  ak::util::RecordLookupPtr lookup = RT(h)->recordlookup();
  akp_strs.clear();
  if (lookup.get() == nullptr) return 0;
  akp_strs = *lookup;
  return 1;
  AKP_CATCH(-1)
}
AKB_EXPORT void* akp_recordtype_field_at(void* h, int64_t i) { AKP_TRY return share_type(RT(h)->field(i)); AKP_CATCH(nullptr) }
AKB_EXPORT void* akp_recordtype_field_key(void* h, const char* key) {
  AKP_TRY return share_type(RT(h)->field(std::string(key))); AKP_CATCH(nullptr)
}
AKB_EXPORT int akp_recordtype_fields(void* h) {
  AKP_TRY
  akp_ptrs.clear();
  for (auto& x : RT(h)->fields()) akp_ptrs.push_back(share_type(x));
  return 0;
  AKP_CATCH(-1)
}
AKB_EXPORT int akp_recordtype_fielditems(void* h) {
  AKP_TRY
  akp_ptrs.clear(); akp_strs.clear();
  for (auto& it : RT(h)->fielditems()) { akp_strs.push_back(it.first); akp_ptrs.push_back(share_type(it.second)); }
  return 0;
  AKP_CATCH(-1)
}

// ---------------------------------------------------------------- forms

// 1 BitMasked 2 ByteMasked 3 Empty 4 Indexed 5 IndexedOption 6 List 7 ListOffset 8 Numpy 9 Record 10 Regular
// 11 Union 12 Unmasked 13 Virtual
static int form_classid(ak::Form* f) {
  if (dynamic_cast<ak::BitMaskedForm*>(f)) return 1;
  if (dynamic_cast<ak::ByteMaskedForm*>(f)) return 2;
  if (dynamic_cast<ak::EmptyForm*>(f)) return 3;
  if (dynamic_cast<ak::IndexedForm*>(f)) return 4;
  if (dynamic_cast<ak::IndexedOptionForm*>(f)) return 5;
  if (dynamic_cast<ak::ListForm*>(f)) return 6;
  if (dynamic_cast<ak::ListOffsetForm*>(f)) return 7;
  if (dynamic_cast<ak::NumpyForm*>(f)) return 8;
  if (dynamic_cast<ak::RecordForm*>(f)) return 9;
  if (dynamic_cast<ak::RegularForm*>(f)) return 10;
  if (dynamic_cast<ak::UnionForm*>(f)) return 11;
  if (dynamic_cast<ak::UnmaskedForm*>(f)) return 12;
  if (dynamic_cast<ak::VirtualForm*>(f)) return 13;
  return -1;
}
#define FORM_ARGS int has_identities, const char** pk, const char** pv, int np, const char* form_key
#define FORM_ARGS_PASS has_identities != 0, akp_params(pk, pv, np), mkformkey(form_key)
static ak::FormKey mkformkey(const char* s) {
  if (s == nullptr) return ak::FormKey(nullptr);
  return std::make_shared<std::string>(s);
}

AKB_EXPORT void akp_form_free(void* h) { delete reinterpret_cast<ak::FormPtr*>(h); }
AKB_EXPORT int akp_form_classid(void* h) { return form_classid(FORM(h).get()); }
AKB_EXPORT void* akp_form_share(void* h) { return new ak::FormPtr(FORM(h)); }
AKB_EXPORT void* akp_form_shallow_copy(void* h) { AKP_TRY return share_form(FORM(h)->shallow_copy()); AKP_CATCH(nullptr) }
AKB_EXPORT void* akp_form_raw(void* h) { return (void*)FORM(h).get(); }

AKB_EXPORT void* akp_form_fromjson(const char* data, int64_t n) {
  AKP_TRY return share_form(ak::Form::fromjson(std::string(data, (size_t)n))); AKP_CATCH(nullptr)
}
AKB_EXPORT void* akp_form_fromnumpy(int kind, int64_t itemsize, const int64_t* inner_shape, int n) {
  AKP_TRY
  std::vector<int64_t> sh(inner_shape, inner_shape + n);
  return share_form(ak::Form::fromnumpy((char)kind, itemsize, sh));
  AKP_CATCH(nullptr)
}
AKB_EXPORT int akp_index_str2form(const char* s) { AKP_TRY return (int)ak::Index::str2form(std::string(s)); AKP_CATCH(-1) }

AKB_EXPORT void* akp_bitmaskedform_new(FORM_ARGS, int mask, void* content, int valid_when, int lsb_order) {
  AKP_TRY
  return share_form(std::make_shared<ak::BitMaskedForm>(FORM_ARGS_PASS, (ak::Index::Form)mask, FORM(content),
                                                        valid_when != 0, lsb_order != 0));
  AKP_CATCH(nullptr)
}
AKB_EXPORT void* akp_bytemaskedform_new(FORM_ARGS, int mask, void* content, int valid_when) {
  AKP_TRY
  return share_form(std::make_shared<ak::ByteMaskedForm>(FORM_ARGS_PASS, (ak::Index::Form)mask, FORM(content),
                                                         valid_when != 0));
  AKP_CATCH(nullptr)
}
AKB_EXPORT void* akp_emptyform_new(FORM_ARGS) {
  AKP_TRY return share_form(std::make_shared<ak::EmptyForm>(FORM_ARGS_PASS)); AKP_CATCH(nullptr)
}
AKB_EXPORT void* akp_indexedform_new(FORM_ARGS, int index, void* content, int isoption) {
  AKP_TRY
  if (isoption) return share_form(std::make_shared<ak::IndexedOptionForm>(FORM_ARGS_PASS, (ak::Index::Form)index, FORM(content)));
  return share_form(std::make_shared<ak::IndexedForm>(FORM_ARGS_PASS, (ak::Index::Form)index, FORM(content)));
  AKP_CATCH(nullptr)
}
AKB_EXPORT void* akp_listform_new(FORM_ARGS, int starts, int stops, void* content) {
  AKP_TRY
  return share_form(std::make_shared<ak::ListForm>(FORM_ARGS_PASS, (ak::Index::Form)starts, (ak::Index::Form)stops,
                                                   FORM(content)));
  AKP_CATCH(nullptr)
}
AKB_EXPORT void* akp_listoffsetform_new(FORM_ARGS, int offsets, void* content) {
  AKP_TRY
  return share_form(std::make_shared<ak::ListOffsetForm>(FORM_ARGS_PASS, (ak::Index::Form)offsets, FORM(content)));
  AKP_CATCH(nullptr)
}
AKB_EXPORT void* akp_numpyform_new(FORM_ARGS, const int64_t* inner_shape, int n, int64_t itemsize, const char* format) {
  AKP_TRY
  std::vector<int64_t> sh(inner_shape, inner_shape + n);
  std::string fmt(format);
  return share_form(std::make_shared<ak::NumpyForm>(FORM_ARGS_PASS, sh, itemsize, fmt,
                                                    ak::util::format_to_dtype(fmt, itemsize)));
  AKP_CATCH(nullptr)
}
AKB_EXPORT void* akp_recordform_new(FORM_ARGS, void** contents, int n, const char** keys) {
  AKP_TRY
  std::vector<ak::FormPtr> cs;
  for (int i = 0; i < n; i++) cs.push_back(FORM(contents[i]));
  // the binding builds the recordlookup from an iterable of any length
  return share_form(std::make_shared<ak::RecordForm>(FORM_ARGS_PASS, akp_lookup(keys, n), cs));
  AKP_CATCH(nullptr)
}
// the same with a recordlookup whose length may differ from the number of contents
AKB_EXPORT void* akp_recordform_new2(FORM_ARGS, void** contents, int n, const char** keys, int nkeys) {
  AKP_TRY
  std::vector<ak::FormPtr> cs;
  for (int i = 0; i < n; i++) cs.push_back(FORM(contents[i]));
  return share_form(std::make_shared<ak::RecordForm>(FORM_ARGS_PASS, akp_lookup(keys, nkeys), cs));
  AKP_CATCH(nullptr)
}
AKB_EXPORT void* akp_regularform_new(FORM_ARGS, void* content, int64_t size) {
  AKP_TRY return share_form(std::make_shared<ak::RegularForm>(FORM_ARGS_PASS, FORM(content), size)); AKP_CATCH(nullptr)
}
AKB_EXPORT void* akp_unionform_new(FORM_ARGS, int tags, int index, void** contents, int n) {
  AKP_TRY
  std::vector<ak::FormPtr> cs;
  for (int i = 0; i < n; i++) cs.push_back(FORM(contents[i]));
  return share_form(std::make_shared<ak::UnionForm>(FORM_ARGS_PASS, (ak::Index::Form)tags, (ak::Index::Form)index, cs));
  AKP_CATCH(nullptr)
}
AKB_EXPORT void* akp_unmaskedform_new(FORM_ARGS, void* content) {
  AKP_TRY return share_form(std::make_shared<ak::UnmaskedForm>(FORM_ARGS_PASS, FORM(content))); AKP_CATCH(nullptr)
}
// form may be NULL
AKB_EXPORT void* akp_virtualform_new(FORM_ARGS, void* form, int has_length) {
  AKP_TRY return share_form(std::make_shared<ak::VirtualForm>(FORM_ARGS_PASS, FORM(form), has_length != 0)); AKP_CATCH(nullptr)
}

AKB_EXPORT int akp_form_equal(void* a, void* b, int ids, int params, int formkey, int compat) {
  AKP_TRY return FORM(a)->equal(FORM(b), ids != 0, params != 0, formkey != 0, compat != 0) ? 1 : 0; AKP_CATCH(-1)
}
AKB_EXPORT const char* akp_form_tostring(void* h) { AKP_TRY akb_str = FORM(h)->tostring(); return akb_str.c_str(); AKP_CATCH(nullptr) }
AKB_EXPORT const char* akp_form_tojson(void* h, int pretty, int verbose) {
  AKP_TRY akb_str = FORM(h)->tojson(pretty != 0, verbose != 0); return akb_str.c_str(); AKP_CATCH(nullptr)
}
AKB_EXPORT int akp_form_has_identities(void* h) { AKP_TRY return FORM(h)->has_identities() ? 1 : 0; AKP_CATCH(-1) }
AKB_EXPORT int akp_form_parameters(void* h) { AKP_TRY akp_put_params(FORM(h)->parameters()); return 0; AKP_CATCH(-1) }
AKB_EXPORT const char* akp_form_parameter(void* h, const char* key) {
  AKP_TRY akb_str = FORM(h)->parameter(std::string(key)); return akb_str.c_str(); AKP_CATCH(nullptr)
}
// returns 0 when there is no form_key, 1 (key in akb_str) otherwise
AKB_EXPORT int akp_form_form_key(void* h) {
  AKP_TRY
  ak::FormKey k = FORM(h)->form_key();
  if (k.get() == nullptr) return 0;
  akb_str = *k;
  return 1;
  AKP_CATCH(-1)
}
AKB_EXPORT void* akp_form_type(void* h, const char** tk, const char** tv, int nt) {
  AKP_TRY return share_type(FORM(h)->type(akp_typestrs(tk, tv, nt))); AKP_CATCH(nullptr)
}
AKB_EXPORT int64_t akp_form_purelist_depth(void* h, int* ok) {
  *ok = 0;
  AKP_TRY int64_t out = FORM(h)->purelist_depth(); *ok = 1; return out; AKP_CATCH(0)
}
AKB_EXPORT void* akp_form_with_form_key(void* h, const char* form_key) {
  AKP_TRY return share_form(FORM(h)->with_form_key(mkformkey(form_key))); AKP_CATCH(nullptr)
}
// the single content / form of a node (shared; NULL when the library holds a null pointer)
AKB_EXPORT void* akp_form_content(void* h, int* ok) {
  *ok = 0;
  AKP_TRY
  ak::Form* f = FORM(h).get();
  ak::FormPtr out(nullptr);
  if (ak::BitMaskedForm* a = dynamic_cast<ak::BitMaskedForm*>(f)) out = a->content();
  else if (ak::ByteMaskedForm* a = dynamic_cast<ak::ByteMaskedForm*>(f)) out = a->content();
  else if (ak::IndexedForm* a = dynamic_cast<ak::IndexedForm*>(f)) out = a->content();
  else if (ak::IndexedOptionForm* a = dynamic_cast<ak::IndexedOptionForm*>(f)) out = a->content();
  else if (ak::ListForm* a = dynamic_cast<ak::ListForm*>(f)) out = a->content();
  else if (ak::ListOffsetForm* a = dynamic_cast<ak::ListOffsetForm*>(f)) out = a->content();
  else if (ak::RegularForm* a = dynamic_cast<ak::RegularForm*>(f)) out = a->content();
  else if (ak::UnmaskedForm* a = dynamic_cast<ak::UnmaskedForm*>(f)) out = a->content();
  else if (ak::VirtualForm* a = dynamic_cast<ak::VirtualForm*>(f)) out = a->form();
  else throw std::invalid_argument("bridge: form has no content");
  *ok = 1;
  return share_form(out);
  AKP_CATCH(nullptr)
}
// which: "mask" "index" "starts" "stops" "offsets" "tags" -> Index::Form as int
AKB_EXPORT int akp_form_indexform(void* h, const char* which) {
  AKP_TRY
  ak::Form* f = FORM(h).get();
  std::string w(which);
  if (w == "mask") {
    if (ak::BitMaskedForm* a = dynamic_cast<ak::BitMaskedForm*>(f)) return (int)a->mask();
    if (ak::ByteMaskedForm* a = dynamic_cast<ak::ByteMaskedForm*>(f)) return (int)a->mask();
  }
  if (w == "index") {
    if (ak::IndexedForm* a = dynamic_cast<ak::IndexedForm*>(f)) return (int)a->index();
    if (ak::IndexedOptionForm* a = dynamic_cast<ak::IndexedOptionForm*>(f)) return (int)a->index();
    if (ak::UnionForm* a = dynamic_cast<ak::UnionForm*>(f)) return (int)a->index();
  }
  if (w == "starts") if (ak::ListForm* a = dynamic_cast<ak::ListForm*>(f)) return (int)a->starts();
  if (w == "stops") if (ak::ListForm* a = dynamic_cast<ak::ListForm*>(f)) return (int)a->stops();
  if (w == "offsets") if (ak::ListOffsetForm* a = dynamic_cast<ak::ListOffsetForm*>(f)) return (int)a->offsets();
  if (w == "tags") if (ak::UnionForm* a = dynamic_cast<ak::UnionForm*>(f)) return (int)a->tags();
  throw std::invalid_argument("bridge: form has no such index");
  AKP_CATCH(-1)
}
// which: "valid_when" "lsb_order" "has_length" "has_form" "istuple"
AKB_EXPORT int akp_form_flag(void* h, const char* which) {
  AKP_TRY
  ak::Form* f = FORM(h).get();
  std::string w(which);
  if (w == "valid_when") {
    if (ak::BitMaskedForm* a = dynamic_cast<ak::BitMaskedForm*>(f)) return a->valid_when() ? 1 : 0;
    if (ak::ByteMaskedForm* a = dynamic_cast<ak::ByteMaskedForm*>(f)) return a->valid_when() ? 1 : 0;
  }
  if (w == "lsb_order") if (ak::BitMaskedForm* a = dynamic_cast<ak::BitMaskedForm*>(f)) return a->lsb_order() ? 1 : 0;
  if (w == "has_length") if (ak::VirtualForm* a = dynamic_cast<ak::VirtualForm*>(f)) return a->has_length() ? 1 : 0;
  if (w == "has_form") if (ak::VirtualForm* a = dynamic_cast<ak::VirtualForm*>(f)) return a->has_form() ? 1 : 0;
  if (w == "istuple") if (ak::RecordForm* a = dynamic_cast<ak::RecordForm*>(f)) return a->istuple() ? 1 : 0;
  throw std::invalid_argument("bridge: form has no such flag");
  AKP_CATCH(-1)
}
// NumpyForm: inner_shape -> akp_ints, format -> akb_str, primitive -> akp_strs[0]
AKB_EXPORT int akp_numpyform_info(void* h, int64_t* itemsize, int* dtype) {
  AKP_TRY
  ak::NumpyForm* a = dynamic_cast<ak::NumpyForm*>(FORM(h).get());
  if (a == nullptr) throw std::invalid_argument("bridge: not a NumpyForm");
  akp_ints = a->inner_shape();
  *itemsize = a->itemsize();
  *dtype = (int)a->dtype();
  akb_str = a->format();
  akp_strs.clear();
  akp_strs.push_back(a->primitive());
  return 0;
  AKP_CATCH(-1)
}
AKB_EXPORT int64_t akp_regularform_size(void* h, int* ok) {
  *ok = 0;
  AKP_TRY
  if (ak::RegularForm* a = dynamic_cast<ak::RegularForm*>(FORM(h).get())) { *ok = 1; return a->size(); }
  throw std::invalid_argument("bridge: not a RegularForm");
  AKP_CATCH(0)
}
// RecordForm / UnionForm contents -> akp_ptrs
AKB_EXPORT int akp_form_contents(void* h) {
  AKP_TRY
  ak::Form* f = FORM(h).get();
  std::vector<ak::FormPtr> cs;
  if (ak::RecordForm* a = dynamic_cast<ak::RecordForm*>(f)) cs = a->contents();
  else if (ak::UnionForm* a = dynamic_cast<ak::UnionForm*>(f)) cs = a->contents();
  else throw std::invalid_argument("bridge: form has no contents");
  akp_ptrs.clear();
  for (auto& x : cs) akp_ptrs.push_back(share_form(x));
  return 0;
  AKP_CATCH(-1)
}
AKB_EXPORT int64_t akp_form_numcontents(void* h, int* ok) {
  *ok = 0;
  AKP_TRY
  if (ak::UnionForm* a = dynamic_cast<ak::UnionForm*>(FORM(h).get())) { *ok = 1; return a->numcontents(); }
  throw std::invalid_argument("bridge: not a UnionForm");
  AKP_CATCH(0)
}
AKB_EXPORT void* akp_form_content_at(void* h, int64_t i) {
  AKP_TRY
  ak::Form* f = FORM(h).get();
  if (ak::RecordForm* a = dynamic_cast<ak::RecordForm*>(f)) return share_form(a->content(i));
  if (ak::UnionForm* a = dynamic_cast<ak::UnionForm*>(f)) return share_form(a->content(i));
  throw std::invalid_argument("bridge: form has no content(i)");
  AKP_CATCH(nullptr)
}
AKB_EXPORT void* akp_form_content_key(void* h, const char* key) {
  AKP_TRY
  if (ak::RecordForm* a = dynamic_cast<ak::RecordForm*>(FORM(h).get())) return share_form(a->content(std::string(key)));
  throw std::invalid_argument("bridge: not a RecordForm");
  AKP_CATCH(nullptr)
}
// RecordForm.items() -> akp_strs, akp_ptrs
AKB_EXPORT int akp_recordform_items(void* h) {
  AKP_TRY
  ak::RecordForm* a = dynamic_cast<ak::RecordForm*>(FORM(h).get());
  if (a == nullptr) throw std::invalid_argument("bridge: not a RecordForm");
  akp_ptrs.clear(); akp_strs.clear();
  for (auto& it : a->items()) { akp_strs.push_back(it.first); akp_ptrs.push_back(share_form(it.second)); }
  return 0;
  AKP_CATCH(-1)
}
// returns 0 for a tuple (no recordlookup), 1 otherwise (keys in akp_strs)
AKB_EXPORT int akp_recordform_recordlookup(void* h) {
  AKP_TRY
  ak::RecordForm* a = dynamic_cast<ak::RecordForm*>(FORM(h).get());
  if (a == nullptr) throw std::invalid_argument("bridge: not a RecordForm");
  akp_strs.clear();
  ak::util::RecordLookupPtr lookup = a->recordlookup();
  if (lookup.get() == nullptr) return 0;
  akp_strs = *lookup;
  return 1;
  AKP_CATCH(-1)
}
// numfields / fieldindex / key / haskey / keys, as the RecordForm binding exposes them (virtual on Form)
AKB_EXPORT int64_t akp_form_numfields(void* h, int* ok) {
  *ok = 0;
  AKP_TRY int64_t out = FORM(h)->numfields(); *ok = 1; return out; AKP_CATCH(0)
}
AKB_EXPORT int64_t akp_form_fieldindex(void* h, const char* key, int* ok) {
  *ok = 0;
  AKP_TRY int64_t out = FORM(h)->fieldindex(std::string(key)); *ok = 1; return out; AKP_CATCH(0)
}
AKB_EXPORT const char* akp_form_key(void* h, int64_t i) { AKP_TRY akb_str = FORM(h)->key(i); return akb_str.c_str(); AKP_CATCH(nullptr) }
AKB_EXPORT int akp_form_haskey(void* h, const char* key) { AKP_TRY return FORM(h)->haskey(std::string(key)) ? 1 : 0; AKP_CATCH(-1) }
AKB_EXPORT int akp_form_keys(void* h) { AKP_TRY akp_strs = FORM(h)->keys(); return 0; AKP_CATCH(-1) }
