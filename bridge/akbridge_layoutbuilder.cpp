// Harness code: LayoutBuilder (Form-driven builder) section of the C ABI bridge.
#include "akb.h"
#include "awkward/builder/ArrayBuilderOptions.h"
#include "awkward/layoutbuilder/LayoutBuilder.h"

#define LB(h) (*reinterpret_cast<std::shared_ptr<ak::LayoutBuilder>*>(h))
#define FORMH(h) (*reinterpret_cast<ak::FormPtr*>(h))

AKB_EXPORT void* akb_lb_new(void* form, int64_t initial, double resize) {
  AKB_TRY
  return new std::shared_ptr<ak::LayoutBuilder>(
      std::make_shared<ak::LayoutBuilder>(FORMH(form), ak::ArrayBuilderOptions(initial, resize)));
  AKB_CATCH(nullptr)
}
AKB_EXPORT void akb_lb_free(void* h) { delete reinterpret_cast<std::shared_ptr<ak::LayoutBuilder>*>(h); }
AKB_EXPORT int64_t akb_lb_length(void* h) { AKB_TRY return LB(h)->length(); AKB_CATCH(-999) }
AKB_EXPORT void* akb_lb_form(void* h) { AKB_TRY return new ak::FormPtr(LB(h)->form()); AKB_CATCH(nullptr) }
AKB_EXPORT const char* akb_lb_vm_source(void* h) { AKB_TRY akb_str = LB(h)->vm_source(); return akb_str.c_str(); AKB_CATCH(nullptr) }
AKB_EXPORT const char* akb_lb_typestr(void* h) {
  AKB_TRY akb_str = LB(h)->type(ak::util::TypeStrs())->tostring(); return akb_str.c_str(); AKB_CATCH(nullptr)
}
AKB_EXPORT void* akb_lb_snapshot(void* h) { AKB_TRY return box_content(LB(h)->snapshot()); AKB_CATCH(nullptr) }
AKB_EXPORT int akb_lb_null(void* h) { AKB_TRY LB(h)->null(); return 0; AKB_CATCH(-1) }
AKB_EXPORT int akb_lb_boolean(void* h, int x) { AKB_TRY LB(h)->boolean(x != 0); return 0; AKB_CATCH(-1) }
AKB_EXPORT int akb_lb_int64(void* h, int64_t x) { AKB_TRY LB(h)->int64(x); return 0; AKB_CATCH(-1) }
AKB_EXPORT int akb_lb_float64(void* h, double x) { AKB_TRY LB(h)->float64(x); return 0; AKB_CATCH(-1) }
AKB_EXPORT int akb_lb_complex(void* h, double re, double im) {
  AKB_TRY LB(h)->complex(std::complex<double>(re, im)); return 0; AKB_CATCH(-1)
}
AKB_EXPORT int akb_lb_string(void* h, const char* x, int64_t length) { AKB_TRY LB(h)->string(std::string(x, (size_t)length)); return 0; AKB_CATCH(-1) }   // the overload the Python binding calls
AKB_EXPORT int akb_lb_bytestring(void* h, const char* x, int64_t length) {
  AKB_TRY LB(h)->bytestring(std::string(x, (size_t)length)); return 0; AKB_CATCH(-1)
}
AKB_EXPORT int akb_lb_begin_list(void* h) { AKB_TRY LB(h)->begin_list(); return 0; AKB_CATCH(-1) }
AKB_EXPORT int akb_lb_end_list(void* h) { AKB_TRY LB(h)->end_list(); return 0; AKB_CATCH(-1) }
AKB_EXPORT int akb_lb_tag(void* h, int tag) { AKB_TRY LB(h)->tag((int8_t)tag); return 0; AKB_CATCH(-1) }
AKB_EXPORT int akb_lb_index(void* h, int64_t x) { AKB_TRY LB(h)->index(x); return 0; AKB_CATCH(-1) }
