// Harness code: lane P core section (Python object lifetime hooks, result buffers, dtype helpers,
// Index and Identities as the pybind11 binding exposes them).
#include "akb_p.h"

thread_local std::vector<std::string> akp_strs;
thread_local std::vector<void*> akp_ptrs;
thread_local std::vector<int64_t> akp_ints;

AKB_EXPORT int64_t akp_strs_count() { return (int64_t)akp_strs.size(); }
AKB_EXPORT const char* akp_strs_ptr(int64_t i) { return akp_strs[(size_t)i].data(); }
AKB_EXPORT int64_t akp_strs_len(int64_t i) { return (int64_t)akp_strs[(size_t)i].size(); }
AKB_EXPORT int64_t akp_ptrs_count() { return (int64_t)akp_ptrs.size(); }
AKB_EXPORT void* akp_ptrs_at(int64_t i) { return akp_ptrs[(size_t)i]; }
AKB_EXPORT int64_t akp_ints_count() { return (int64_t)akp_ints.size(); }
AKB_EXPORT int64_t akp_ints_at(int64_t i) { return akp_ints[(size_t)i]; }

// ---------------------------------------------------------------- Python object lifetime

typedef void (*akp_objfn)(void*);
typedef int (*akp_ensurefn)();
typedef void (*akp_releasefn)(int);
static akp_objfn py_incref = nullptr;
static akp_objfn py_decref = nullptr;
static akp_ensurefn py_ensure = nullptr;
static akp_releasefn py_release = nullptr;
static volatile int py_alive = 0;

// addresses of Py_IncRef, Py_DecRef, PyGILState_Ensure, PyGILState_Release
AKB_EXPORT void akp_set_pyapi(void* incref, void* decref, void* ensure, void* release) {
  py_incref = (akp_objfn)incref;
  py_decref = (akp_objfn)decref;
  py_ensure = (akp_ensurefn)ensure;
  py_release = (akp_releasefn)release;
  py_alive = 1;
}
// after this, buffers owned by Python objects are leaked instead of released (interpreter shutdown)
AKB_EXPORT void akp_pyapi_shutdown() { py_alive = 0; }

AkpPyDeleter::AkpPyDeleter(void* o): obj(o) { }
void AkpPyDeleter::operator()(void const*) {
  if (py_alive && obj != nullptr) {
    int st = py_ensure();
    py_decref(obj);
    py_release(st);
  }
}
AkpPyDeleter akp_py_keep(void* obj) {
  if (!py_alive) throw std::runtime_error("bridge: akp_set_pyapi has not been called");
  int st = py_ensure();
  py_incref(obj);
  py_release(st);
  return AkpPyDeleter(obj);
}

// ---------------------------------------------------------------- dtype helpers (awkward/util.h)

AKB_EXPORT int akp_name_to_dtype(const char* name) {
  AKP_TRY return (int)ak::util::name_to_dtype(std::string(name)); AKP_CATCH(-1)
}
AKB_EXPORT const char* akp_dtype_to_name(int dt) {
  AKP_TRY akb_str = ak::util::dtype_to_name((ak::util::dtype)dt); return akb_str.c_str(); AKP_CATCH(nullptr)
}
AKB_EXPORT int akp_format_to_dtype(const char* format, int64_t itemsize) {
  AKP_TRY return (int)ak::util::format_to_dtype(std::string(format), itemsize); AKP_CATCH(-1)
}
AKB_EXPORT const char* akp_dtype_to_format(int dt, const char* format) {
  AKP_TRY akb_str = ak::util::dtype_to_format((ak::util::dtype)dt, std::string(format)); return akb_str.c_str(); AKP_CATCH(nullptr)
}
AKB_EXPORT int64_t akp_dtype_to_itemsize(int dt) {
  AKP_TRY return ak::util::dtype_to_itemsize((ak::util::dtype)dt); AKP_CATCH(-1)
}
AKB_EXPORT int akp_dtype_is_integer(int dt) {
  AKP_TRY return ak::util::is_integer((ak::util::dtype)dt) ? 1 : 0; AKP_CATCH(-1)
}
AKB_EXPORT const char* akp_format_to_units(const char* format) {
  AKP_TRY akb_str = ak::util::format_to_units(std::string(format)); return akb_str.c_str(); AKP_CATCH(nullptr)
}
AKB_EXPORT int akp_dtype_NOT_PRIMITIVE() { return (int)ak::util::dtype::NOT_PRIMITIVE; }

// ---------------------------------------------------------------- Index

template <typename T>
static void* wrap_index(void* data, int64_t length, void* pyobj) {
  std::shared_ptr<T> ptr(reinterpret_cast<T*>(data), akp_py_keep(pyobj));
  return box_index<T>(ak::IndexOf<T>(ptr, 0, length, ak::kernel::lib::cpu));
}
// an Index over memory owned by a Python object (no copy); the object is kept alive by the C++ side
AKB_EXPORT void* akp_index_wrap(int kind, void* data, int64_t length, void* pyobj) {
  AKP_TRY
  switch (kind) {
    case 0: return wrap_index<int8_t>(data, length, pyobj);
    case 1: return wrap_index<uint8_t>(data, length, pyobj);
    case 2: return wrap_index<int32_t>(data, length, pyobj);
    case 3: return wrap_index<uint32_t>(data, length, pyobj);
    case 4: return wrap_index<int64_t>(data, length, pyobj);
  }
  throw std::invalid_argument("bridge: bad index kind");
  AKP_CATCH(nullptr)
}

#define INDEX_SWITCH(h, EXPR)                                              \
  switch (reinterpret_cast<IndexH*>(h)->kind) {                            \
    case 0: { typedef int8_t T; EXPR; break; }                             \
    case 1: { typedef uint8_t T; EXPR; break; }                            \
    case 2: { typedef int32_t T; EXPR; break; }                            \
    case 3: { typedef uint32_t T; EXPR; break; }                           \
    case 4: { typedef int64_t T; EXPR; break; }                            \
    default: throw std::invalid_argument("bridge: bad index kind");        \
  }

AKB_EXPORT void* akp_index_copy(void* h) {
  AKP_TRY
  INDEX_SWITCH(h, return box_index<T>(IDX<T>(h)))
  return nullptr;
  AKP_CATCH(nullptr)
}
AKB_EXPORT const char* akp_index_tostring(void* h) {
  AKP_TRY
  INDEX_SWITCH(h, akb_str = IDX<T>(h).tostring())
  return akb_str.c_str();
  AKP_CATCH(nullptr)
}
AKB_EXPORT int akp_index_ptr_lib(void* h) {
  AKP_TRY
  INDEX_SWITCH(h, return (int)IDX<T>(h).ptr_lib())
  return -1;
  AKP_CATCH(-1)
}
// the value is returned as int64 (uint32 fits); ok reports success
AKB_EXPORT int64_t akp_index_getitem_at(void* h, int64_t at, int* ok) {
  *ok = 0;
  AKP_TRY
  int64_t out = 0;
  INDEX_SWITCH(h, out = (int64_t)IDX<T>(h).getitem_at(at))
  *ok = 1;
  return out;
  AKP_CATCH(0)
}
AKB_EXPORT void* akp_index_getitem_range(void* h, int64_t start, int64_t stop) {
  AKP_TRY
  INDEX_SWITCH(h, return box_index<T>(IDX<T>(h).getitem_range(start, stop)))
  return nullptr;
  AKP_CATCH(nullptr)
}
AKB_EXPORT void* akp_index_copy_to(void* h, int lib) {
  AKP_TRY
  INDEX_SWITCH(h, return box_index<T>(IDX<T>(h).copy_to((ak::kernel::lib)lib)))
  return nullptr;
  AKP_CATCH(nullptr)
}
// base pointer (ptr().get()), offset, length
AKB_EXPORT int akp_index_raw(void* h, void** base, int64_t* offset, int64_t* length) {
  AKP_TRY
  INDEX_SWITCH(h, { const ak::IndexOf<T>& x = IDX<T>(h); *base = (void*)x.ptr().get(); *offset = x.offset(); *length = x.length(); })
  return 0;
  AKP_CATCH(-1)
}
AKB_EXPORT const char* akp_index_form2str(int form) {
  AKP_TRY akb_str = ak::Index::form2str((ak::Index::Form)form); return akb_str.c_str(); AKP_CATCH(nullptr)
}

// ---------------------------------------------------------------- Identities

static ak::Identities::FieldLoc mkfieldloc(const int64_t* locs, const char** names, int n) {
  ak::Identities::FieldLoc out;
  for (int i = 0; i < n; i++) out.push_back(std::pair<int64_t, std::string>(locs[i], std::string(names[i])));
  return out;
}
AKB_EXPORT void akp_ids_free(void* h) { delete reinterpret_cast<ak::IdentitiesPtr*>(h); }
AKB_EXPORT int64_t akp_ids_newref() { return ak::Identities::newref(); }
AKB_EXPORT void* akp_ids_new(int is64, int64_t ref, const int64_t* locs, const char** names, int n,
                             int64_t width, int64_t length) {
  AKP_TRY
  ak::Identities::FieldLoc fl = mkfieldloc(locs, names, n);
  if (is64) return new ak::IdentitiesPtr(std::make_shared<ak::Identities64>(ref, fl, width, length));
  return new ak::IdentitiesPtr(std::make_shared<ak::Identities32>(ref, fl, width, length));
  AKP_CATCH(nullptr)
}
AKB_EXPORT void* akp_ids_wrap(int is64, int64_t ref, const int64_t* locs, const char** names, int n,
                              void* data, int64_t width, int64_t length, void* pyobj) {
  AKP_TRY
  ak::Identities::FieldLoc fl = mkfieldloc(locs, names, n);
  if (is64) {
    std::shared_ptr<int64_t> ptr(reinterpret_cast<int64_t*>(data), akp_py_keep(pyobj));
    return new ak::IdentitiesPtr(std::make_shared<ak::Identities64>(ref, fl, 0, width, length, ptr));
  }
  std::shared_ptr<int32_t> ptr(reinterpret_cast<int32_t*>(data), akp_py_keep(pyobj));
  return new ak::IdentitiesPtr(std::make_shared<ak::Identities32>(ref, fl, 0, width, length, ptr));
  AKP_CATCH(nullptr)
}
// 32 or 64; 0 for anything else
AKB_EXPORT int akp_ids_width_bits(void* h) {
  ak::Identities* raw = IDS(h).get();
  if (dynamic_cast<ak::Identities32*>(raw)) return 32;
  if (dynamic_cast<ak::Identities64*>(raw)) return 64;
  return 0;
}
AKB_EXPORT void* akp_ids_shallow_copy(void* h) {
  AKP_TRY return share_ids(IDS(h)->shallow_copy()); AKP_CATCH(nullptr)
}
AKB_EXPORT int akp_ids_info(void* h, int64_t* ref, int64_t* offset, int64_t* width, int64_t* length, void** base,
                            int* ptr_lib) {
  AKP_TRY
  ak::Identities* raw = IDS(h).get();
  *ref = raw->ref(); *offset = raw->offset(); *width = raw->width(); *length = raw->length();
  *ptr_lib = (int)raw->ptr_lib();
  if (ak::Identities32* a = dynamic_cast<ak::Identities32*>(raw)) *base = (void*)a->ptr().get();
  else if (ak::Identities64* a = dynamic_cast<ak::Identities64*>(raw)) *base = (void*)a->ptr().get();
  else *base = nullptr;
  return 0;
  AKP_CATCH(-1)
}
// fieldloc -> akp_ints (positions) and akp_strs (names)
AKB_EXPORT int akp_ids_fieldloc(void* h) {
  AKP_TRY
  akp_ints.clear(); akp_strs.clear();
  for (auto& pair : IDS(h)->fieldloc()) { akp_ints.push_back(pair.first); akp_strs.push_back(pair.second); }
  return 0;
  AKP_CATCH(-1)
}
AKB_EXPORT const char* akp_ids_tostring(void* h) {
  AKP_TRY akb_str = IDS(h)->tostring(); return akb_str.c_str(); AKP_CATCH(nullptr)
}
AKB_EXPORT const char* akp_ids_identity_at_str(void* h, int64_t at) {
  AKP_TRY akb_str = IDS(h)->identity_at(at); return akb_str.c_str(); AKP_CATCH(nullptr)
}
AKB_EXPORT int64_t akp_ids_value(void* h, int64_t row, int64_t col, int* ok) {
  *ok = 0;
  AKP_TRY int64_t out = IDS(h)->value(row, col); *ok = 1; return out; AKP_CATCH(0)
}
// values -> akp_ints
AKB_EXPORT int akp_ids_getitem_at(void* h, int64_t at) {
  AKP_TRY
  akp_ints.clear();
  ak::Identities* raw = IDS(h).get();
  if (ak::Identities32* a = dynamic_cast<ak::Identities32*>(raw)) {
    for (int32_t x : a->getitem_at(at)) akp_ints.push_back((int64_t)x);
  }
  else if (ak::Identities64* a = dynamic_cast<ak::Identities64*>(raw)) {
    for (int64_t x : a->getitem_at(at)) akp_ints.push_back(x);
  }
  else throw std::runtime_error("bridge: unknown Identities subtype");
  return 0;
  AKP_CATCH(-1)
}
AKB_EXPORT void* akp_ids_getitem_range(void* h, int64_t start, int64_t stop) {
  AKP_TRY
  ak::Identities* raw = IDS(h).get();
  if (ak::Identities32* a = dynamic_cast<ak::Identities32*>(raw)) return share_ids(a->getitem_range(start, stop));
  if (ak::Identities64* a = dynamic_cast<ak::Identities64*>(raw)) return share_ids(a->getitem_range(start, stop));
  throw std::runtime_error("bridge: unknown Identities subtype");
  AKP_CATCH(nullptr)
}
AKB_EXPORT void* akp_ids_copy_to(void* h, int lib) {
  AKP_TRY return share_ids(IDS(h)->copy_to((ak::kernel::lib)lib)); AKP_CATCH(nullptr)
}
