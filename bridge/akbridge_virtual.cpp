// Harness code: VirtualArray (with test-controlled generator/cache doubles) and PartitionedArray section of the
// C ABI bridge.  The doubles call back into the harness through plain C function pointers.
#include "akb.h"
#include "awkward/virtual/ArrayGenerator.h"
#include "awkward/virtual/ArrayCache.h"
#include "awkward/array/VirtualArray.h"
#include "awkward/partition/PartitionedArray.h"
#include "awkward/partition/IrregularlyPartitionedArray.h"

typedef void* (*akb_gen_cb)(int64_t user);                               // boxed ContentPtr (ownership passes) or null = fail
typedef void* (*akb_cache_get_cb)(int64_t user, const char* key);        // boxed ContentPtr (ownership passes) or null = miss
typedef void (*akb_cache_set_cb)(int64_t user, const char* key, void* boxed);   // the callee owns `boxed`
typedef int (*akb_cache_broken_cb)(int64_t user);

namespace {
  class TestGenerator: public ak::ArrayGenerator {
  public:
    TestGenerator(const ak::FormPtr& form, int64_t length, akb_gen_cb cb, int64_t user)
        : ak::ArrayGenerator(form, length), cb_(cb), user_(user) { }
    const ak::ContentPtr generate() const override {
      void* p = cb_(user_);
      if (p == nullptr) {
        throw std::runtime_error("test generator: scripted failure");
      }
      ak::ContentPtr out = *reinterpret_cast<ak::ContentPtr*>(p);
      delete reinterpret_cast<ak::ContentPtr*>(p);
      return out;
    }
    void caches(std::vector<ak::ArrayCachePtr>& out) const override { }
    const std::string tostring_part(const std::string& indent, const std::string& pre,
                                    const std::string& post) const override {
      return indent + pre + "<TestGenerator user=\"" + std::to_string(user_) + "\"/>" + post;
    }
    const std::shared_ptr<ak::ArrayGenerator> shallow_copy() const override {
      return std::make_shared<TestGenerator>(form_, length_, cb_, user_);
    }
    const std::shared_ptr<ak::ArrayGenerator> with_form(const ak::FormPtr& form) const override {
      return std::make_shared<TestGenerator>(form, length_, cb_, user_);
    }
    const std::shared_ptr<ak::ArrayGenerator> with_length(int64_t length) const override {
      return std::make_shared<TestGenerator>(form_, length, cb_, user_);
    }
    bool referentially_equal(const ak::ArrayGeneratorPtr& other) const override {
      if (TestGenerator* raw = dynamic_cast<TestGenerator*>(other.get())) {
        return raw->cb_ == cb_  &&  raw->user_ == user_  &&  raw->length_ == length_  &&
               raw->form_.get() == form_.get();
      }
      return false;
    }
  private:
    akb_gen_cb cb_;
    int64_t user_;
  };

  class TestCache: public ak::ArrayCache {
  public:
    TestCache(akb_cache_get_cb get, akb_cache_set_cb set, akb_cache_broken_cb broken, int64_t user)
        : get_(get), set_(set), broken_(broken), user_(user) { }
    ak::ContentPtr get(const std::string& key) const override {
      void* p = get_(user_, key.c_str());
      if (p == nullptr) {
        return ak::ContentPtr(nullptr);
      }
      ak::ContentPtr out = *reinterpret_cast<ak::ContentPtr*>(p);
      delete reinterpret_cast<ak::ContentPtr*>(p);
      return out;
    }
    void set(const std::string& key, const ak::ContentPtr& value) override {
      set_(user_, key.c_str(), new ak::ContentPtr(value));
    }
    bool is_broken() const override { return broken_(user_) != 0; }
    const std::string tostring_part(const std::string& indent, const std::string& pre,
                                    const std::string& post) const override {
      return indent + pre + "<TestCache user=\"" + std::to_string(user_) + "\"/>" + post;
    }
  private:
    akb_cache_get_cb get_;
    akb_cache_set_cb set_;
    akb_cache_broken_cb broken_;
    int64_t user_;
  };

  ak::ContentPtr materialize(const ak::ContentPtr& c) {
    ak::Content* raw = c.get();
    if (ak::VirtualArray* a = dynamic_cast<ak::VirtualArray*>(raw)) {
      return materialize(a->array());
    }
    if (ak::RegularArray* a = dynamic_cast<ak::RegularArray*>(raw)) {
      return std::make_shared<ak::RegularArray>(a->identities(), a->parameters(), materialize(a->content()),
                                                a->size(), a->length());
    }
#define M_LISTOFFSET(CLS)                                                                              \
    if (ak::CLS* a = dynamic_cast<ak::CLS*>(raw)) {                                                    \
      return std::make_shared<ak::CLS>(a->identities(), a->parameters(), a->offsets(), materialize(a->content())); \
    }
    M_LISTOFFSET(ListOffsetArray32) M_LISTOFFSET(ListOffsetArrayU32) M_LISTOFFSET(ListOffsetArray64)
#define M_LIST(CLS)                                                                                    \
    if (ak::CLS* a = dynamic_cast<ak::CLS*>(raw)) {                                                    \
      return std::make_shared<ak::CLS>(a->identities(), a->parameters(), a->starts(), a->stops(),      \
                                       materialize(a->content()));                                     \
    }
    M_LIST(ListArray32) M_LIST(ListArrayU32) M_LIST(ListArray64)
#define M_INDEXED(CLS)                                                                                 \
    if (ak::CLS* a = dynamic_cast<ak::CLS*>(raw)) {                                                    \
      return std::make_shared<ak::CLS>(a->identities(), a->parameters(), a->index(), materialize(a->content())); \
    }
    M_INDEXED(IndexedArray32) M_INDEXED(IndexedArrayU32) M_INDEXED(IndexedArray64)
    M_INDEXED(IndexedOptionArray32) M_INDEXED(IndexedOptionArray64)
    if (ak::ByteMaskedArray* a = dynamic_cast<ak::ByteMaskedArray*>(raw)) {
      return std::make_shared<ak::ByteMaskedArray>(a->identities(), a->parameters(), a->mask(),
                                                   materialize(a->content()), a->valid_when());
    }
    if (ak::BitMaskedArray* a = dynamic_cast<ak::BitMaskedArray*>(raw)) {
      return std::make_shared<ak::BitMaskedArray>(a->identities(), a->parameters(), a->mask(),
                                                  materialize(a->content()), a->valid_when(), a->length(),
                                                  a->lsb_order());
    }
    if (ak::UnmaskedArray* a = dynamic_cast<ak::UnmaskedArray*>(raw)) {
      return std::make_shared<ak::UnmaskedArray>(a->identities(), a->parameters(), materialize(a->content()));
    }
    if (ak::RecordArray* a = dynamic_cast<ak::RecordArray*>(raw)) {
      ak::ContentPtrVec cs;
      for (auto x : a->contents()) cs.push_back(materialize(x));
      return std::make_shared<ak::RecordArray>(a->identities(), a->parameters(), cs, a->recordlookup(), a->length());
    }
    if (ak::Record* a = dynamic_cast<ak::Record*>(raw)) {
      ak::ContentPtr arr = materialize(std::const_pointer_cast<ak::RecordArray>(a->array()));
      return std::make_shared<ak::Record>(std::dynamic_pointer_cast<ak::RecordArray>(arr), a->at());
    }
#define M_UNION(CLS)                                                                                   \
    if (ak::CLS* a = dynamic_cast<ak::CLS*>(raw)) {                                                    \
      ak::ContentPtrVec cs;                                                                            \
      for (auto x : a->contents()) cs.push_back(materialize(x));                                       \
      return std::make_shared<ak::CLS>(a->identities(), a->parameters(), a->tags(), a->index(), cs);   \
    }
    M_UNION(UnionArray8_32) M_UNION(UnionArray8_U32) M_UNION(UnionArray8_64)
    return c;
  }
}

#define GEN(h) (*reinterpret_cast<ak::ArrayGeneratorPtr*>(h))
#define CACHE(h) (*reinterpret_cast<ak::ArrayCachePtr*>(h))
#define FORMH(h) (*reinterpret_cast<ak::FormPtr*>(h))

AKB_EXPORT void* akb_generator_new(void* form_or_null, int64_t length, akb_gen_cb cb, int64_t user) {
  AKB_TRY
  ak::FormPtr form(nullptr);
  if (form_or_null != nullptr) form = FORMH(form_or_null);
  return new ak::ArrayGeneratorPtr(std::make_shared<TestGenerator>(form, length, cb, user));
  AKB_CATCH(nullptr)
}
AKB_EXPORT void akb_generator_free(void* h) { delete reinterpret_cast<ak::ArrayGeneratorPtr*>(h); }
AKB_EXPORT int64_t akb_generator_length(void* h) { AKB_TRY return GEN(h)->length(); AKB_CATCH(-999) }
// the generator's (declared or inferred) form; returns null without an error when there is none
AKB_EXPORT void* akb_generator_form(void* h) {
  AKB_TRY
  ak::FormPtr f = GEN(h)->form();
  if (f.get() == nullptr) return nullptr;
  return new ak::FormPtr(f);
  AKB_CATCH(nullptr)
}
AKB_EXPORT void* akb_generator_generate_and_check(void* h) {
  AKB_TRY return box_content(GEN(h)->generate_and_check()); AKB_CATCH(nullptr)
}

AKB_EXPORT void* akb_cache_new(akb_cache_get_cb get, akb_cache_set_cb set, akb_cache_broken_cb broken, int64_t user) {
  AKB_TRY
  return new ak::ArrayCachePtr(std::make_shared<TestCache>(get, set, broken, user));
  AKB_CATCH(nullptr)
}
AKB_EXPORT void akb_cache_free(void* h) { delete reinterpret_cast<ak::ArrayCachePtr*>(h); }
AKB_EXPORT const char* akb_cache_newkey() { AKB_TRY akb_str = ak::ArrayCache::newkey(); return akb_str.c_str(); AKB_CATCH(nullptr) }

// key == null: the library chooses a fresh key (ArrayCache::newkey)
AKB_EXPORT void* akb_virtual(void* gen, void* cache_or_null, const char* key) {
  AKB_TRY
  ak::ArrayCachePtr cache(nullptr);
  if (cache_or_null != nullptr) cache = CACHE(cache_or_null);
  if (key == nullptr) {
    return box_content(std::make_shared<ak::VirtualArray>(ak::Identities::none(), ak::util::Parameters(), GEN(gen), cache));
  }
  return box_content(std::make_shared<ak::VirtualArray>(ak::Identities::none(), ak::util::Parameters(), GEN(gen),
                                                        cache, std::string(key)));
  AKB_CATCH(nullptr)
}
static ak::VirtualArray* VA(void* h) {
  ak::VirtualArray* raw = dynamic_cast<ak::VirtualArray*>(C(h).get());
  if (raw == nullptr) throw std::invalid_argument("bridge: not a VirtualArray");
  return raw;
}
AKB_EXPORT void* akb_virtual_array(void* h) { AKB_TRY return box_content(VA(h)->array()); AKB_CATCH(nullptr) }
// peek_array: null without an error when nothing is cached
AKB_EXPORT void* akb_virtual_peek(void* h) {
  AKB_TRY
  ak::ContentPtr out = VA(h)->peek_array();
  if (out.get() == nullptr) return nullptr;
  return new ak::ContentPtr(out);
  AKB_CATCH(nullptr)
}
AKB_EXPORT const char* akb_virtual_cache_key(void* h) { AKB_TRY akb_str = VA(h)->cache_key(); return akb_str.c_str(); AKB_CATCH(nullptr) }
AKB_EXPORT void* akb_virtual_generator(void* h) { AKB_TRY return new ak::ArrayGeneratorPtr(VA(h)->generator()); AKB_CATCH(nullptr) }
AKB_EXPORT int akb_is_virtual(void* h) { AKB_TRY return dynamic_cast<ak::VirtualArray*>(C(h).get()) != nullptr ? 1 : 0; AKB_CATCH(-1) }
// every VirtualArray anywhere in the tree replaced by its array()
AKB_EXPORT void* akb_materialize(void* h) { AKB_TRY return box_content(materialize(C(h))); AKB_CATCH(nullptr) }

// ---------------------------------------------------------------- partitioned arrays
#define PART(h) (*reinterpret_cast<ak::PartitionedArrayPtr*>(h))

AKB_EXPORT void* akb_part_new(void** contents, int64_t n, const int64_t* stops, int64_t nstops) {
  AKB_TRY
  ak::ContentPtrVec cs;
  for (int64_t i = 0; i < n; i++) cs.push_back(C(contents[i]));
  std::vector<int64_t> st(stops, stops + nstops);
  return new ak::PartitionedArrayPtr(std::make_shared<ak::IrregularlyPartitionedArray>(cs, st));
  AKB_CATCH(nullptr)
}
AKB_EXPORT void akb_part_free(void* h) { delete reinterpret_cast<ak::PartitionedArrayPtr*>(h); }
AKB_EXPORT int64_t akb_part_numpartitions(void* h) { AKB_TRY return PART(h)->numpartitions(); AKB_CATCH(-999) }
AKB_EXPORT int64_t akb_part_length(void* h) { AKB_TRY return PART(h)->length(); AKB_CATCH(-999) }
AKB_EXPORT void* akb_part_partition(void* h, int64_t i) { AKB_TRY return box_content(PART(h)->partition(i)); AKB_CATCH(nullptr) }
AKB_EXPORT int64_t akb_part_start(void* h, int64_t i) { AKB_TRY return PART(h)->start(i); AKB_CATCH(-999) }
AKB_EXPORT int64_t akb_part_stop(void* h, int64_t i) { AKB_TRY return PART(h)->stop(i); AKB_CATCH(-999) }
AKB_EXPORT int akb_part_index_at(void* h, int64_t at, int64_t* partitionid, int64_t* index) {
  AKB_TRY PART(h)->partitionid_index_at(at, *partitionid, *index); return 0; AKB_CATCH(-1)
}
AKB_EXPORT void* akb_part_getitem_at(void* h, int64_t at) { AKB_TRY return box_content(PART(h)->getitem_at(at)); AKB_CATCH(nullptr) }
AKB_EXPORT void* akb_part_getitem_range(void* h, int hasstart, int64_t start, int hasstop, int64_t stop,
                                        int hasstep, int64_t step) {
  AKB_TRY
  return new ak::PartitionedArrayPtr(PART(h)->getitem_range(hasstart ? start : ak::Slice::none(),
                                                            hasstop ? stop : ak::Slice::none(),
                                                            hasstep ? step : ak::Slice::none()));
  AKB_CATCH(nullptr)
}
AKB_EXPORT void* akb_part_repartition(void* h, const int64_t* stops, int64_t nstops) {
  AKB_TRY
  std::vector<int64_t> st(stops, stops + nstops);
  return new ak::PartitionedArrayPtr(PART(h)->repartition(st));
  AKB_CATCH(nullptr)
}
AKB_EXPORT const char* akb_part_tojson(void* h, int pretty, int64_t maxdecimals) {
  AKB_TRY akb_str = PART(h)->tojson(pretty != 0, maxdecimals); return akb_str.c_str(); AKB_CATCH(nullptr)
}
AKB_EXPORT int akb_part_tojson_file(void* h, const char* path, int pretty, int64_t maxdecimals, int64_t buffersize) {
  AKB_TRY
  FILE* f = fopen(path, "wb");
  if (f == nullptr) throw std::invalid_argument("bridge: cannot open file");
  try { PART(h)->tojson(f, pretty != 0, maxdecimals, buffersize); }
  catch (...) { fclose(f); throw; }
  fclose(f);
  return 0;
  AKB_CATCH(-1)
}
AKB_EXPORT const char* akb_part_tostring(void* h) { AKB_TRY akb_str = PART(h)->tostring(); return akb_str.c_str(); AKB_CATCH(nullptr) }
AKB_EXPORT void* akb_part_shallow_copy(void* h) { AKB_TRY return new ak::PartitionedArrayPtr(PART(h)->shallow_copy()); AKB_CATCH(nullptr) }

// a second owning handle to the same Content (what the doubles hand back to the library)
AKB_EXPORT void* akb_box_copy(void* h) { AKB_TRY return new ak::ContentPtr(C(h)); AKB_CATCH(nullptr) }
