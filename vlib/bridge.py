"""ctypes front end of bridge/akbridge.cpp (lane L)."""
from __future__ import print_function

import ctypes
import json
import os
from ctypes import c_void_p, c_char_p, c_int, c_int64, c_uint64, c_double, POINTER, byref

import numpy as np

KIND = {"i8": 0, "u8": 1, "i32": 2, "u32": 3, "i64": 4}
KIND_NP = {"i8": np.int8, "u8": np.uint8, "i32": np.int32, "u32": np.uint32, "i64": np.int64}
W2K = {"32": "i32", "U32": "u32", "64": "i64"}

DTYPE_FORMAT = {
    "bool": "?", "int8": "b", "int16": "h", "int32": "i", "int64": "l",
    "uint8": "B", "uint16": "H", "uint32": "I", "uint64": "L",
    "float32": "f", "float64": "d", "complex64": "Zf", "complex128": "Zd",
}


class AkError(Exception):
    def __init__(self, kind, msg):
        Exception.__init__(self, "%s: %s" % (kind, msg))
        self.kind = kind
        self.msg = msg


ERRKINDS = {1: "invalid_argument", 2: "runtime_error", 3: "exception", 4: "unknown"}


class Handle(object):
    __slots__ = ("_b", "p", "_free", "__weakref__")

    def __init__(self, b, p, free):
        self._b, self.p, self._free = b, p, free

    def __del__(self):
        try:
            if self.p:
                self._free(self.p)
                self.p = None
        except Exception:
            pass

    def release(self):
        if self.p:
            self._free(self.p)
            self.p = None


def _sigs(L):
    vp, cp, i, i64 = c_void_p, c_char_p, c_int, c_int64
    S = {
        "akb_error": (cp, []), "akb_error_kind": (i, []), "akb_clear_error": (None, []),
        "akb_str_len": (i64, []), "akb_str_ptr": (vp, []),
        "akb_index": (vp, [i, vp, i64, i64, i64]), "akb_index_free": (None, [vp]), "akb_index_kind": (i, [vp]),
        "akb_index_info": (i, [vp, POINTER(i64), POINTER(i64), POINTER(vp)]),
        "akb_index_describe": (vp, [vp]),
        "akb_free": (None, [vp]), "akb_use_count": (i64, [vp]),
        "akb_numpy": (vp, [vp, i64, i64, i, POINTER(i64), POINTER(i64), i64, cp, cp]),
        "akb_empty": (vp, []), "akb_regular": (vp, [vp, i64, i64]),
        "akb_listoffset": (vp, [vp, vp]), "akb_list": (vp, [vp, vp, vp]), "akb_indexed": (vp, [vp, vp, i]),
        "akb_bytemasked": (vp, [vp, vp, i]), "akb_bitmasked": (vp, [vp, vp, i, i64, i]), "akb_unmasked": (vp, [vp]),
        "akb_record": (vp, [POINTER(vp), i, POINTER(cp), i64]), "akb_union": (vp, [vp, vp, POINTER(vp), i]),
        "akb_setparameters": (i, [vp, POINTER(cp), POINTER(cp), i]),
        "akb_describe": (vp, [vp]),
        "akb_length": (i64, [vp]), "akb_classname": (vp, [vp]), "akb_tostring": (vp, [vp]),
        "akb_validityerror": (vp, [vp]), "akb_isscalar": (i, [vp]), "akb_purelist_depth": (i64, [vp]),
        "akb_minmax_depth": (i, [vp, POINTER(i64), POINTER(i64)]), "akb_branch_depth": (i, [vp, POINTER(i64), POINTER(i64)]),
        "akb_purelist_isregular": (i, [vp]), "akb_numfields": (i64, [vp]), "akb_haskey": (i, [vp, cp]),
        "akb_fieldindex": (i64, [vp, cp]), "akb_key": (vp, [vp, i64]), "akb_keys": (vp, [vp]),
        "akb_purelist_parameter": (vp, [vp, cp]), "akb_axis_wrap_if_negative": (i64, [vp, i64, POINTER(i)]),
        "akb_nbytes": (i64, [vp]),
        "akb_content_of": (vp, [vp, i64]), "akb_numcontents": (i64, [vp]), "akb_index_of": (vp, [vp, cp]),
        "akb_numpy_data": (vp, [vp]),
        "akb_slice_new": (vp, []), "akb_slice_free": (None, [vp]), "akb_sliceitem_free": (None, [vp]),
        "akb_slice_at": (i, [vp, i64]), "akb_slice_range": (i, [vp, i, i64, i, i64, i64]),
        "akb_slice_ellipsis": (i, [vp]), "akb_slice_newaxis": (i, [vp]), "akb_slice_field": (i, [vp, cp]),
        "akb_slice_fields": (i, [vp, POINTER(cp), i]),
        "akb_slice_array": (i, [vp, vp, i, POINTER(i64), POINTER(i64), i]), "akb_slice_item": (i, [vp, vp]),
        "akb_slice_seal": (i, [vp]), "akb_slice_tostring": (vp, [vp]), "akb_asslice": (vp, [vp]),
        "akb_getitem": (vp, [vp, vp]), "akb_getitem_at": (vp, [vp, i64]), "akb_getitem_range": (vp, [vp, i64, i64]),
        "akb_getitem_field": (vp, [vp, cp]), "akb_getitem_fields": (vp, [vp, POINTER(cp), i]),
        "akb_getitem_nothing": (vp, [vp]), "akb_carry": (vp, [vp, vp, i]),
        "akb_shallow_copy": (vp, [vp]), "akb_deep_copy": (vp, [vp, i, i, i]),
        "akb_num": (vp, [vp, i64]), "akb_flatten": (vp, [vp, i64, POINTER(vp)]), "akb_localindex": (vp, [vp, i64]),
        "akb_reduce": (vp, [vp, cp, i64, i, i]),
        "akb_reduce_initial": (vp, [vp, cp, i64, i, i, c_double, c_uint64, i64]),
        "akb_sort": (vp, [vp, i64, i, i]), "akb_argsort": (vp, [vp, i64, i, i]),
        "akb_combinations": (vp, [vp, i64, i, POINTER(cp), i, POINTER(cp), POINTER(cp), i, i64]),
        "akb_rpad": (vp, [vp, i64, i64, i]), "akb_fillna": (vp, [vp, vp]),
        "akb_merge": (vp, [vp, vp]), "akb_merge_as_union": (vp, [vp, vp]), "akb_mergemany": (vp, [vp, POINTER(vp), i]),
        "akb_mergeable": (i, [vp, vp, i]), "akb_shallow_simplify": (vp, [vp]),
        "akb_numbers_to_type": (vp, [vp, cp]), "akb_is_unique": (i, [vp]), "akb_unique": (vp, [vp]),
        "akb_project": (vp, [vp]), "akb_project_mask": (vp, [vp, vp]), "akb_union_project": (vp, [vp, i64]),
        "akb_bytemask": (vp, [vp]), "akb_simplify_optiontype": (vp, [vp]), "akb_simplify_uniontype": (vp, [vp, i, i]),
        "akb_toIndexedOptionArray64": (vp, [vp]), "akb_toByteMaskedArray": (vp, [vp]),
        "akb_toListOffsetArray64": (vp, [vp, i]), "akb_compact_offsets64": (vp, [vp, i]),
        "akb_broadcast_tooffsets64": (vp, [vp, vp]), "akb_toRegularArray": (vp, [vp]),
        "akb_numpy_contiguous": (vp, [vp]), "akb_setitem_field": (vp, [vp, cp, vp]),
        "akb_setitem_field_at": (vp, [vp, i64, vp]), "akb_none": (vp, []),
    }
    for name, (res, args) in S.items():
        f = getattr(L, name)
        f.restype = res
        f.argtypes = args
    # optional sections (present once the corresponding bridge part is built)
    return S


def _cstrs(strings):
    arr = (c_char_p * max(1, len(strings)))()
    for i, s in enumerate(strings):
        arr[i] = s.encode("utf-8", "surrogateescape") if isinstance(s, str) else s
    return arr


from vlib.bridge_ext import IoMixin  # noqa: E402


class Bridge(IoMixin):
    def __init__(self, builddir):
        self.builddir = builddir
        self.L = ctypes.CDLL(os.path.join(builddir, "libakbridge.so"), mode=ctypes.RTLD_GLOBAL)
        _sigs(self.L)
        from vlib import bridge_ext
        bridge_ext.declare(self.L)
        self.live = 0

    # ---- plumbing
    def _str(self, p=None):
        n = self.L.akb_str_len()
        return ctypes.string_at(self.L.akb_str_ptr(), n).decode("utf-8", "surrogateescape")

    def _raise(self):
        kind = ERRKINDS.get(self.L.akb_error_kind(), "unknown")
        msg = self.L.akb_error().decode("utf-8", "replace")
        self.L.akb_clear_error()
        raise AkError(kind, msg)

    def _c(self, p):
        if not p:
            self._raise()
        return Handle(self, p, self.L.akb_free)

    def _i(self, p):
        if not p:
            self._raise()
        return Handle(self, p, self.L.akb_index_free)

    def _s(self, p):
        """string-returning call: NULL -> error"""
        if not p:
            self._raise()
        return self._str()

    def _n(self, rc, bad=-1):
        if rc == bad and self.L.akb_error_kind() != 0:
            self._raise()
        return rc

    # ---- building from descriptors
    def index(self, d):
        k = d["k"]
        pre, post = d.get("pre", 0), d.get("post", 0)
        v = d["v"]
        total = np.empty(pre + len(v) + post, dtype=KIND_NP[k])
        if pre or post:
            total[:] = np.array([(-7 - 3 * j) for j in range(len(total))]).astype(KIND_NP[k])
        if len(v):
            total[pre:pre + len(v)] = np.array(v, dtype=np.int64).astype(KIND_NP[k]) if k != "u32" else \
                np.array(v, dtype=np.int64).astype(np.uint32)
        return self._i(self.L.akb_index(KIND[k], total.ctypes.data, len(total), pre, len(v)))

    def build(self, d, subst=None):
        """descriptor -> Content handle (no validation is added); subst = {id(descriptor node): handle} puts existing
        handles (e.g. a VirtualArray) in place of the nodes named"""
        if subst and id(d) in subst:
            return subst[id(d)]
        c = d["c"]
        L = self.L
        if c == "NumpyArray":
            buf = bytes.fromhex(d["hex"])
            nd = len(d["shape"])
            shape = (c_int64 * max(1, nd))(*d["shape"])
            strides = (c_int64 * max(1, nd))(*d["strides"])
            h = self._c(L.akb_numpy(buf, len(buf), -d["lo"], nd, shape, strides, d["itemsize"],
                                    d["format"].encode(), d["dtype"].encode()))
        elif c == "EmptyArray":
            h = self._c(L.akb_empty())
        elif c == "RegularArray":
            ch = self.build(d["content"], subst)
            h = self._c(L.akb_regular(ch.p, d["size"], d.get("length", 0)))
        elif c == "ListOffsetArray":
            ch = self.build(d["content"], subst)
            oh = self.index(d["offsets"])
            h = self._c(L.akb_listoffset(oh.p, ch.p))
        elif c == "ListArray":
            ch = self.build(d["content"], subst)
            a, b = self.index(d["starts"]), self.index(d["stops"])
            h = self._c(L.akb_list(a.p, b.p, ch.p))
        elif c in ("IndexedArray", "IndexedOptionArray"):
            ch = self.build(d["content"], subst)
            ih = self.index(d["index"])
            h = self._c(L.akb_indexed(ih.p, ch.p, 1 if c == "IndexedOptionArray" else 0))
        elif c == "ByteMaskedArray":
            ch = self.build(d["content"], subst)
            mh = self.index(d["mask"])
            h = self._c(L.akb_bytemasked(mh.p, ch.p, 1 if d["valid_when"] else 0))
        elif c == "BitMaskedArray":
            ch = self.build(d["content"], subst)
            mh = self.index(d["mask"])
            h = self._c(L.akb_bitmasked(mh.p, ch.p, 1 if d["valid_when"] else 0, d["length"],
                                        1 if d["lsb_order"] else 0))
        elif c == "UnmaskedArray":
            ch = self.build(d["content"], subst)
            h = self._c(L.akb_unmasked(ch.p))
        elif c == "RecordArray":
            chs = [self.build(x, subst) for x in d["contents"]]
            arr = (c_void_p * max(1, len(chs)))(*[x.p for x in chs])
            keys = None if d["keys"] is None else _cstrs(d["keys"])
            h = self._c(L.akb_record(arr, len(chs), keys, d["length"]))
        elif c == "UnionArray":
            chs = [self.build(x, subst) for x in d["contents"]]
            arr = (c_void_p * max(1, len(chs)))(*[x.p for x in chs])
            th, ih = self.index(d["tags"]), self.index(d["index"])
            h = self._c(L.akb_union(th.p, ih.p, arr, len(chs)))
        else:
            raise ValueError("cannot build " + c)
        params = d.get("params") or {}
        if params:
            ks = sorted(params)
            self._n(L.akb_setparameters(h.p, _cstrs(ks), _cstrs([params[k] for k in ks]), len(ks)))
        return h

    # ---- reading
    def describe_text(self, h):
        return self._s(self.L.akb_describe(h.p))

    def describe(self, h):
        return json.loads(self.describe_text(h))

    def index_describe(self, ih):
        return json.loads(self._s(self.L.akb_index_describe(ih.p)))

    def length(self, h):
        return self._n(self.L.akb_length(h.p))

    def classname(self, h):
        return self._s(self.L.akb_classname(h.p))

    def tostring(self, h):
        return self._s(self.L.akb_tostring(h.p))

    def validityerror(self, h):
        return self._s(self.L.akb_validityerror(h.p))

    def isscalar(self, h):
        return bool(self._n(self.L.akb_isscalar(h.p)))

    def purelist_depth(self, h):
        return self._n(self.L.akb_purelist_depth(h.p), -999)

    def minmax_depth(self, h):
        a, b = c_int64(), c_int64()
        self._n(self.L.akb_minmax_depth(h.p, byref(a), byref(b)))
        return (a.value, b.value)

    def branch_depth(self, h):
        a, b = c_int64(), c_int64()
        self._n(self.L.akb_branch_depth(h.p, byref(a), byref(b)))
        return (bool(a.value), b.value)

    def purelist_isregular(self, h):
        return bool(self._n(self.L.akb_purelist_isregular(h.p)))

    def numfields(self, h):
        return self._n(self.L.akb_numfields(h.p), -999)

    def haskey(self, h, key):
        return bool(self._n(self.L.akb_haskey(h.p, key.encode())))

    def fieldindex(self, h, key):
        return self._n(self.L.akb_fieldindex(h.p, key.encode()), -999)

    def key(self, h, i):
        return self._s(self.L.akb_key(h.p, i))

    def keys(self, h):
        s = self._s(self.L.akb_keys(h.p))
        return s.split("\x1f") if s else []

    def purelist_parameter(self, h, key):
        return self._s(self.L.akb_purelist_parameter(h.p, key.encode()))

    def content_of(self, h, i=0):
        return self._c(self.L.akb_content_of(h.p, i))

    def numcontents(self, h):
        return self._n(self.L.akb_numcontents(h.p))

    def index_of(self, h, which):
        return self._i(self.L.akb_index_of(h.p, which.encode()))

    # ---- slices
    def slice(self, items):
        """items: list of descriptors:
           {"t":"at","i":n} {"t":"range","start":a|None,"stop":b|None,"step":c|None} {"t":"ellipsis"} {"t":"newaxis"}
           {"t":"field","key":k} {"t":"fields","keys":[..]}
           {"t":"array","data":nested ints,"bool":False} (NumPy path of the binding)
           {"t":"content","layout":descriptor} (Content::asslice path)
        """
        L = self.L
        s = Handle(self, L.akb_slice_new(), L.akb_slice_free)
        self.last_slice_operands = []      # (kind, handle, dump before use): re-read by slice_operands_modified()
        for it in items:
            t = it["t"]
            if t == "at":
                self._n(L.akb_slice_at(s.p, it["i"]))
            elif t == "range":
                step = it.get("step")
                self._n(L.akb_slice_range(s.p, it.get("start") is not None, it.get("start") or 0,
                                          it.get("stop") is not None, it.get("stop") or 0,
                                          1 if step is None else step))
            elif t == "ellipsis":
                self._n(L.akb_slice_ellipsis(s.p))
            elif t == "newaxis":
                self._n(L.akb_slice_newaxis(s.p))
            elif t == "field":
                self._n(L.akb_slice_field(s.p, it["key"].encode()))
            elif t == "fields":
                self._n(L.akb_slice_fields(s.p, _cstrs(it["keys"]), len(it["keys"])))
            elif t == "array":
                arr = np.asarray(it["data"])
                if arr.ndim == 0:
                    raise AkError("invalid_argument", "arrays used as an index must have at least one dimension")
                if arr.dtype == np.bool_ or it.get("bool"):
                    arr = arr.astype(np.bool_)
                    for x in np.nonzero(arr):
                        self._append_intarray(s, np.asarray(x, dtype=np.int64), True)
                else:
                    self._append_intarray(s, np.asarray(arr, dtype=np.int64), False)
            elif t == "content":
                ch = self.build(it["layout"])
                ih = L.akb_asslice(ch.p)
                if not ih:
                    self._raise()
                item = Handle(self, ih, L.akb_sliceitem_free)
                self.last_slice_operands.append(("content", ch, self.describe_text(ch)))
                self._n(L.akb_slice_item(s.p, item.p))
            else:
                raise ValueError(t)
        self._n(L.akb_slice_seal(s.p))
        return s

    def _append_intarray(self, s, arr, frombool):
        arr = np.ascontiguousarray(arr)
        nd = arr.ndim
        shape = (c_int64 * nd)(*arr.shape)
        strides = (c_int64 * nd)(*[st // 8 for st in arr.strides])
        flat = arr.reshape(-1)
        ih = self._i(self.L.akb_index(4, flat.ctypes.data, len(flat), 0, arr.shape[0]))
        # the binding hands the whole buffer and shape[0] as the Index length
        self.last_slice_operands.append(("index", ih, [int(x) for x in flat[:arr.shape[0]]]))
        self._n(self.L.akb_slice_array(s.p, ih.p, nd, shape, strides, 1 if frombool else 0))

    def slice_operands_modified(self):
        """after an operation that used the last slice built: which of its array operands changed (purity monitor)"""
        out = []
        for kind, h, before in getattr(self, "last_slice_operands", []):
            if kind == "index":
                now = list(self.index_describe(h)["v"])
                if now != before:
                    out.append({"operand": "index array", "before": before[:12], "after": now[:12]})
            else:
                if self.describe_text(h) != before:
                    out.append({"operand": "array used as index"})
        return out

    def slice_tostring(self, s):
        return self._s(self.L.akb_slice_tostring(s.p))

    # ---- operations (each returns a Content handle or raises AkError)
    def getitem(self, h, s):
        return self._c(self.L.akb_getitem(h.p, s.p))

    def getitem_at(self, h, i):
        return self._c(self.L.akb_getitem_at(h.p, i))

    def getitem_range(self, h, a, b):
        return self._c(self.L.akb_getitem_range(h.p, a, b))

    def getitem_field(self, h, key):
        return self._c(self.L.akb_getitem_field(h.p, key.encode()))

    def getitem_fields(self, h, keys):
        return self._c(self.L.akb_getitem_fields(h.p, _cstrs(keys), len(keys)))

    def getitem_nothing(self, h):
        return self._c(self.L.akb_getitem_nothing(h.p))

    def carry(self, h, idx, allow_lazy=False):
        ih = self.index({"k": "i64", "v": list(idx)})
        return self._c(self.L.akb_carry(h.p, ih.p, 1 if allow_lazy else 0))

    def shallow_copy(self, h):
        return self._c(self.L.akb_shallow_copy(h.p))

    def deep_copy(self, h, arrays=True, indexes=True, identities=True):
        return self._c(self.L.akb_deep_copy(h.p, int(arrays), int(indexes), int(identities)))

    def num(self, h, axis):
        return self._c(self.L.akb_num(h.p, axis))

    def flatten(self, h, axis):
        return self._c(self.L.akb_flatten(h.p, axis, None))

    def offsets_and_flattened(self, h, axis):
        out = c_void_p()
        c = self._c(self.L.akb_flatten(h.p, axis, byref(out)))
        return self._i(out.value), c

    def localindex(self, h, axis):
        return self._c(self.L.akb_localindex(h.p, axis))

    def reduce(self, h, name, axis, mask, keepdims):
        return self._c(self.L.akb_reduce(h.p, name.encode(), axis, int(mask), int(keepdims)))

    def sort(self, h, axis, ascending, stable):
        return self._c(self.L.akb_sort(h.p, axis, int(ascending), int(stable)))

    def argsort(self, h, axis, ascending, stable):
        return self._c(self.L.akb_argsort(h.p, axis, int(ascending), int(stable)))

    def combinations(self, h, n, replacement, keys, params, axis):
        params = params or {}
        pk = sorted(params)
        return self._c(self.L.akb_combinations(
            h.p, n, int(replacement), None if keys is None else _cstrs(keys), 0 if keys is None else len(keys),
            _cstrs(pk), _cstrs([params[k] for k in pk]), len(pk), axis))

    def rpad(self, h, target, axis, clip):
        return self._c(self.L.akb_rpad(h.p, target, axis, int(clip)))

    def fillna(self, h, value):
        return self._c(self.L.akb_fillna(h.p, value.p))

    def merge(self, h, other):
        return self._c(self.L.akb_merge(h.p, other.p))

    def merge_as_union(self, h, other):
        return self._c(self.L.akb_merge_as_union(h.p, other.p))

    def mergemany(self, h, others):
        arr = (c_void_p * max(1, len(others)))(*[x.p for x in others])
        return self._c(self.L.akb_mergemany(h.p, arr, len(others)))

    def mergeable(self, h, other, mergebool):
        return bool(self._n(self.L.akb_mergeable(h.p, other.p, int(mergebool))))

    def shallow_simplify(self, h):
        return self._c(self.L.akb_shallow_simplify(h.p))

    def numbers_to_type(self, h, name):
        return self._c(self.L.akb_numbers_to_type(h.p, name.encode()))

    def is_unique(self, h):
        return bool(self._n(self.L.akb_is_unique(h.p)))

    def unique(self, h):
        return self._c(self.L.akb_unique(h.p))

    def project(self, h):
        return self._c(self.L.akb_project(h.p))

    def union_project(self, h, which):
        return self._c(self.L.akb_union_project(h.p, which))

    def bytemask(self, h):
        return self._i(self.L.akb_bytemask(h.p))

    def simplify_optiontype(self, h):
        return self._c(self.L.akb_simplify_optiontype(h.p))

    def simplify_uniontype(self, h, merge=True, mergebool=False):
        return self._c(self.L.akb_simplify_uniontype(h.p, int(merge), int(mergebool)))

    def toIndexedOptionArray64(self, h):
        return self._c(self.L.akb_toIndexedOptionArray64(h.p))

    def toByteMaskedArray(self, h):
        return self._c(self.L.akb_toByteMaskedArray(h.p))

    def toListOffsetArray64(self, h, start_at_zero):
        return self._c(self.L.akb_toListOffsetArray64(h.p, int(start_at_zero)))

    def compact_offsets64(self, h, start_at_zero):
        return self._i(self.L.akb_compact_offsets64(h.p, int(start_at_zero)))

    def broadcast_tooffsets64(self, h, offsets):
        ih = self.index({"k": "i64", "v": list(offsets)})
        return self._c(self.L.akb_broadcast_tooffsets64(h.p, ih.p))

    def toRegularArray(self, h):
        return self._c(self.L.akb_toRegularArray(h.p))

    def numpy_contiguous(self, h):
        return self._c(self.L.akb_numpy_contiguous(h.p))

    def setitem_field_at(self, h, where, what):
        return self._c(self.L.akb_setitem_field_at(h.p, where, what.p))

    def setitem_field(self, h, key, what):
        return self._c(self.L.akb_setitem_field(h.p, key.encode(), what.p))
