"""Invalid layouts: a valid descriptor with exactly one documented rule broken at one node."""
from __future__ import print_function

import copy

import numpy as np

from vlib import model

RULES = [
    "offsets-decreasing", "offsets-beyond-content", "offsets-negative-start",
    "list-start-gt-stop", "list-stop-beyond-content", "list-start-negative", "list-stops-shorter",
    "indexed-index-beyond", "indexed-index-negative", "indexedoption-index-beyond",
    "bytemask-content-shorter", "bitmask-content-shorter", "bitmask-mask-shorter",
    "record-field-shorter",
    "union-tag-beyond", "union-tag-negative", "union-index-beyond", "union-index-negative", "union-index-shorter",
    "option-in-option", "union-in-union",
    "char-outside-string", "byte-outside-bytestring", "string-on-nonlist", "string-without-char",
    "char-not-uint8", "char-not-numpy", "categorical-not-unique", "categorical-on-nonindexed",
]


def _nodes(d, cls):
    return [(p, n) for p, n in model.walk(d) if n["c"] in cls]


def _nonempty_lists(rng, o):
    """positions i with o[i] != o[i+1]"""
    return [i for i in range(len(o) - 1) if o[i] != o[i + 1]]


def invalidate(rng, d, rule=None):
    """-> (descriptor, rule, path) or None when no rule applies to this layout"""
    rules = [rule] if rule else rng.sample(RULES, len(RULES))
    for r in rules:
        out = _apply(rng, d, r)
        if out is not None:
            nd, path = out
            return nd, r, list(path)
    return None


def _set(d, path, node):
    return model.replace_at(d, path, node)


def _apply(rng, d, rule):
    d = copy.deepcopy(d)
    if rule.startswith("offsets-"):
        cands = _nodes(d, ("ListOffsetArray",))
        rng.shuffle(cands)
        for path, n in cands:
            if model.param(n, "__array__") in ("string", "bytestring") and rule != "offsets-beyond-content":
                pass
            o = list(n["offsets"]["v"])
            L = model.length(n["content"])
            if rule == "offsets-decreasing":
                if len(o) < 2:
                    continue
                i = rng.randrange(len(o) - 1)
                o[i], o[i + 1] = max(o[i], o[i + 1]) + 1, min(o[i], o[i + 1])
                if o[i + 1] < 0:
                    continue
            elif rule == "offsets-beyond-content":
                if len(o) < 2:
                    continue
                o[-1] = L + rng.randint(1, 3)
                if o[-2] == o[-1]:
                    continue
            elif rule == "offsets-negative-start":
                if len(o) < 2 or n["w"] == "U32":
                    continue
                if o[1] <= -1:
                    continue
                o[0] = -rng.randint(1, 3)
                if o[0] == o[1]:
                    continue
            n2 = dict(n, offsets=dict(n["offsets"], v=o))
            return _set(d, path, n2), path
        return None
    if rule.startswith("list-"):
        cands = _nodes(d, ("ListArray",))
        rng.shuffle(cands)
        for path, n in cands:
            a, b = list(n["starts"]["v"]), list(n["stops"]["v"])
            L = model.length(n["content"])
            if rule == "list-stops-shorter":
                if not a:
                    continue
                b = b[:-1]
            else:
                if not a:
                    continue
                i = rng.randrange(len(a))
                if rule == "list-start-gt-stop":
                    a[i], b[i] = max(a[i], b[i]) + 1, min(a[i], b[i])
                elif rule == "list-stop-beyond-content":
                    b[i] = L + rng.randint(1, 3)
                    a[i] = min(a[i], L)
                    if a[i] == b[i]:
                        continue
                elif rule == "list-start-negative":
                    if n["w"] == "U32":
                        continue
                    a[i] = -rng.randint(1, 3)
                    b[i] = max(b[i], 0)
                    if b[i] > L:
                        b[i] = L
            n2 = dict(n, starts=dict(n["starts"], v=a), stops=dict(n["stops"], v=b))
            return _set(d, path, n2), path
        return None
    if rule in ("indexed-index-beyond", "indexed-index-negative", "indexedoption-index-beyond"):
        cls = ("IndexedOptionArray",) if rule.startswith("indexedoption") else ("IndexedArray",)
        cands = _nodes(d, cls)
        rng.shuffle(cands)
        for path, n in cands:
            ix = list(n["index"]["v"])
            if not ix:
                continue
            if model.param(n, "__array__") == "categorical":
                continue
            i = rng.randrange(len(ix))
            if rule.endswith("beyond"):
                ix[i] = model.length(n["content"]) + rng.randint(0, 2)
            else:
                if n["w"] == "U32":
                    continue
                ix[i] = -rng.randint(1, 3)
            return _set(d, path, dict(n, index=dict(n["index"], v=ix))), path
        return None
    if rule == "bytemask-content-shorter":
        cands = _nodes(d, ("ByteMaskedArray",))
        rng.shuffle(cands)
        for path, n in cands:
            m = list(n["mask"]["v"])
            extra = model.length(n["content"]) - len(m) + rng.randint(1, 2)
            m = m + [rng.choice([0, 1]) for _ in range(extra)]
            return _set(d, path, dict(n, mask=dict(n["mask"], v=m))), path
        return None
    if rule in ("bitmask-content-shorter", "bitmask-mask-shorter"):
        cands = _nodes(d, ("BitMaskedArray",))
        rng.shuffle(cands)
        for path, n in cands:
            m = list(n["mask"]["v"])
            L = model.length(n["content"])
            if rule == "bitmask-content-shorter":
                newlen = L + rng.randint(1, 2)
                while len(m) * 8 < newlen:
                    m.append(rng.randint(0, 255))
                return _set(d, path, dict(n, length=newlen, mask=dict(n["mask"], v=m))), path
            else:
                newlen = len(m) * 8 + rng.randint(1, 3)
                return _set(d, path, dict(n, length=newlen)), path
        return None
    if rule == "record-field-shorter":
        cands = [(p, n) for p, n in _nodes(d, ("RecordArray",)) if n["contents"]]
        rng.shuffle(cands)
        for path, n in cands:
            shortest = min(model.length(x) for x in n["contents"])
            return _set(d, path, dict(n, length=shortest + rng.randint(1, 2))), path
        return None
    if rule.startswith("union-") and rule != "union-in-union":
        cands = _nodes(d, ("UnionArray",))
        rng.shuffle(cands)
        for path, n in cands:
            tags, ix = list(n["tags"]["v"]), list(n["index"]["v"])
            if not tags:
                continue
            i = rng.randrange(len(tags))
            if rule == "union-tag-beyond":
                tags[i] = len(n["contents"]) + rng.randint(0, 1)
            elif rule == "union-tag-negative":
                tags[i] = -1
            elif rule == "union-index-beyond":
                ix[i] = model.length(n["contents"][tags[i]]) + rng.randint(0, 2)
            elif rule == "union-index-negative":
                if n["w"] == "U32":
                    continue
                ix[i] = -rng.randint(1, 2)
            elif rule == "union-index-shorter":
                ix = ix[:-1]
            return _set(d, path, dict(n, tags=dict(n["tags"], v=tags), index=dict(n["index"], v=ix))), path
        return None
    if rule == "option-in-option":
        cands = _nodes(d, model.OPTION_LIKE)
        rng.shuffle(cands)
        for path, n in cands:
            if model.param(n, "__array__") == "categorical":
                continue
            inner = n["content"]
            L = model.length(inner)
            kind = rng.choice(["UnmaskedArray", "IndexedOptionArray", "IndexedArray", "ByteMaskedArray"])
            if kind == "UnmaskedArray":
                wrapped = {"c": "UnmaskedArray", "content": inner, "params": {}}
            elif kind == "ByteMaskedArray":
                wrapped = {"c": "ByteMaskedArray", "mask": {"k": "i8", "v": [1] * L}, "valid_when": True,
                           "content": inner, "params": {}}
            else:
                wrapped = {"c": kind, "w": "64", "index": {"k": "i64", "v": list(range(L))}, "content": inner,
                           "params": {}}
            return _set(d, path, dict(n, content=wrapped)), path
        return None
    if rule == "union-in-union":
        cands = _nodes(d, ("UnionArray",))
        rng.shuffle(cands)
        for path, n in cands:
            j = rng.randrange(len(n["contents"]))
            inner = n["contents"][j]
            L = model.length(inner)
            wrapped = {"c": "UnionArray", "w": "64", "tags": {"k": "i8", "v": [0] * L},
                       "index": {"k": "i64", "v": list(range(L))},
                       "contents": [inner, {"c": "EmptyArray", "params": {}}], "params": {}}
            cs = list(n["contents"])
            cs[j] = wrapped
            return _set(d, path, dict(n, contents=cs)), path
        return None
    if rule in ("char-outside-string", "byte-outside-bytestring"):
        cands = [(p, n) for p, n in _nodes(d, ("NumpyArray", "ListOffsetArray", "ListArray", "RegularArray",
                                                 "RecordArray"))
                 if model.param(n, "__array__") is None]
        # not the direct content of a string (that one legitimately carries char)
        rng.shuffle(cands)
        for path, n in cands:
            mark = "\"char\"" if rule.startswith("char") else "\"byte\""
            return _set(d, path, dict(n, params=dict(n.get("params") or {}, __array__=mark))), path
        return None
    if rule == "string-on-nonlist":
        cands = [(p, n) for p, n in _nodes(d, ("NumpyArray", "RecordArray", "IndexedOptionArray", "ByteMaskedArray",
                                                 "UnionArray", "EmptyArray"))
                 if model.param(n, "__array__") is None]
        rng.shuffle(cands)
        for path, n in cands:
            mark = rng.choice(["\"string\"", "\"bytestring\""])
            return _set(d, path, dict(n, params=dict(n.get("params") or {}, __array__=mark))), path
        return None
    if rule in ("string-without-char", "char-not-uint8", "char-not-numpy"):
        cands = [(p, n) for p, n in _nodes(d, model.LIST) if model.param(n, "__array__") in ("string", "bytestring")]
        rng.shuffle(cands)
        for path, n in cands:
            ct = n["content"]
            if rule == "string-without-char":
                ct2 = dict(ct, params={})
            elif rule == "char-not-uint8":
                arr = model.np_view(ct).astype(np.int8 if rng.random() < 0.5 else np.int64)
                ct2 = model.np_desc(np.ascontiguousarray(arr), ct["params"])
            else:
                L = model.length(ct)
                ct2 = {"c": "RegularArray", "size": 1, "length": L, "content": dict(ct, params={}),
                       "params": dict(ct["params"])}
            return _set(d, path, dict(n, content=ct2)), path
        return None
    if rule == "categorical-not-unique":
        cands = [(p, n) for p, n in _nodes(d, ("IndexedArray", "IndexedOptionArray"))
                 if model.param(n, "__array__") == "categorical" and n["content"]["c"] == "NumpyArray"
                 and model.length(n["content"]) >= 2]
        rng.shuffle(cands)
        for path, n in cands:
            arr = np.array(model.np_view(n["content"]))
            arr[-1] = arr[0]
            return _set(d, path, dict(n, content=model.np_desc(arr, n["content"]["params"]))), path
        return None
    if rule == "categorical-on-nonindexed":
        cands = [(p, n) for p, n in _nodes(d, ("NumpyArray", "ListOffsetArray", "RecordArray", "RegularArray"))
                 if model.param(n, "__array__") is None]
        rng.shuffle(cands)
        for path, n in cands:
            return _set(d, path, dict(n, params=dict(n.get("params") or {}, __array__="\"categorical\""))), path
        return None
    raise ValueError(rule)
