"""Seeded generators: abstract types, values of a type, and physical encodings of (type, values).

A layout is generated in three steps so that *re-encodings* (C02, C09) are free:

    T    = gen_type(rng, cfg)               abstract type (JSON-able dict)
    vals = gen_values(rng, T, n, cfg)       'tagged' values: union members are U(arm, v)
    desc = encode(rng, T, vals, style)      descriptor (what bridge.build consumes / akb_describe returns)

Two calls of encode with different rng give two layouts with the same type and the same model value but
different node classes, index widths, offset origins, gaps, overlaps, IndexedArray indirections, option
encodings and strides; style="canonical" gives the compact 64-bit zero-based contiguous form.
"""
from __future__ import print_function

import json

import numpy as np

from vlib import model

INT_DTYPES = ["int8", "int16", "int32", "int64", "uint8", "uint16", "uint32", "uint64"]
FLOAT_DTYPES = ["float32", "float64"]
COMPLEX_DTYPES = ["complex64", "complex128"]
TIME_DTYPES = ["datetime64[s]", "timedelta64[s]", "datetime64[ms]"]
ALL_DTYPES = ["bool"] + INT_DTYPES + FLOAT_DTYPES + COMPLEX_DTYPES + TIME_DTYPES


class U(object):
    """a union member: which arm it belongs to and its (tagged) value"""
    __slots__ = ("arm", "v")

    def __init__(self, arm, v):
        self.arm, self.v = arm, v

    def __repr__(self):
        return "U(%d,%r)" % (self.arm, self.v)


def plain(v):
    """strip union tags: tagged value -> model value"""
    if isinstance(v, U):
        return plain(v.v)
    if isinstance(v, list):
        return [plain(x) for x in v]
    if isinstance(v, tuple):
        return tuple(plain(x) for x in v)
    if isinstance(v, dict):
        return dict((k, plain(x)) for k, x in v.items())
    return v


class Cfg(object):
    def __init__(self, tier="quick", **kw):
        big = tier == "thorough"
        self.maxdepth = 4 if big else 3
        self.maxlen = 9 if big else 5          # list lengths / top length
        self.dtypes = list(ALL_DTYPES)
        self.nan = True
        self.inf = True
        self.extremes = True
        self.options = True
        self.records = True
        self.unions = True
        self.strings = True
        self.regular = True
        self.unknown = True
        self.categorical = False
        self.indexed = True                    # allow IndexedArray indirection
        self.params = True                     # random parameters on nodes
        self.ndnumpy = True                    # fold regular dims into an n-d NumpyArray
        self.virtual = False
        self.p_none = 0.25
        self.zero_fields = False
        self.__dict__.update(kw)


# ------------------------------------------------------------------ types

def P(dtype):
    return {"t": "prim", "d": dtype}


def gen_type(rng, cfg, depth=0, no_option=False, no_union=False):
    room = cfg.maxdepth - depth
    w = [("prim", 40)]
    if room > 0:
        w.append(("list", 30))
        if cfg.regular:
            w.append(("regular", 8))
        if cfg.records:
            w.append(("record", 9))
        if cfg.unions and not no_union:
            w.append(("union", 5))
    if cfg.options and not no_option:
        w.append(("option", 14 if room > 0 else 8))
    if cfg.strings:
        w.append(("string", 6))
        if getattr(cfg, "bytestrings", True):
            w.append(("bytes", 1))
    if cfg.categorical and not no_option:
        w.append(("categorical", 1))
    kind = _weighted(rng, w)
    T = None
    if kind == "prim":
        T = P(rng.choice(cfg.dtypes))
    elif kind == "list":
        T = {"t": "list", "e": gen_type(rng, cfg, depth + 1)}
    elif kind == "regular":
        T = {"t": "regular", "e": gen_type(rng, cfg, depth + 1), "size": rng.choice([0, 1, 1, 2, 2, 3])}
    elif kind == "option":
        T = {"t": "option", "e": gen_type(rng, cfg, depth, no_option=True, no_union=no_union)}
    elif kind == "record":
        nf = rng.choice([0, 1, 1, 2, 2, 3]) if cfg.zero_fields else rng.choice([1, 1, 2, 2, 3])
        istuple = rng.random() < 0.25
        fields = [gen_type(rng, cfg, depth + 1) for _ in range(nf)]
        keys = None if istuple else rng.sample(["x", "y", "z", "a b", "w"], nf)
        T = {"t": "record", "fields": fields, "keys": keys}
        if rng.random() < 0.3:
            T["name"] = rng.choice(["Point", "Vec", "pair"])
    elif kind == "union":
        k = rng.choice([2, 2, 3])
        arms = []
        tries = 0
        while len(arms) < k and tries < 20:
            tries += 1
            a = gen_type(rng, cfg, depth + 1, no_union=True)
            if all(not _mergeable(a, b) for b in arms):
                arms.append(a)
        if len(arms) < 2:
            T = P(rng.choice(cfg.dtypes))
        else:
            T = {"t": "union", "arms": arms}
    elif kind == "string":
        T = {"t": "string"}
    elif kind == "bytes":
        T = {"t": "bytes"}
    elif kind == "categorical":
        T = {"t": "categorical", "e": rng.choice([P("int64"), P("float64"), {"t": "string"}])}
    if cfg.params and T["t"] in ("prim", "list", "regular", "record") and rng.random() < 0.08:
        T["p"] = rng.choice([{"__doc__": "\"note\""}, {"k": "1"}, {"units": "\"cm\"", "k": "[1, 2]"}])
    return T


def _weighted(rng, pairs):
    tot = sum(w for _, w in pairs)
    x = rng.random() * tot
    for k, w in pairs:
        x -= w
        if x < 0:
            return k
    return pairs[-1][0]


def _kindclass(T):
    t = T["t"]
    if t == "prim":
        d = T["d"]
        if d == "bool":
            return "bool"
        if d.startswith("datetime"):
            return "datetime"
        if d.startswith("timedelta"):
            return "timedelta"
        return "number"
    return t


def _mergeable(a, b):
    """conservative: could the library merge a and b into one non-union type?"""
    if a["t"] == "option":
        return _mergeable(a["e"], b)
    if b["t"] == "option":
        return _mergeable(a, b["e"])
    ka, kb = _kindclass(a), _kindclass(b)
    if "unknown" in (ka, kb):
        return True
    if ka != kb:
        if set([ka, kb]) == set(["list", "regular"]):
            return True
        return False
    return True       # same kind: assume mergeable (keeps union arms clearly distinct)


def depth_of(T):
    """purelist depth of the type: (min, max)"""
    t = T["t"]
    if t in ("prim", "unknown"):
        return (1, 1)
    if t in ("string", "bytes"):
        return (1, 1)
    if t in ("list", "regular"):
        a, b = depth_of(T["e"])
        return (a + 1, b + 1)
    if t in ("option", "categorical"):
        return depth_of(T["e"])
    if t == "record":
        if not T["fields"]:
            return (1, 1)
        ds = [depth_of(f) for f in T["fields"]]
        return (min(d[0] for d in ds), max(d[1] for d in ds))
    if t == "union":
        ds = [depth_of(f) for f in T["arms"]]
        return (min(d[0] for d in ds), max(d[1] for d in ds))
    raise ValueError(t)


# ------------------------------------------------------------------ values

def _np_dtype(d):
    return np.dtype(d)


def gen_prim(rng, d, cfg):
    dt = np.dtype(d)
    k = dt.kind
    if k == "b":
        return bool(rng.getrandbits(1))
    if k in "iu":
        info = np.iinfo(dt)
        r = rng.random()
        if cfg.extremes and r < 0.06:
            return int(rng.choice([info.min, info.max, info.max - 1, info.min + 1]))
        lo = 0 if k == "u" else -3
        return rng.randint(lo, 5)
    if k == "f":
        r = rng.random()
        if cfg.nan and r < 0.07:
            return float("nan")
        if cfg.inf and r < 0.12:
            return rng.choice([float("inf"), float("-inf")])
        if r < 0.2:
            return rng.choice([0.0, -0.0])
        if cfg.extremes and r < 0.24:
            fi = np.finfo(dt)
            return float(rng.choice([fi.max, -fi.max, fi.tiny, fi.eps]))
        x = rng.choice([1.5, -2.25, 3.0, 0.5, 2.0, -1.0, 4.75, 1.0, 0.1, 7.125])
        return float(np.asarray(x, dtype=dt))
    if k == "c":
        re = gen_prim(rng, "float32" if dt.itemsize == 8 else "float64", Cfg(nan=False, inf=False, extremes=False))
        im = gen_prim(rng, "float32" if dt.itemsize == 8 else "float64", Cfg(nan=False, inf=False, extremes=False))
        return complex(re, im)
    if k in "Mm":
        return "%s:%d" % (dt.str.lstrip("<>=|"), rng.randint(-5, 50))
    raise ValueError(d)


def gen_value(rng, T, cfg, depth=0):
    t = T["t"]
    if t == "prim":
        return gen_prim(rng, T["d"], cfg)
    if t == "list":
        n = 0 if T["e"]["t"] == "unknown" else _len(rng, cfg, depth)
        return [gen_value(rng, T["e"], cfg, depth + 1) for _ in range(n)]
    if t == "regular":
        return [gen_value(rng, T["e"], cfg, depth + 1) for _ in range(T["size"])]
    if t == "option":
        if rng.random() < cfg.p_none:
            return None
        return gen_value(rng, T["e"], cfg, depth)
    if t == "record":
        vs = [gen_value(rng, f, cfg, depth + 1) for f in T["fields"]]
        if T["keys"] is None:
            return tuple(vs)
        return dict(zip(T["keys"], vs))
    if t == "union":
        arm = rng.randrange(len(T["arms"]))
        return U(arm, gen_value(rng, T["arms"][arm], cfg, depth + 1))
    if t == "string":
        n = rng.choice([0, 1, 2, 3, 5])
        return "".join(rng.choice(["a", "b", "c", "z", "A", " ", "é", "中", "\"", "\\", "\n", "0"]) for _ in range(n))
    if t == "bytes":
        n = rng.choice([0, 1, 2, 4])
        return bytes(bytearray(rng.choice([0, 1, 65, 66, 127, 128, 255]) for _ in range(n)))
    if t == "categorical":
        v = gen_value(rng, T["e"], Cfg(nan=False, inf=False, extremes=False), depth)
        if v == "" and not getattr(cfg, "cat_empty", False):
            v = "q"        # known finding F6: is_unique() miscounts the empty string (kept out of the common stream)
        return v
    if t == "unknown":
        raise ValueError("no values of unknown type")
    raise ValueError(t)


def _len(rng, cfg, depth):
    r = rng.random()
    if r < 0.22:
        return 0
    if r < 0.4:
        return 1
    return rng.randint(2, max(2, cfg.maxlen - depth))


def gen_values(rng, T, n, cfg):
    T2 = T
    return [gen_value(rng, T2, cfg) for _ in range(n)]


def resolve_unknown(rng, T, cfg):
    """with some probability turn a list-of-X into a list-of-unknown (all lists will be empty)"""
    return T


# ------------------------------------------------------------------ encoding

WIDTHS = ["32", "U32", "64"]


def _index(rng, k, v, style):
    d = {"k": k, "v": [int(x) for x in v]}
    if style != "canonical" and rng.random() < 0.15:
        d["pre"] = rng.randint(1, 3)
        d["post"] = rng.randint(0, 2)
    return d


CONTIGUOUS_LEAVES = False      # checks may switch strided / reversed leaf buffers off for a stream


def _numpy_phys(rng, arr, style):
    """a view with the same logical content as arr but a random physical layout"""
    arr = np.ascontiguousarray(arr)
    if style == "canonical" or arr.ndim == 0:
        return arr
    r = rng.random()
    if CONTIGUOUS_LEAVES and r >= 0.7:
        r = 0.6
    if r < 0.55:
        return arr
    n = arr.shape[0]
    if r < 0.7:       # embedded at an offset in a larger buffer
        pre, post = rng.randint(1, 3), rng.randint(0, 2)
        big = _junk(rng, (pre + n + post,) + arr.shape[1:], arr.dtype)
        big[pre:pre + n] = arr
        return big[pre:pre + n]
    if r < 0.85:      # every second element of a bigger buffer
        big = _junk(rng, (2 * n + 1,) + arr.shape[1:], arr.dtype)
        big[0:2 * n:2] = arr
        return big[0:2 * n:2]
    # reversed (negative stride)
    big = np.ascontiguousarray(arr[::-1])
    return big[::-1]


def _junk(rng, shape, dtype):
    dt = np.dtype(dtype)
    size = int(np.prod(shape)) if len(shape) else 1
    if dt.kind in "Mm":
        return np.array([rng.randint(60, 99) for _ in range(size)], dtype=np.int64).astype(dt).reshape(shape)
    if dt.kind == "c":
        return np.array([complex(rng.randint(60, 99), 1) for _ in range(size)]).astype(dt).reshape(shape)
    return np.array([rng.randint(60, 99) for _ in range(size)]).astype(dt).reshape(shape)


def _to_np(vals, d):
    dt = np.dtype(d)
    if dt.kind in "Mm":
        ints = _map_leaves(vals, lambda s: int(s.split(":")[1]))
        return np.array(ints, dtype=np.int64).astype(dt)
    return np.array(vals, dtype=dt)


def _map_leaves(v, f):
    if isinstance(v, list):
        return [_map_leaves(x, f) for x in v]
    return f(v)


def _fold_shape(T):
    """regular->regular->...->prim chain without parameters: (inner shape, dtype) or None"""
    shape = []
    while T["t"] == "regular" and not T.get("p") and T["size"] > 0:
        shape.append(T["size"])
        T = T["e"]
    if T["t"] == "prim" and not T.get("p") and shape:
        return shape, T["d"]
    return None


def encode(rng, T, vals, style="random", cfg=None, no_indexed=False):
    """(type, tagged values) -> descriptor of length len(vals)"""
    cfg = cfg or Cfg()
    canonical = style == "canonical"
    t = T["t"]
    params = dict(T.get("p") or {})

    # optional IndexedArray indirection around any non-option node
    if (not canonical and cfg.indexed and not no_indexed and t not in ("option", "categorical", "unknown")
            and rng.random() < 0.12):
        n = len(vals)
        extra = gen_values(rng, T, rng.randint(0, 2), cfg) if _can_gen(T) else []
        pool = list(vals) + extra
        order = list(range(len(pool)))
        rng.shuffle(order)
        content = encode(rng, T, [pool[i] for i in order], style, cfg, no_indexed=True)
        pos = dict((src, dst) for dst, src in enumerate(order))
        w = rng.choice(WIDTHS)
        return {"c": "IndexedArray", "w": w, "index": _index(rng, model_k(w), [pos[i] for i in range(n)], style),
                "content": content, "params": {}}

    if t == "prim":
        arr = _to_np(vals, T["d"]) if len(vals) else np.zeros(0, dtype=np.dtype(T["d"]))
        return model.np_desc(_numpy_phys(rng, arr, style), params)

    if t == "unknown":
        assert len(vals) == 0
        return {"c": "EmptyArray", "params": params}

    if t in ("string", "bytes"):
        raw = [list(bytearray(v.encode("utf-8", "surrogateescape") if isinstance(v, str) else v)) for v in vals]
        inner = model.np_desc  # noqa
        d = _encode_lists(rng, P("uint8"), raw, style, cfg, allow_regular=False, leafparams={
            "__array__": "\"char\"" if t == "string" else "\"byte\""})
        d["params"] = dict(params, __array__="\"string\"" if t == "string" else "\"bytestring\"")
        return d

    if t == "list":
        d = _encode_lists(rng, T["e"], vals, style, cfg, allow_regular=False)
        d["params"] = params
        return d

    if t == "regular":
        size = T["size"]
        n = len(vals)
        fold = _fold_shape(T) if cfg.ndnumpy else None
        if fold is not None and (canonical is False) and rng.random() < 0.5:
            shape, d = fold
            arr = _to_np(vals, d) if n else np.zeros((0,) + tuple(shape), dtype=np.dtype(d))
            arr = arr.reshape((n,) + tuple(shape))
            return model.np_desc(_numpy_phys(rng, arr, style), params)
        flat = [x for v in vals for x in v]
        if not canonical and size > 0 and _can_gen(T["e"]) and rng.random() < 0.2:
            flat = flat + gen_values(rng, T["e"], rng.randint(1, size) - 1 if size > 1 else 0, cfg)
        content = encode(rng, T["e"], flat, style, cfg)
        return {"c": "RegularArray", "size": size, "length": n, "content": content, "params": params}

    if t == "option":
        return _encode_option(rng, T, vals, style, cfg, params)

    if t == "categorical":
        cats = []
        index = []
        for v in vals:
            key = model._freeze(v)
            for j, c in enumerate(cats):
                if model._freeze(c) == key:
                    index.append(j)
                    break
            else:
                cats.append(v)
                index.append(len(cats) - 1)
        content = encode(rng, T["e"], cats, style, cfg, no_indexed=True)
        w = "64" if canonical else rng.choice(WIDTHS)
        return {"c": "IndexedArray", "w": w, "index": _index(rng, model_k(w), index, style), "content": content,
                "params": dict(params, __array__="\"categorical\"")}

    if t == "record":
        n = len(vals)
        contents = []
        for i, f in enumerate(T["fields"]):
            col = [(v[i] if T["keys"] is None else v[T["keys"][i]]) for v in vals]
            if not canonical and _can_gen(f) and rng.random() < 0.25:
                col = col + gen_values(rng, f, rng.randint(1, 2), cfg)
            contents.append(encode(rng, f, col, style, cfg))
        p = dict(params)
        if T.get("name"):
            p["__record__"] = json.dumps(T["name"])
        return {"c": "RecordArray", "length": n, "keys": None if T["keys"] is None else list(T["keys"]),
                "contents": contents, "params": p}

    if t == "union":
        arms = T["arms"]
        pools = [[] for _ in arms]
        tags, index = [], []
        slots = [[] for _ in arms]   # (position in vals)
        for v in vals:
            tags.append(v.arm)
            slots[v.arm].append(v.v)
        # arrange each arm's content: its members, possibly shuffled and with unreachable extras
        perm = []
        for a, members in enumerate(slots):
            pool = list(members)
            if not canonical and _can_gen(arms[a]) and rng.random() < 0.3:
                pool = pool + gen_values(rng, arms[a], rng.randint(1, 2), cfg)
            order = list(range(len(pool)))
            if not canonical and rng.random() < 0.4:
                rng.shuffle(order)
            pools[a] = [pool[i] for i in order]
            perm.append(dict((src, dst) for dst, src in enumerate(order)))
        counters = [0] * len(arms)
        for v in vals:
            index.append(perm[v.arm][counters[v.arm]])
            counters[v.arm] += 1
        w = "64" if canonical else rng.choice(WIDTHS)
        return {"c": "UnionArray", "w": w, "tags": _index(rng, "i8", tags, style),
                "index": _index(rng, model_k(w), index, style),
                "contents": [encode(rng, arms[a], pools[a], style, cfg) for a in range(len(arms))],
                "params": params}
    raise ValueError(t)


def model_k(w):
    return {"32": "i32", "U32": "u32", "64": "i64"}[w]


def _can_gen(T):
    t = T["t"]
    if t == "unknown":
        return False
    if t in ("list", "regular", "option", "categorical"):
        return _can_gen(T["e"]) if (t != "list") else True
    if t == "record":
        return all(_can_gen(f) for f in T["fields"])
    if t == "union":
        return all(_can_gen(f) for f in T["arms"])
    return True


def _encode_lists(rng, E, lists, style, cfg, allow_regular, leafparams=None):
    """variable-length lists of element type E"""
    canonical = style == "canonical"
    n = len(lists)

    def enc_content(flat):
        if leafparams is not None:
            arr = np.array(flat, dtype=np.uint8)
            d = model.np_desc(arr if canonical else _numpy_phys(rng, arr, "canonical"), leafparams)
            return d
        return encode(rng, E, flat, style, cfg)

    def junk(k):
        if leafparams is not None:
            return [rng.randint(97, 122) for _ in range(k)]
        if E["t"] == "unknown" or not _can_gen(E):
            return []
        return gen_values(rng, E, k, cfg)

    if canonical or rng.random() < 0.55:
        # ListOffsetArray
        w = "64" if canonical else rng.choice(WIDTHS)
        pre = [] if canonical or rng.random() < 0.6 else junk(rng.randint(1, 3))
        post = [] if canonical or rng.random() < 0.7 else junk(rng.randint(1, 2))
        flat = list(pre)
        offsets = [len(flat)]
        for l in lists:
            flat.extend(l)
            offsets.append(len(flat))
        flat.extend(post)
        return {"c": "ListOffsetArray", "w": w, "offsets": _index(rng, model_k(w), offsets, style),
                "content": enc_content(flat), "params": {}}
    # ListArray: lists placed in arbitrary order, with gaps; equal lists may share storage
    w = rng.choice(WIDTHS)
    order = list(range(n))
    rng.shuffle(order)
    flat = []
    starts, stops = [0] * n, [0] * n
    placed = {}
    for i in order:
        l = lists[i]
        if rng.random() < 0.3:
            flat.extend(junk(rng.randint(1, 2)))
        key = repr(l)
        if len(l) == 0:
            s = rng.randint(0, 7) if rng.random() < 0.5 else len(flat)    # empty list: any start == stop
            starts[i], stops[i] = s, s
            continue
        if key in placed and rng.random() < 0.5:
            starts[i], stops[i] = placed[key]                               # overlap: same storage twice
            continue
        starts[i] = len(flat)
        flat.extend(l)
        stops[i] = len(flat)
        placed[key] = (starts[i], stops[i])
    if rng.random() < 0.3:
        flat.extend(junk(rng.randint(1, 2)))
    return {"c": "ListArray", "w": w, "starts": _index(rng, model_k(w), starts, style),
            "stops": _index(rng, model_k(w), stops, style), "content": enc_content(flat), "params": {}}


def _encode_option(rng, T, vals, style, cfg, params):
    canonical = style == "canonical"
    E = T["e"]
    n = len(vals)
    has_none = any(v is None for v in vals)
    choices = ["IndexedOptionArray", "ByteMaskedArray", "BitMaskedArray"]
    if not has_none:
        choices.append("UnmaskedArray")
        choices.append("UnmaskedArray")
    kind = "IndexedOptionArray" if canonical else rng.choice(choices)
    if T.get("force"):
        kind = T["force"]
    cangen = _can_gen(E)

    def filler():
        return gen_value(rng, E, cfg)

    if kind == "IndexedOptionArray":
        pool = [v for v in vals if v is not None]
        positions = list(range(len(pool)))
        if not canonical:
            if cangen and rng.random() < 0.3:
                pool = pool + [filler() for _ in range(rng.randint(1, 2))]
            order = list(range(len(pool)))
            if rng.random() < 0.4:
                rng.shuffle(order)
            pos = dict((src, dst) for dst, src in enumerate(order))
            pool = [pool[i] for i in order]
            positions = [pos[i] for i in positions]
        index, j = [], 0
        for v in vals:
            if v is None:
                index.append(-1 if canonical or rng.random() < 0.7 else -rng.randint(2, 9))
            else:
                index.append(positions[j])
                j += 1
        w = "64" if canonical else rng.choice(["32", "64"])
        return {"c": "IndexedOptionArray", "w": w, "index": _index(rng, model_k(w), index, style),
                "content": encode(rng, E, pool, style, cfg, no_indexed=True), "params": params}
    if kind == "UnmaskedArray":
        return {"c": "UnmaskedArray", "content": encode(rng, E, list(vals), style, cfg, no_indexed=True),
                "params": params}
    # masked: content holds something at every position
    if has_none and not cangen:
        # cannot invent fillers (unknown type): fall back to indexed option
        T2 = dict(T, force="IndexedOptionArray")
        return _encode_option(rng, T2, vals, style, cfg, params)
    content_vals = [filler() if v is None else v for v in vals]
    extra = rng.randint(0, 2) if cangen and rng.random() < 0.3 else 0
    content_vals = content_vals + [filler() for _ in range(extra)]
    valid_when = rng.random() < 0.5
    if kind == "ByteMaskedArray":
        mask = []
        for v in vals:
            ok = v is not None
            if ok == valid_when:
                mask.append(1 if rng.random() < 0.8 else rng.choice([2, -1, 127]))
            else:
                mask.append(0)
        return {"c": "ByteMaskedArray", "mask": _index(rng, "i8", mask, style), "valid_when": valid_when,
                "content": encode(rng, E, content_vals, style, cfg, no_indexed=True), "params": params}
    lsb = rng.random() < 0.5
    nbytes = (n + 7) // 8 + (1 if rng.random() < 0.2 else 0)
    bytes_ = [rng.randint(0, 255) for _ in range(nbytes)]     # spare bits random
    for i, v in enumerate(vals):
        bit = 1 if ((v is not None) == valid_when) else 0
        sh = (i % 8) if lsb else (7 - i % 8)
        bytes_[i // 8] = (bytes_[i // 8] & ~(1 << sh)) | (bit << sh)
    return {"c": "BitMaskedArray", "mask": _index(rng, "u8", bytes_, style), "valid_when": valid_when,
            "length": n, "lsb_order": lsb,
            "content": encode(rng, E, content_vals, style, cfg, no_indexed=True), "params": params}


# ------------------------------------------------------------------ convenience

def layout(rng, cfg, T=None, n=None, style="random", min_depth=None):
    """-> (T, tagged values, descriptor)"""
    for _ in range(50):
        T0 = T or gen_type(rng, cfg)
        if min_depth is not None and depth_of(T0)[0] < min_depth:
            if T is not None:
                break
            continue
        break
    T = T0
    if n is None:
        r = rng.random()
        n = 0 if r < 0.08 else (1 if r < 0.18 else rng.randint(2, cfg.maxlen + 1))
    vals = gen_values(rng, T, n, cfg)
    T = _maybe_unknown(rng, T, vals, cfg)
    return T, vals, encode(rng, T, vals, style, cfg)


def _maybe_unknown(rng, T, vals, cfg):
    """where every list at some list level is empty, the element type may be 'unknown' (EmptyArray)"""
    if not cfg.unknown:
        return T
    t = T["t"]
    if t == "list":
        items = [x for v in vals for x in v]
        if not items and rng.random() < 0.5:
            return dict(T, e={"t": "unknown"})
        return dict(T, e=_maybe_unknown(rng, T["e"], items, cfg))
    if t == "regular":
        items = [x for v in vals for x in v]
        return dict(T, e=_maybe_unknown(rng, T["e"], items, cfg))
    if t == "option":
        items = [v for v in vals if v is not None]
        e = _maybe_unknown(rng, T["e"], items, cfg)
        return dict(T, e=e)
    if t == "record":
        fs = []
        for i, f in enumerate(T["fields"]):
            col = [(v[i] if T["keys"] is None else v[T["keys"][i]]) for v in vals]
            fs.append(_maybe_unknown(rng, f, col, cfg))
        return dict(T, fields=fs)
    return T


def typestr(T):
    """compact human-readable form for coverage maps"""
    t = T["t"]
    if t == "prim":
        return T["d"]
    if t == "list":
        return "var*" + typestr(T["e"])
    if t == "regular":
        return "%d*%s" % (T["size"], typestr(T["e"]))
    if t == "option":
        return "?" + typestr(T["e"])
    if t == "record":
        return "{" + ",".join(typestr(f) for f in T["fields"]) + "}"
    if t == "union":
        return "U[" + ",".join(typestr(f) for f in T["arms"]) + "]"
    if t == "categorical":
        return "cat[" + typestr(T["e"]) + "]"
    return t
