"""Worker subprocesses, journal, watchdog, verdicts and evidence.

A check module (checks/cNN.py) defines

    PROPERTY = "C07"; LEVEL = "exploration"; RULE = "..."
    VARIANTS = {"quick": ["asan"], "thorough": ["plain", "asan"]}     # builds it drives
    BUDGET   = {"quick": dict(cases=4000, seconds=60), "thorough": dict(cases=..., seconds=...)}
    MIN_NONTRIVIAL = {"quick": 200, "thorough": 2000}    # below that: INCONCLUSIVE
    def gen_case(rng, tier, index) -> JSON-able case descriptor
    def run_case(ctx, case) -> None          # monitors call ctx.violation / ctx.cover / ...
    def classify(violation) -> mechanism id of a known finding, or None   (optional)

The parent (this module's `main`) fans the case stream over worker
subprocesses.  Case i of stream s is generated from
random.Random(f"{seed}/{s}/{i}") so that any case replays alone and a worker that
died is restarted right after the case that killed it.  A worker writes
"C <i> <descriptor>" to its journal before invoking and "R <i>" after; a death
with an open call is the event the crash monitor observes.
"""
from __future__ import print_function

import glob
import hashlib
import importlib
import json
import os
import random
import shutil
import signal
import subprocess
import sys
import tempfile
import time
import traceback

HERE = os.path.dirname(os.path.dirname(os.path.abspath(__file__)))
sys.path.insert(0, HERE)
import vbuild  # noqa: E402

PY = "/venv/bin/python"
NWORKERS = int(os.environ.get("VERIF_WORKERS", "16"))


def canon(obj):
    return json.dumps(obj, sort_keys=True, separators=(",", ":"), default=_default)


def _default(o):
    try:
        import numpy
        if isinstance(o, numpy.generic):
            return o.item()
        if isinstance(o, numpy.ndarray):
            return o.tolist()
    except ImportError:
        pass
    if isinstance(o, bytes):
        return {"__bytes__": o.hex()}
    if isinstance(o, (set, frozenset)):
        return sorted(o)
    if isinstance(o, complex):
        return {"__complex__": [o.real, o.imag]}
    return repr(o)


def digest(obj):
    return hashlib.sha1(canon(obj).encode()).hexdigest()


def case_rng(seed, stream, index):
    return random.Random("%s/%s/%s" % (seed, stream, index))


class Violation(Exception):
    pass


class Ctx(object):
    """What a check's run_case sees."""

    def __init__(self, module, variant, tier, seed, builddir):
        self.module = module
        self.variant = variant
        self.tier = tier
        self.seed = seed
        self.builddir = builddir
        self.cover_maps = {}
        self.counters = {}
        self.violations = []
        self.samples = []
        self.distinct = set()
        self.evaluations = 0
        self.case = None
        self._nontrivial = False
        self._lib = None
        self.notes = []

    # -- services for monitors
    @property
    def lib(self):
        if self._lib is None:
            from vlib import bridge
            self._lib = bridge.Bridge(self.builddir)
        return self._lib

    def cover(self, name, key, n=1):
        m = self.cover_maps.setdefault(name, {})
        key = str(key)
        m[key] = m.get(key, 0) + n

    def count(self, name, n=1):
        self.counters[name] = self.counters.get(name, 0) + n

    def nontrivial(self, flag=True):
        if flag:
            self._nontrivial = True

    def sample(self, obj, cap=4):
        if len(self.samples) < cap:
            self.samples.append(json.loads(canon(obj)))

    def violation(self, kind, detail, prop=None):
        self.violations.append({
            "property": prop or self.module.PROPERTY,
            "kind": kind,
            "detail": json.loads(canon(detail)),
            "case": self.case,
            "variant": self.variant,
        })

    def note(self, text):
        if len(self.notes) < 20 and text not in self.notes:
            self.notes.append(text)

    # -- bookkeeping
    def begin(self, case):
        self.case = case
        self._nontrivial = False
        self.evaluations += 1

    def end(self):
        if self._nontrivial:
            self.distinct.add(digest(self.case))

    def dump(self, path):
        tmp = path + ".tmp"
        with open(tmp, "w") as f:
            json.dump({
                "cover": self.cover_maps, "counters": self.counters,
                "violations": self.violations, "samples": self.samples,
                "distinct": sorted(self.distinct), "evaluations": self.evaluations,
                "notes": self.notes,
            }, f)
        os.replace(tmp, path)


# ---------------------------------------------------------------- worker side

def worker_main(modname, variant, tier, seed, stream, start, stop, deadline, workdir, builddir):
    module = importlib.import_module(modname)
    ctx = Ctx(module, variant, tier, seed, builddir)
    attempt = 0
    while os.path.exists(os.path.join(workdir, "result.%s.%d.json" % (stream, attempt))):
        attempt += 1
    respath = os.path.join(workdir, "result.%s.%d.json" % (stream, attempt))
    journal = open(os.path.join(workdir, "journal.%s" % stream), "a")
    last_dump = t_start = time.time()
    i = start
    while i < stop and time.time() < deadline:
        rng = case_rng(seed, stream, i)
        try:
            case = module.gen_case(rng, tier, i)
        except Exception:
            ctx.count("generator_errors")
            ctx.note("generator error: " + traceback.format_exc()[-600:])
            i += 1
            continue
        journal.write("C %d %s\n" % (i, canon(case)))
        journal.flush()
        ctx.begin(case)
        try:
            module.run_case(ctx, case)
        except Exception:
            ctx.count("harness_errors")
            ctx.note("harness error: " + traceback.format_exc()[-1500:])
        ctx.end()
        journal.write("R %d\n" % i)
        journal.flush()
        i += 1
        if time.time() - last_dump > (0.4 if time.time() - t_start < 20 else 2.0):
            ctx.dump(respath)
            last_dump = time.time()
    ctx.dump(respath)
    journal.write("E %d\n" % i)
    journal.flush()
    if hasattr(module, "worker_exit"):
        module.worker_exit(ctx)
    sys.stdout.flush()
    os._exit(0)


def replay_main(modname, variant, tier, seed, casefile, builddir, out):
    module = importlib.import_module(modname)
    ctx = Ctx(module, variant, tier, seed, builddir)
    case = json.load(open(casefile))
    if isinstance(case, dict) and "case" in case and "property" in case:
        case = case["case"]
    ctx.begin(case)
    module.run_case(ctx, case)
    ctx.end()
    ctx.dump(out)
    sys.stdout.flush()
    os._exit(0)


# ---------------------------------------------------------------- parent side

def _spawn(modname, variant, tier, seed, stream, start, stop, deadline, workdir, builddir, logf):
    env = vbuild.asan_env() if variant == "asan" else dict(os.environ)
    env["PYTHONHASHSEED"] = "0"
    env["PYTHONPATH"] = HERE
    env["VERIF_VARIANT"] = variant
    cmd = [PY, "-X", "faulthandler", "-m", "vlib.runner", "--worker", modname, variant, tier, str(seed),
           str(stream), str(start), str(stop), repr(deadline), workdir, builddir]
    return subprocess.Popen(cmd, cwd=HERE, env=env, stdout=logf, stderr=subprocess.STDOUT,
                            preexec_fn=os.setsid)


def _journal_state(path):
    """-> (open_index, open_case_json, next_index, ended)"""
    open_i, open_case, nxt, ended = None, None, None, False
    if not os.path.exists(path):
        return None, None, None, False
    with open(path) as f:
        for line in f:
            if line.startswith("C "):
                _, i, rest = line.split(" ", 2)
                open_i, open_case = int(i), rest
            elif line.startswith("R "):
                nxt = int(line.split()[1]) + 1
                open_i, open_case = None, None
            elif line.startswith("E "):
                ended = True
                nxt = int(line.split()[1])
    return open_i, open_case, nxt, ended


def run_alone(modname, variant, tier, seed, case, builddir, timeout, workdir, halt=False):
    """Re-run one case in its own process. -> dict(status=ok|died|timeout, rc, log, result)"""
    cf = os.path.join(workdir, "alone.%s.%s.json" % (variant, digest(case)[:12]))
    with open(cf, "w") as f:
        f.write(canon(case))
    out = cf + ".out"
    logp = cf + ".asanlog"
    env = vbuild.asan_env(halt=True) if variant == "asan" else dict(os.environ)
    env["PYTHONHASHSEED"] = "0"
    env["PYTHONPATH"] = HERE
    env["VERIF_VARIANT"] = variant
    cmd = [PY, "-X", "faulthandler", "-m", "vlib.runner", "--replay1", modname, variant, tier, str(seed), cf, builddir, out]
    # output goes to a file, not a pipe: the sanitizer's llvm-symbolizer child inherits the descriptor and would
    # keep a pipe open long after the process under test is gone
    logfile = cf + ".log"
    with open(logfile, "wb") as lf:
        p = subprocess.Popen(cmd, cwd=HERE, env=env, stdout=lf, stderr=subprocess.STDOUT, preexec_fn=os.setsid)
        try:
            p.wait(timeout=timeout)
            timed_out = False
        except subprocess.TimeoutExpired:
            timed_out = True
        try:
            os.killpg(p.pid, signal.SIGKILL)
        except OSError:
            pass
        p.wait()
    log = open(logfile, "rb").read().decode(errors="replace")
    if timed_out:
        return {"status": "timeout", "rc": None, "log": _trim_log(log)}
    res = None
    if os.path.exists(out):
        res = json.load(open(out))
    if p.returncode != 0 or res is None:
        return {"status": "died", "rc": p.returncode, "log": _trim_log(log), "result": res}
    return {"status": "ok", "rc": 0, "log": log[-2000:], "result": res}


def _trim_log(log):
    # keep the sanitizer / faulthandler header and the first frames
    keys = ("ERROR: AddressSanitizer", "runtime error:", "Fatal Python error", "SUMMARY:")
    idx = [log.find(k) for k in keys if log.find(k) >= 0]
    if idx:
        return log[min(idx):min(idx) + 3500]
    return log[-3000:]


def merge(results):
    out = {"cover": {}, "counters": {}, "violations": [], "samples": [], "distinct": set(),
           "evaluations": 0, "notes": []}
    for r in results:
        for name, m in r.get("cover", {}).items():
            d = out["cover"].setdefault(name, {})
            for k, v in m.items():
                d[k] = d.get(k, 0) + v
        for k, v in r.get("counters", {}).items():
            out["counters"][k] = out["counters"].get(k, 0) + v
        out["violations"].extend(r.get("violations", []))
        for s in r.get("samples", []):
            if len(out["samples"]) < 5:
                out["samples"].append(s)
        out["distinct"].update(r.get("distinct", []))
        out["evaluations"] += r.get("evaluations", 0)
        for n in r.get("notes", []):
            if n not in out["notes"] and len(out["notes"]) < 20:
                out["notes"].append(n)
    return out


def load_known():
    p = os.environ.get("VERIF_KNOWN_FILE") or os.path.join(HERE, "known_findings.json")   # override: development only
    if not os.path.exists(p):
        return []
    return json.load(open(p)).get("findings", [])


def main(module, argv=None):
    import argparse
    ap = argparse.ArgumentParser()
    ap.add_argument("--tier", default=None)
    ap.add_argument("--seed", type=int, default=None)
    ap.add_argument("--replay", default=None)
    ap.add_argument("--workers", type=int, default=NWORKERS)
    ap.add_argument("--cases", type=int, default=None)
    ap.add_argument("--seconds", type=float, default=None)
    ap.add_argument("--keep", action="store_true")
    args = ap.parse_args(argv)
    recorded = {}
    if args.replay:
        try:
            rf = json.load(open(args.replay))
            if isinstance(rf, dict) and "case" in rf and "property" in rf:
                recorded = rf      # a replay file carries the seed and tier of the run that wrote it: some monitors
                #                    derive further inputs (schedules, derived programs) from the run's seed
        except (OSError, ValueError):
            pass
    tier = args.tier or (recorded.get("tier") if recorded.get("tier") in module.VARIANTS else None) or \
        os.environ.get("VERIF_TIER", "quick")
    seed = args.seed if args.seed is not None else \
        (recorded["seed"] if isinstance(recorded.get("seed"), int) else int(os.environ.get("VERIF_SEED", "0")))
    modname = module.__name__
    if modname == "__main__":
        modname = "checks." + os.path.splitext(os.path.basename(module.__file__))[0]
    prop = module.PROPERTY
    t0 = time.time()
    variants = module.VARIANTS[tier]
    budget = dict(module.BUDGET[tier])
    if args.cases:
        budget["cases"] = args.cases
    if args.seconds:
        budget["seconds"] = args.seconds
    stall = budget.get("stall", 30 if tier == "quick" else 120)

    # builds
    builds = {}
    try:
        for v in variants:
            builds[v] = vbuild.ensure(v)
    except vbuild.BuildError as e:
        print("INCONCLUSIVE property=%s build failed:\n%s" % (prop, str(e)[-3000:]))
        return 3

    workdir = tempfile.mkdtemp(prefix="run.%s." % prop, dir=_scratch())
    replay_dir = os.path.join(HERE, "replays")
    os.makedirs(replay_dir, exist_ok=True)
    inconclusive = []
    results = []
    deaths = []
    try:
        if args.replay:
            case = json.load(open(args.replay))
            if isinstance(case, dict) and "case" in case and "property" in case:
                case = case["case"]
            for v in variants:
                r = run_alone(modname, v, tier, seed, case, builds[v], 600, workdir)
                if r["status"] == "ok":
                    results.append(r["result"])
                else:
                    deaths.append({"variant": v, "case": case, "status": r["status"], "rc": r["rc"],
                                   "log": r["log"]})
                    if r.get("result"):
                        results.append(r["result"])
        else:
            per_variant = max(1, args.workers // len(variants))
            ncases = budget["cases"]
            for_each = (ncases + per_variant - 1) // per_variant
            deadline = time.time() + budget["seconds"]
            procs = []
            for v in variants:
                vdir = os.path.join(workdir, v)
                os.makedirs(vdir)
                for s in range(per_variant):
                    logf = open(os.path.join(vdir, "log.%d" % s), "ab")
                    p = _spawn(modname, v, tier, seed, s, 0, for_each, deadline, vdir, builds[v], logf)
                    procs.append({"p": p, "v": v, "s": s, "dir": vdir, "logf": logf, "last": time.time(),
                                  "size": 0, "restarts": 0})
            hard_deadline = deadline + stall + 30
            while procs:
                time.sleep(0.2)
                now = time.time()
                for pr in list(procs):
                    jp = os.path.join(pr["dir"], "journal.%d" % pr["s"])
                    try:
                        sz = os.path.getsize(jp)
                    except OSError:
                        sz = 0
                    if sz != pr["size"]:
                        pr["size"], pr["last"] = sz, now
                    rc = pr["p"].poll()
                    stalled = rc is None and (now - pr["last"] > stall)
                    if rc is None and not stalled and now < hard_deadline:
                        continue
                    try:
                        os.killpg(pr["p"].pid, signal.SIGKILL)     # also reaps orphaned symbolizer children
                    except OSError:
                        pass
                    pr["p"].wait()
                    procs.remove(pr)
                    pr["logf"].close()
                    open_i, open_case, nxt, ended = _journal_state(jp)
                    if ended and rc == 0:
                        continue
                    if open_i is not None:
                        case = json.loads(open_case)
                        log = open(os.path.join(pr["dir"], "log.%d" % pr["s"]), "rb").read().decode(errors="replace")
                        deaths.append({"variant": pr["v"], "case": case,
                                       "status": "timeout" if stalled else "died",
                                       "rc": rc, "log": _trim_log(log), "stream": pr["s"], "index": open_i})
                        nxt = open_i + 1
                    elif rc not in (0, None) or stalled:
                        log = open(os.path.join(pr["dir"], "log.%d" % pr["s"]), "rb").read().decode(errors="replace")
                        inconclusive.append("worker %s/%d ended rc=%s outside a case: %s" % (pr["v"], pr["s"], rc, log[-800:]))
                        if nxt is None:
                            continue
                    if nxt is not None and nxt < for_each and now < deadline and pr["restarts"] < 400:
                        # truncate log, restart after the fatal case
                        logf = open(os.path.join(pr["dir"], "log.%d" % pr["s"]), "wb")
                        p = _spawn(modname, pr["v"], tier, seed, pr["s"], nxt, for_each, deadline, pr["dir"],
                                   builds[pr["v"]], logf)
                        procs.append({"p": p, "v": pr["v"], "s": pr["s"], "dir": pr["dir"], "logf": logf,
                                      "last": time.time(), "size": pr["size"], "restarts": pr["restarts"] + 1})
            for v in variants:
                for rp in glob.glob(os.path.join(workdir, v, "result.*.json")):
                    try:
                        results.append(json.load(open(rp)))
                    except Exception:
                        pass

        merged = merge(results)
        violations = list(merged["violations"])

        # deaths: a death whose (case, report) matches a known finding needs no confirmation; the others are
        # re-run alone, in parallel, which attaches the report to exactly one case
        known = load_known()
        classify = getattr(module, "classify", None)

        def mech_of(vio):
            if not classify:
                return None
            try:
                m = classify(vio)
            except Exception:
                return None
            if m:
                for k in known:
                    if k.get("mechanism") == m and k.get("status") == "known" and \
                            (vio["property"] in k.get("properties", []) or "*" in k.get("properties", [])):
                        return m
            return None

        seen = set()
        todo = []
        for d in deaths:
            key = (d["variant"], digest(d["case"]))
            if key in seen:
                continue
            seen.add(key)
            vio = {"property": prop, "kind": "hang" if d["status"] == "timeout" else "process-death",
                   "detail": {"rc": d["rc"], "signal": _signame(d["rc"]), "report": d["log"]},
                   "case": d["case"], "variant": d["variant"]}
            if args.replay or mech_of(vio):
                violations.append(vio)
            else:
                todo.append((d, vio))
        cap = 48 if tier == "quick" else 2500
        if len(todo) > cap:
            inconclusive.append("%d worker deaths; only the first %d were re-run alone" % (len(todo), cap))
        from concurrent.futures import ThreadPoolExecutor

        def confirm(item):
            d, vio = item
            tmo = max(stall * 8, 480)      # generous: a verdict of "hang" must not depend on how loaded the machine is
            if d["variant"] != "asan":
                # attribute a death on an uninstrumented build by re-running the case under ASan
                try:
                    ab = builds.get("asan") or vbuild.ensure("asan")
                    builds["asan"] = ab
                    ra = run_alone(modname, "asan", tier, seed, d["case"], ab, tmo, workdir)
                    if ra["status"] != "ok":
                        ra["via"] = "asan"
                        return ra
                except vbuild.BuildError:
                    pass
            return run_alone(modname, d["variant"], tier, seed, d["case"], builds[d["variant"]], tmo, workdir)
        with ThreadPoolExecutor(max_workers=min(14, max(1, len(todo[:cap])))) as ex:
            confirmations = list(ex.map(confirm, todo[:cap]))
        for (d, vio), r in zip(todo[:cap], confirmations):
            if r["status"] == "ok":
                try:        # keep the case: an intermittent stall can only be studied with the input at hand
                    with open(os.path.join(replay_dir, "%s-once-%s.json" % (prop, digest(d["case"])[:10])), "w") as f:
                        json.dump({"property": prop, "kind": "stalled-once" if d["status"] == "timeout" else "died-once",
                                   "detail": {"rc": d["rc"], "report": d["log"][:2000]}, "case": d["case"],
                                   "variant": d["variant"], "seed": seed, "tier": tier}, f)
                except OSError:
                    pass
                if d["status"] == "timeout":
                    inconclusive.append("watchdog fired once but the case returns when run alone: %s" % canon(d["case"])[:300])
                else:
                    inconclusive.append("worker died (rc=%s) but the open case passes alone: %s ... %s" % (
                        d["rc"], canon(d["case"])[:300], d["log"][:600]))
                continue
            vio["kind"] = "hang" if r["status"] == "timeout" else "process-death"
            vio["detail"] = {"rc": r["rc"], "signal": _signame(r["rc"]), "report": r["log"],
                             "first_seen": {"variant": d["variant"], "rc": d["rc"], "signal": _signame(d["rc"])}}
            if r.get("via"):
                vio["detail"]["report_from"] = r["via"]
            violations.append(vio)
        for d, vio in todo[cap:]:
            vio["detail"]["unconfirmed"] = True
            violations.append(vio)

        # classify against known findings
        reported, knownhits = [], {}
        for vio in violations:
            mech = mech_of(vio)
            if mech:
                knownhits.setdefault(mech, []).append(vio)
            else:
                reported.append(vio)

        nontriv = len(merged["distinct"])
        wall = time.time() - t0
        ev = {
            "property_id": prop, "tier": tier, "seed": seed, "level": module.LEVEL,
            "coverage": {
                "evaluations": max(merged["evaluations"], 0),
                "distinct_nontrivial": nontriv,
                "rule": module.RULE,
                "samples": merged["samples"],
                "counters": merged["counters"],
                "maps": merged["cover"],
                "variants": variants,
                "worker_deaths_observed": len(deaths),
                "known_findings_reobserved": {m: len(v) for m, v in knownhits.items()},
                "notes": merged["notes"],
                "inconclusive": inconclusive[:10],
            },
            "assumptions": getattr(module, "ASSUMPTIONS", []),
            "wall_s": round(wall, 2),
            "violations": len(reported),
        }
        if getattr(module, "EXHAUSTIVE", None) is not None:
            ev["coverage"]["exhaustive"] = module.EXHAUSTIVE
        if hasattr(module, "finish"):
            module.finish(merged, ev)

        rc = 0
        for mech, vs in sorted(knownhits.items()):
            desc = [k for k in known if k.get("mechanism") == mech][0].get("description", "")
            print("KNOWN-FINDING: property=%s %s: %s (re-observed %d times)" % (prop, mech, desc, len(vs)))
        outs = set()
        sigf = getattr(module, "signature", None)
        bysig = {}
        for vio in reported:
            try:
                sig = sigf(vio) if sigf else None
            except Exception:
                sig = None
            sig = sig or (vio["kind"] + ":" + _report_sig(vio))
            bysig.setdefault(sig, []).append(vio)
        ev["coverage"]["violation_signatures"] = {k: len(v) for k, v in bysig.items()}
        printed = 0
        for sig in sorted(bysig, key=lambda k: -len(bysig[k])):
            for j, vio in enumerate(bysig[sig][:3]):
                name = "%s-%s-%s.json" % (vio["property"], vio["kind"].replace(" ", "_")[:24], digest(vio["case"])[:10])
                path = os.path.join(replay_dir, name)
                if path in outs:
                    continue
                outs.add(path)
                with open(path, "w") as f:
                    json.dump(dict(vio, seed=seed, tier=tier, signature=sig), f, indent=1, default=_default)
                if j == 0 and printed < 40:
                    printed += 1
                    print("VIOLATION property=%s replay=%s kind=%s n=%d sig=%s %s" % (
                        vio["property"], path, vio["kind"], len(bysig[sig]), sig[:120], canon(vio["detail"])[:300]))
            rc = 1
        if len(bysig) > 40:
            print("... %d more violation signatures (replay files written)" % (len(bysig) - 40))

        minimum = 1 if args.replay else module.MIN_NONTRIVIAL.get(tier, 2)
        if merged["counters"].get("generator_errors", 0) > max(20, 0.01 * merged.get("evaluations", 0)):
            inconclusive.append("%d generator errors (cases that could not be generated): %s" % (
                merged["counters"]["generator_errors"], " | ".join(n for n in merged.get("notes", []) if "generator error" in n)[:600]))
        if merged["counters"].get("harness_errors", 0):
            inconclusive.append("%d harness errors: %s" % (merged["counters"]["harness_errors"],
                                                          " | ".join(n for n in merged["notes"] if "harness error" in n)[:1500]))
        if rc == 0 and not args.replay:
            if nontriv < max(2, minimum):
                inconclusive.append("only %d distinct non-trivial cases (< %d required)" % (nontriv, minimum))
        os.makedirs(os.path.join(HERE, "evidence"), exist_ok=True)
        if not args.replay:
            ev["coverage"]["evaluations"] = max(1, ev["coverage"]["evaluations"])
            with open(os.path.join(HERE, "evidence", "%s.json" % prop), "w") as f:
                json.dump(ev, f, indent=1, default=_default)
        print("%s tier=%s seed=%d variants=%s evaluations=%d distinct_nontrivial=%d violations=%d known=%d wall=%.1fs" % (
            prop, tier, seed, ",".join(variants), merged["evaluations"], nontriv, len(reported),
            sum(len(v) for v in knownhits.values()), wall))
        if rc == 0 and inconclusive:
            hard = [m for m in inconclusive if "harness errors" in m or "distinct non-trivial" in m or "outside a case" in m]
            for m in inconclusive[:10]:
                print("INCONCLUSIVE property=%s %s" % (prop, m))
            if hard:
                return 3
        return rc
    finally:
        if not args.keep:
            shutil.rmtree(workdir, ignore_errors=True)


def _report_sig(vio):
    det = vio.get("detail") or {}
    rep = det.get("report") if isinstance(det, dict) else None
    if rep:
        import re
        m = re.search(r"ERROR: AddressSanitizer: ([\w-]+)", rep)
        frames = re.findall(r"in (\S+) /\S*?/(src/[\w./-]+:\d+)", rep)
        if m:
            return m.group(1) + "@" + (frames[0][1] if frames else "?")
        m = re.search(r"runtime error: ([^\n]{0,80})", rep)
        if m:
            return "ubsan:" + m.group(1)
        return "signal:" + str(det.get("signal") or det.get("rc"))
    return canon(det)[:80]


def _signame(rc):
    if rc is None:
        return None
    if rc < 0:
        try:
            return signal.Signals(-rc).name
        except ValueError:
            return str(rc)
    return None


def _scratch():
    d = os.path.join(HERE, ".build", "scratch")
    os.makedirs(d, exist_ok=True)
    return d


if __name__ == "__main__":
    if sys.argv[1] == "--worker":
        (modname, variant, tier, seed, stream, start, stop, deadline, workdir, builddir) = sys.argv[2:12]
        worker_main(modname, variant, tier, int(seed), int(stream), int(start), int(stop), float(deadline),
                    workdir, builddir)
    elif sys.argv[1] == "--replay1":
        (modname, variant, tier, seed, casefile, builddir, out) = sys.argv[2:9]
        replay_main(modname, variant, tier, int(seed), casefile, builddir, out)
